"""C09 — galaxies follow the HOD threshold rule and inherit their host (DESIGN.md §7 C09).

Correspondence: the real `GRAND_HOD.gen_gal_cat` (and, observed inside that call and called directly,
`gen_cent` and `gen_sats`) against the Lean model `Model/C09.lean` on synthetic halo / particle tables.
Oracle: the selection rule and the inheritance / RSD / ordering claims restated in plain Python on the
same slice widths (computed by `hodgen09` with the package's own occupation functions).
"""
import json
import math
from fractions import Fraction

import numpy as np

THEOREMS = [
    'AbacusVerif.Hod.marker_eq_cumsum',
    'AbacusVerif.Hod.threshold_rule',
    'AbacusVerif.Hod.threshold_rule_slices',
    'AbacusVerif.Hod.threshold_rule_catalogue',
    'AbacusVerif.Hod.at_most_one',
    'AbacusVerif.Hod.nested_in_ic',
    'AbacusVerif.Hod.nested_in_ic_scale',
    'AbacusVerif.Hod.later_tracer_irrelevant',
    'AbacusVerif.Hod.later_tracer_irrelevant_catalogue',
    'AbacusVerif.Hod.disabled_tracer_captures_nothing',
    'AbacusVerif.Hod.inherits_host',
    'AbacusVerif.Hod.inherits_host_catalogue',
    'AbacusVerif.Hod.rsd_only_los_box',
    'AbacusVerif.Hod.rsd_only_los_lightcone',
    'AbacusVerif.Hod.rsd_off_identity',
    'AbacusVerif.Hod.order_and_ncent',
    'AbacusVerif.Hod.later_tracer_irrelevant_genGalCat',
    'AbacusVerif.Hod.nested_in_ic_catalogue',
    'AbacusVerif.Hod.nested_in_ic_not_through_conformity',
    'AbacusVerif.Hod.nfw_inherits_host',
    'AbacusVerif.Hod.nfw_rsd',
    'AbacusVerif.Hod.nfw_rsd_eq_wrap',
    'AbacusVerif.Hod.nfw_order_and_ncent',
    'AbacusVerif.Hod.W.widths_match_spec',
    'AbacusVerif.Hod.W.markers_match_spec',
    'AbacusVerif.Hod.W.chain_matches_model',
    'AbacusVerif.Hod.W.contribs_sum_eq_marker',
]
LEAN_MODULES = ['AbacusVerif.Props.C09', 'AbacusVerif.Props.C09Widths']
DRIVER = 'drv_c09'
RULE = ('one evaluation = one synthetic (halo table, particle table, tracer subset, HOD parameters, RSD mode) run '
        'through the real gen_gal_cat with Nthread=2 (gen_cent / gen_sats observed inside the call) plus one direct '
        'gen_sats call with an arbitrary keep_cent array, each compared with the Lean model and with the Python '
        'restatement of the rule; non-trivial when at least one row is selected and one is rejected or two keep codes '
        'occur; distinct = distinct (flavor, subset, rsd mode, ranks, digest of all table values and parameters)')
TRUSTED = [
    'slice widths are computed by harness/hodgen09.py with the package\'s own occupation functions (n_cen_LRG, '
    'N_cen_ELG_v1, N_cen_QSO, n_sat_LRG_modified, N_sat_elg, N_sat_generic) and the expressions re-derived from '
    'gen_cent/gen_sats; the numerics of erfc/log10/pow are not re-derived',
    'generic (non-dyadic) rows: a random number closer to a marker than 1e-13 x (sum of |widths|) + the width change '
    'under a 2^-46 relative mass change decides nothing (fastmath association); rows with exactly representable '
    'markers (saturated occupations, dyadic ic / multiplicity / weights) are compared strictly, including values '
    'exactly on a marker, 0 and 1',
    'float64 positions / velocities compared exactly on dyadic inputs (box / no RSD), otherwise within 1e-12 of the '
    'scale of the operands; 1/sqrt of the light-cone branch is an input of the model',
    'Nthread fixed at 2 (thread structure is C10)',
]
ASSUMPTIONS = [
    'NFW satellites (nfw=True, gen_sats_nfw): the threshold rule / at-most-one / nesting clauses do not apply there '
    '(per-halo, per-tracer Poisson counts from numba\'s global generator; stored randoms, particles, weights and ranks '
    'unused); checked on that path (thorough tier): centrals as usual, id / mass inheritance, host order, Ncent and the '
    'RSD range clause; counted as observations only (evidence: nfw_observations): the Poisson counts against a replay '
    'from the same seed with mean = occupation x ic, velocity = host velocity when f_sigv = 0, distance to the host '
    '<= nfw_rescale x rvir, and the degenerate profile (all satellites on the halo centre) when ELG is not requested',
    'finite widths (sigma, Q > 0, positive masses); hid, mass float64 / int64 as staging() provides them',
    'box RSD range claim under -L/2 <= z < L/2 and |v_z * inv_velz2kms| <= L (a single wrap)',
]

TOL = 1e-12
CODE = {'LRG': 1, 'ELG': 2, 'QSO': 3}
COLS = ['x', 'y', 'z', 'vx', 'vy', 'vz', 'mass']


def fr(x):
    n, d = float(x).as_integer_ratio()
    return str(n) if d == 1 else '%d/%d' % (n, d)


def small(case):
    return {k: case[k] for k in ('label', 'flavor', 'subset', 'rsdmode', 'ranks')} | {
        'H': len(case['halo']['hmass']), 'P': len(case['part']['phmass'])}


# ----------------------------------------------------------------------------- translator

def extract(ctx):
    """regenerate lean/AbacusVerif/Generated/HodWidths.lean from the source of gen_cent / gen_sats / gen_gals"""
    import hodwidths09 as hw
    from abacusnbody.hod import GRAND_HOD as G
    try:
        tab, changed = hw.generate(G)
    except hw.TieBroken as e:
        # The translator could not INTERPRET the source (a refactoring it does not understand).  That alone is no
        # alarm: the committed Generated/HodWidths.lean is left untouched, the width-table theorems are dropped from
        # this run's obligations, and the run is decided by the correspondence and the oracle.
        ctx.extra['hodwidths_translator'] = 'unavailable: %s' % e
        ctx.count('translator:hodwidths-unavailable')
        ctx.theorems = [t for t in ctx.theorems if not t.startswith('AbacusVerif.Hod.W.')]
        ctx.modules = [m for m in ctx.modules if m != 'AbacusVerif.Props.C09Widths']
        return
    ctx.extra['hodwidths_translator'] = 'ok'
    ctx.extra['generated'] = {'file': 'lean/AbacusVerif/Generated/HodWidths.lean', 'rewritten': bool(changed),
                              'width_rows': len(tab['widths']), 'marker_rows': len(tab['markers']),
                              'chains': [[list(r) for r in c[1][0]] + [c[1][1]] for c in tab['chains']]}


# ----------------------------------------------------------------------------- model requests

def cfg_tokens(case, arr):
    import hodgen09 as g
    en = g.enabled(case)
    o = arr['params']['origin']
    inv = 1 / arr['params']['velz2kms']
    return [''.join('1' if e else '0' for e in en), '1' if case['rsd'] else '0',
            '-' if o is None else ','.join(fr(v) for v in o), fr(inv), fr(arr['params']['Lbox'])]


def tri(case, key):
    import hodgen09 as g
    return ','.join(fr(case['tracers'][T][key]) if T in case['tracers'] else '0' for T in g.TR)


def inv_norms(pos, origin):
    if origin is None or len(pos) == 0:
        return np.zeros(len(pos))
    n = pos - origin[None, :]
    with np.errstate(all='ignore'):
        return 1.0 / np.sqrt(n[:, 0] * n[:, 0] + n[:, 1] * n[:, 1] + n[:, 2] * n[:, 2])


def host_tokens(arr, wc, rng_fill):
    h = arr['halo']
    invn = inv_norms(h['hpos'], arr['params']['origin'])
    out = []
    for i in range(len(h['hmass'])):
        f = [h['hmass'][i], *h['hpos'][i], *h['hvel'][i], *h['hveldev'][i], h['hrandoms'][i],
             wc[i, 0], wc[i, 1], wc[i, 2], invn[i]]
        out.append('%d,' % h['hid'][i] + ','.join(fr(v) for v in f))
    return out


def part_tokens(arr, w5, last):
    p = arr['part']
    invn = inv_norms(p['ppos'], arr['params']['origin'])
    out = []
    for i in range(len(p['phmass'])):
        f = [p['phmass'][i], *p['ppos'][i], *p['pvel'][i], *p['phvel'][i], p['prandoms'][i],
             w5[i, 0], w5[i, 1], w5[i, 2], w5[i, 3], w5[i, 4], invn[i]]
        out.append('%d,' % p['phid'][i] + ','.join(fr(v) for v in f) + ',%d' % int(last[i]))
    return out


def parse_gals(s):
    if s == '-':
        return []
    out = []
    for g in s.split(';'):
        f = g.split(',')
        out.append((int(f[0]), [Fraction(v) for v in f[1:]]))
    return out


def parse_model(s):
    if not s.startswith('ok '):
        return {'err': s}
    d = dict(p.split('=', 1) for p in s.split(' ')[1:])
    out = {}
    for k, v in d.items():
        if k.startswith('keep'):
            out[k] = [] if v == '-' else [int(x) for x in v.split(',')]
        elif v == 'x':
            out[k] = None
        elif ':' in v:
            n, gl = v.split(':', 1)
            out[k] = (int(n), parse_gals(gl))
        else:
            out[k] = parse_gals(v)
    return out


# ----------------------------------------------------------------------------- comparisons

def scales(case, arr):
    h, p, prm = arr['halo'], arr['part'], arr['params']
    inv = abs(1 / prm['velz2kms'])
    amax = max([1.0] + [abs(d.get(k, 0.0)) for d in case['tracers'].values() for k in ('alpha_c', 'alpha_s')])
    vmax = max([1.0] + [float(np.abs(a).max()) for a in (h['hvel'], h['hveldev'], p['pvel'], p['phvel']) if a.size])
    vs = vmax * (1 + 2 * amax)
    pmax = max([1.0, abs(prm['Lbox'])] + [float(np.abs(a).max()) for a in (h['hpos'], p['ppos']) if a.size])
    if prm['origin'] is not None:
        pmax += float(np.abs(prm['origin']).max())
    return pmax + vs * inv, vs


def strict_kin(case):
    """dyadic kinematics without the light-cone square root: float results are exact"""
    return case['flavor'] == 'exact' and case['rsdmode'] != 'lc'


def close(a, b, tol_abs):
    return a == b or abs(a - b) <= tol_abs


def cmp_table_model(case, arr, tab, mgals):
    """real galaxy table (dict of arrays) vs the model's galaxy list; returns None or a description"""
    ps, vs = scales(case, arr)
    strict = strict_kin(case)
    if len(tab['id']) != len(mgals):
        return 'length impl=%d model=%d' % (len(tab['id']), len(mgals))
    for j, (gid, f) in enumerate(mgals):
        if int(tab['id'][j]) != gid:
            return 'row %d id impl=%d model=%d' % (j, int(tab['id'][j]), gid)
        mass, x, y, z, vx, vy, vz = f
        if Fraction(float(tab['mass'][j])) != mass:
            return 'row %d mass impl=%r model=%r' % (j, float(tab['mass'][j]), float(mass))
        for name, mv, sc in (('x', x, ps), ('y', y, ps), ('z', z, ps), ('vx', vx, vs), ('vy', vy, vs), ('vz', vz, vs)):
            iv = float(tab[name][j])
            if strict:
                ok = Fraction(iv) == mv
            else:
                ok = math.isfinite(iv) and abs(Fraction(iv) - mv) <= Fraction(TOL * sc)
            if not ok:
                return 'row %d %s impl=%r model=%r' % (j, name, iv, float(mv))
    return None


def expected_gal(case, arr, T, kind, i, vel_impl=None):
    """the property, restated: what galaxy of tracer T sits on host row / particle row i.
    Returns dict(id, mass, vel (3,), pos_off (3,)) — positions are checked by check_pos."""
    hod = case['tracers'][T]
    if kind == 'cent':
        h = arr['halo']
        vel = h['hvel'][i] + hod['alpha_c'] * h['hveldev'][i]
        return dict(id=int(h['hid'][i]), mass=float(h['hmass'][i]), vel=vel, pos=h['hpos'][i])
    p = arr['part']
    vel = p['phvel'][i] + hod['alpha_s'] * (p['pvel'][i] - p['phvel'][i])
    return dict(id=int(p['phid'][i]), mass=float(p['phmass'][i]), vel=vel, pos=p['ppos'][i])


def check_pos(case, arr, e, got_pos, got_vel):
    """RSD claims on one galaxy; `e` the expected galaxy (host position), got_* what the real code returned.
    Returns None or a description."""
    prm = arr['params']
    ps, vs = scales(case, arr)
    L = prm['Lbox']
    inv = 1 / prm['velz2kms']
    pos0 = e['pos']
    if not case['rsd']:
        if not all(float(got_pos[k]) == float(pos0[k]) for k in range(3)):
            return 'no RSD but position %r != host position %r' % (list(map(float, got_pos)), list(map(float, pos0)))
        return None
    if prm['origin'] is None:
        if float(got_pos[0]) != float(pos0[0]) or float(got_pos[1]) != float(pos0[1]):
            return 'box RSD moved a transverse coordinate: %r vs %r' % (list(map(float, got_pos)), list(map(float, pos0)))
        d = float(pos0[2]) + float(got_vel[2]) * inv
        if strict_kin(case):
            dq = Fraction(float(pos0[2])) + Fraction(float(got_vel[2])) * Fraction(inv)
            Lq = Fraction(L)
            pre = -Lq / 2 <= Fraction(float(pos0[2])) < Lq / 2 and abs(Fraction(float(got_vel[2])) * Fraction(inv)) <= Lq
            z = Fraction(float(got_pos[2]))
            if (z - dq) / Lq not in (0, 1, -1):
                return 'z=%r is not z0 + vz*inv (=%r) modulo L=%r' % (float(z), float(dq), L)
            if pre:
                want = dq - Lq * math.floor((dq + Lq / 2) / Lq)
                if z != want:
                    return 'z=%r, expected %r (z0 + vz*inv = %r wrapped into [-L/2, L/2), L=%r)' % (float(z), float(want), float(dq), L)
            return None
        z = float(got_pos[2])
        if not min(abs(z - d), abs(z - d - L), abs(z - d + L)) <= TOL * ps:
            return 'z=%r is not z0 + vz*inv (=%r) modulo L=%r' % (z, d, L)
        if -L / 2 <= pos0[2] < L / 2 and abs(float(got_vel[2]) * inv) <= L:
            if not (-L / 2 <= z <= L / 2):
                return 'z=%r outside [-L/2, L/2], L=%r' % (z, L)
            near_edge = min(abs(d - L / 2), abs(d + L / 2), abs(d - 3 * L / 2), abs(d + 3 * L / 2)) <= TOL * ps
            want = d - L * math.floor((d + L / 2) / L)
            if not near_edge and abs(z - want) > TOL * ps:
                return 'z=%r, expected %r' % (z, want)
        return None
    # light cone: displacement parallel to the line of sight, signed length v_los * inv
    n = np.asarray(pos0, dtype=np.float64) - prm['origin']
    nn = float(np.sqrt(np.dot(n, n)))
    if not (nn > 0 and math.isfinite(nn)):
        return None
    nh = n / nn
    vlos = float(np.dot(np.asarray(got_vel, dtype=np.float64), nh))
    want = np.asarray(pos0, dtype=np.float64) + (vlos * inv) * nh
    if not all(abs(float(got_pos[k]) - float(want[k])) <= TOL * ps for k in range(3)):
        return 'light-cone position %r, expected %r (host %r + v_los*inv along the line of sight)' % (
            list(map(float, got_pos)), list(map(float, want)), list(map(float, pos0)))
    return None


def check_table_oracle(ctx, case, arr, T, kind, rows, tab, where):
    """tab must be exactly the galaxies of `rows` (in that order) of tracer T; returns True when clean"""
    sc = small(case)
    if len(tab['id']) != len(rows):
        ctx.fail('%s: %s %s table has %d rows, the rule selects %d hosts' % (where, T, kind, len(tab['id']), len(rows)),
                 dict(sc, full=case), len(tab['id']), len(rows), key='c09:count')
        return False
    ps, vs = scales(case, arr)
    strict = strict_kin(case)
    for j, i in enumerate(rows):
        e = expected_gal(case, arr, T, kind, i)
        got_vel = [float(tab[k][j]) for k in ('vx', 'vy', 'vz')]
        got_pos = [float(tab[k][j]) for k in ('x', 'y', 'z')]
        if int(tab['id'][j]) != e['id'] or float(tab['mass'][j]) != e['mass']:
            ctx.fail('%s: %s %s galaxy %d does not carry its host\'s id/mass' % (where, T, kind, j),
                     dict(sc, row=int(i), full=case), dict(id=int(tab['id'][j]), mass=float(tab['mass'][j])),
                     dict(id=e['id'], mass=e['mass']), key='c09:inherit-id-mass')
            return False
        for k in range(3):
            ok = got_vel[k] == float(e['vel'][k]) if strict else close(got_vel[k], float(e['vel'][k]), TOL * vs)
            if not ok:
                ctx.fail('%s: %s %s galaxy %d velocity is not the velocity-bias formula' % (where, T, kind, j),
                         dict(sc, row=int(i), full=case), got_vel, [float(v) for v in e['vel']], key='c09:inherit-velocity')
                return False
        msg = check_pos(case, arr, e, got_pos, got_vel)
        if msg:
            ctx.fail('%s: %s %s galaxy %d: %s' % (where, T, kind, j, msg), dict(sc, row=int(i), full=case),
                     got_pos, 'see message', key='c09:rsd' if case['rsd'] else 'c09:inherit-position')
            return False
    return True


# ----------------------------------------------------------------------------- one case

def check_case(ctx, case, rng=None):
    import hodgen09 as g
    from abacusnbody.hod import GRAND_HOD as G
    arr = g.to_arrays(case)
    en = g.enabled(case)
    sc = small(case)
    H, P = sc['H'], sc['P']
    wc = g.cent_widths(case, arr)
    w5 = g.sat_widths(case, arr)
    if not (np.isfinite(wc).all() and np.isfinite(w5).all()):
        ctx.count('skipped:non-finite-width')
        return
    slc, sl5 = g.width_slack(case, arr, wc, w5)
    hr = arr['halo']['hrandoms']
    pr = arr['part']['prandoms']

    # ---- the real code
    try:
        out, rec = g.run_real(case, arr)
    except Exception as e:   # noqa: BLE001
        ctx.fail('gen_gal_cat raised %s' % type(e).__name__, dict(sc, full=case), repr(e)[:300], 'a catalogue',
                 key='c09:exception')
        return
    LRGc, ELGc, QSOc, IDc, keepc = rec.cent_out
    LRGs, ELGs, QSOs, IDs = rec.sats_out
    centd = dict(LRG=LRGc, ELG=ELGc, QSO=QSOc)
    satd = dict(LRG=LRGs, ELG=ELGs, QSO=QSOs)
    keepc = np.array(keepc).astype(np.int64)
    kc_impl = np.array(rec.sats_args[-1]).astype(np.int64)

    # ---- oracle: selection rule on the centrals
    keep_exp = np.array([g.rule(en, wc[i], hr[i]) for i in range(H)], dtype=np.int64)
    amb_c = [g.is_ambiguous(en, wc[i], hr[i], g.row_bands(case, en, wc[i], slc[i])) for i in range(H)]
    ctx.count('rows:cent', H)
    ctx.count('rows:cent-exact', sum(1 for i in range(H) if g.row_exact(case, en, wc[i])))
    ok_sel = True
    for i in range(H):
        if keepc[i] != keep_exp[i] and not amb_c[i]:
            ok_sel = False
            k = int(keepc[i])
            dis = k in (1, 2, 3) and not en[k - 1]
            mini = dict(sc, row=i, enabled=''.join(g.TR[t][0] for t in range(3) if en[t]), random=float(hr[i]),
                        widths={g.TR[t]: float(wc[i, t]) for t in range(3) if en[t]},
                        markers=g.markers(en, wc[i]), full=case)
            if dis:
                ctx.fail('gen_cent: host captured by the disabled tracer %s (keep code %d), rule says %d' % (
                    g.TR[k - 1], k, keep_exp[i]), mini, k, int(keep_exp[i]), key='c09:disabled-tracer-captures')
            else:
                ctx.fail('gen_cent: keep code %d, the threshold rule says %d' % (k, keep_exp[i]), mini, k,
                         int(keep_exp[i]), key='c09:threshold-rule-cent')
            break
    if any(amb_c):
        ctx.count('skipped:ambiguous-row')
        return
    if not ok_sel:
        return
    for code in range(4):
        ctx.count('keepc=%d' % code, int((keepc == code).sum()))

    # gen_gals must hand gen_sats the central code of each particle's host
    if P and not np.array_equal(kc_impl, keep_exp[arr['part']['pinds']]):
        ctx.fail('gen_gals: keep_cent passed to gen_sats is not keep_cent[pinds]', dict(sc, full=case),
                 kc_impl.tolist(), keep_exp[arr['part']['pinds']].tolist(), key='c09:conformity-wiring')
        return

    # ---- oracle: selection rule on the satellites (conformity switch on the host's central code)
    ws = g.sat_triples(w5, kc_impl)
    sls = g.sat_triples(sl5, kc_impl)
    keeps_exp = np.array([g.rule(en, ws[i], pr[i]) for i in range(P)], dtype=np.int64)
    amb_s = [g.is_ambiguous(en, ws[i], pr[i], g.row_bands(case, en, ws[i], sls[i])) for i in range(P)]
    ctx.count('rows:sat', P)
    ctx.count('rows:sat-exact', sum(1 for i in range(P) if g.row_exact(case, en, ws[i])))
    if any(amb_s):
        ctx.count('skipped:ambiguous-row')
        return
    for code in range(4):
        ctx.count('keeps=%d' % code, int((keeps_exp == code).sum()))
    for v in (1, 2):
        ctx.count('conformity-branch-%d' % v, int(((kc_impl == v)).sum()) if en[1] else 0)

    nontrivial = len(set(keep_exp.tolist()) | set(keeps_exp.tolist())) >= 2
    digest = json.dumps([case['halo'], case['part'], case['tracers'], case['params']], sort_keys=True, default=str)
    ctx.case(sc, nontrivial=nontrivial, key=dict(sc, digest=hash_str(digest)))
    ctx.count('flavor:' + case['flavor'])
    ctx.count('subset:' + case['subset'])
    ctx.count('rsd:' + case['rsdmode'])
    ctx.count('ranks:%d' % case['ranks'])

    # ---- oracle: galaxy by galaxy
    clean = True
    for T in g.TR:
        code = CODE[T]
        tc = g.tracer_table(centd[T], IDc[T])
        ts = g.tracer_table(satd[T], IDs[T])
        if T not in case['tracers']:
            if len(tc['id']) or len(ts['id']) or T in out:
                ctx.fail('disabled tracer %s has galaxies' % T, dict(sc, full=case),
                         [len(tc['id']), len(ts['id']), T in out], [0, 0, False], key='c09:disabled-tracer-captures')
                clean = False
            continue
        rows_c = [i for i in range(H) if keep_exp[i] == code]
        rows_s = [i for i in range(P) if keeps_exp[i] == code]
        if len(ts['id']) != len(rows_s) or [int(v) for v in ts['id']] != [int(arr['part']['phid'][i]) for i in rows_s]:
            # which particle?  report the first row whose presence differs
            mini = dict(sc, tracer=T, enabled=''.join(g.TR[t][0] for t in range(3) if en[t]), full=case)
            ctx.fail('gen_sats: %s satellites are not the particles the threshold rule selects' % T, mini,
                     [int(v) for v in ts['id']][:20], [int(arr['part']['phid'][i]) for i in rows_s][:20],
                     key='c09:threshold-rule-sat')
            clean = False
            continue
        clean &= check_table_oracle(ctx, case, arr, T, 'cent', rows_c, tc, 'gen_cent')
        clean &= check_table_oracle(ctx, case, arr, T, 'sat', rows_s, ts, 'gen_sats')
        # assembly: centrals first, Ncent, order
        if T not in out:
            ctx.fail('tracer %s missing from the catalogue' % T, dict(sc, full=case), sorted(out), sorted(case['tracers']),
                     key='c09:order-ncent')
            clean = False
            continue
        o = out[T]
        if int(o['Ncent']) != len(rows_c):
            ctx.fail('%s: Ncent=%d but %d centrals' % (T, int(o['Ncent']), len(rows_c)), dict(sc, full=case),
                     int(o['Ncent']), len(rows_c), key='c09:order-ncent')
            clean = False
        for k in COLS + ['id']:
            want = np.concatenate([tc[k], ts[k]])
            got = np.array(o[k])
            if got.shape != want.shape or not np.array_equal(got, want):
                ctx.fail('%s: column %s of the catalogue is not centrals followed by satellites' % (T, k),
                         dict(sc, full=case), got.tolist()[:20], want.tolist()[:20], key='c09:order-ncent')
                clean = False
                break
    if set(out) != set(case['tracers']):
        ctx.fail('catalogue tracers %s != requested %s' % (sorted(out), sorted(case['tracers'])), dict(sc, full=case),
                 sorted(out), sorted(case['tracers']), key='c09:order-ncent')
        clean = False

    # ---- correspondence with the model
    cfg = cfg_tokens(case, arr)
    # widths of tracers that are not enabled do not exist in the real run: hand the model arbitrary numbers
    wc = wc.copy()
    w5 = w5.copy()
    for t, cols in ((0, [0]), (1, [1, 2, 3]), (2, [4])):
        if not en[t]:
            wc[:, t] = 0.37
            w5[:, cols] = 0.37
    hosts = host_tokens(arr, wc, None)
    lines = [' '.join(['cent'] + cfg + [tri(case, 'alpha_c')] + hosts),
             ' '.join(['sats'] + cfg + [tri(case, 'alpha_s')] + part_tokens(arr, w5, kc_impl)),
             ' '.join(['cat'] + cfg + [tri(case, 'alpha_c'), tri(case, 'alpha_s'), str(H)] + hosts +
                      part_tokens(arr, w5, arr['part']['pinds']))]
    # a direct gen_sats call with an arbitrary keep_cent array (any int8 value)
    rg = rng if rng is not None else np.random.default_rng(0)
    kc2 = rg.choice(np.array([0, 1, 2, 3, 1, 2, -1, 4, 127], dtype=np.int8), P).astype(np.int8)
    ws2 = g.sat_triples(w5, kc2.astype(np.int64))
    sls2 = g.sat_triples(sl5, kc2.astype(np.int64))
    amb2 = any(g.is_ambiguous(en, ws2[i], pr[i], g.row_bands(case, en, ws2[i], sls2[i])) for i in range(P))
    lines.append(' '.join(['sats'] + cfg + [tri(case, 'alpha_s')] + part_tokens(arr, w5, kc2)))
    direct = G.gen_sats(*(tuple(rec.sats_args[:-1]) + (kc2,)))
    res = [parse_model(s) for s in ctx.driver.query(lines)]
    mc, ms, mcat, ms2 = res
    for name, m in (('cent', mc), ('sats', ms), ('cat', mcat), ('sats-direct', ms2)):
        if 'err' in m:
            ctx.disagree('model answered %s to a %s request the real code served' % (m['err'], name), sc, m['err'], 'ok')
            return
    LT = dict(LRG='L', ELG='E', QSO='Q')
    if mc['keep'] != keepc.tolist():
        ctx.disagree('gen_cent keep codes', sc, mc['keep'], keepc.tolist())
    if mcat['keepc'] != keepc.tolist():
        ctx.disagree('gen_gal_cat central keep codes', sc, mcat['keepc'], keepc.tolist())
    if ms['keep'] != keeps_exp.tolist() or mcat['keeps'] != keeps_exp.tolist():
        ctx.disagree('satellite keep codes: model vs rule restated in Python', sc, [ms['keep'], mcat['keeps']], keeps_exp.tolist())
    for T in g.TR:
        tc = g.tracer_table(centd[T], IDc[T])
        ts = g.tracer_table(satd[T], IDs[T])
        for name, tab, mg in (('gen_cent', tc, mc[LT[T]]), ('gen_sats', ts, ms[LT[T]])):
            d = cmp_table_model(case, arr, tab, mg)
            if d:
                ctx.disagree('%s %s galaxies: %s' % (name, T, d), sc, 'model', 'impl')
        if not amb2:
            t2 = g.tracer_table(direct[{'LRG': 0, 'ELG': 1, 'QSO': 2}[T]], direct[3][T])
            d = cmp_table_model(case, arr, t2, ms2[LT[T]])
            if d:
                ctx.disagree('gen_sats (direct call, arbitrary keep_cent) %s galaxies: %s' % (T, d),
                             dict(sc, keep_cent=kc2.tolist()), 'model', 'impl')
            # oracle on the direct call: which particles
            rows2 = [i for i in range(P) if en[CODE[T] - 1] and g.rule(en, ws2[i], pr[i]) == CODE[T]]
            if [int(v) for v in t2['id']] != [int(arr['part']['phid'][i]) for i in rows2]:
                ctx.fail('gen_sats (direct call): %s satellites are not the particles the threshold rule selects '
                         '(conformity switch on keep_cent)' % T, dict(sc, keep_cent=kc2.tolist(), full=case),
                         [int(v) for v in t2['id']][:20], [int(arr['part']['phid'][i]) for i in rows2][:20],
                         key='c09:threshold-rule-sat')
        mt = mcat[LT[T]]
        if (mt is None) != (T not in out):
            ctx.disagree('gen_gal_cat: tracer %s present' % T, sc, mt is not None, T in out)
        elif mt is not None:
            if mt[0] != int(out[T]['Ncent']):
                ctx.disagree('gen_gal_cat %s Ncent' % T, sc, mt[0], int(out[T]['Ncent']))
            tab = {k: np.array(out[T][k]) for k in COLS + ['id']}
            d = cmp_table_model(case, arr, tab, mt[1])
            if d:
                ctx.disagree('gen_gal_cat %s galaxies: %s' % (T, d), sc, 'model', 'impl')
    if amb2:
        ctx.count('skipped:ambiguous-row-direct')
    ctx.traces_validated += 4



# ----------------------------------------------------------------------------- NFW satellites

NFW_RANGE_KEY = 'c09:nfw-rsd-range'


def _observe(ctx, what):
    """a counted observation about the NFW path that is outside the property's statement (never a failure)"""
    ctx.count(what)
    obs = ctx.extra.setdefault('nfw_observations', {})
    obs[what] = obs.get(what, 0) + 1


def check_case_nfw(ctx, case, rng=None):
    """nfw=True: centrals as usual; satellites: id / mass / order / counts / Ncent / RSD range; model `nfw`"""
    import hodgen09 as g
    arr = g.to_arrays(case)
    en = g.enabled(case)
    sc = small(case)
    sc['nfw'] = True
    H = sc['H']
    wc = g.cent_widths(case, arr)
    if not np.isfinite(wc).all():
        ctx.count('skipped:non-finite-width')
        return
    slc, _ = g.width_slack(case, arr, wc, np.zeros((0, 5)))
    hr = arr['halo']['hrandoms']
    keep_exp = np.array([g.rule(en, wc[i], hr[i]) for i in range(H)], dtype=np.int64)
    if any(g.is_ambiguous(en, wc[i], hr[i], g.row_bands(case, en, wc[i], slc[i])) for i in range(H)):
        ctx.count('skipped:ambiguous-row')
        return
    # Memory safety of older trees: before its repair getPointsOnSphere(nPoints, Nthread) built
    # min(Nthread, nPoints) + 1 block boundaries but looped over Nthread blocks (out-of-bounds reads and writes,
    # observed as a segmentation fault, whenever a tracer has fewer than Nthread satellites — always for a tracer
    # that is not requested).  On such a tree (recognised from the source) the Poisson counts are replayed first
    # and only runs in which all three tracers get >= Nthread satellites are executed in this process.
    cnt_exp, means = g.expected_nfw_counts(case, arr, keep_exp)
    tot = cnt_exp.sum(axis=0) if H else np.zeros(3, dtype=np.int64)
    if not (tot < g.NFW_DRAW_LEN).all():
        ctx.count('nfw:not-run(more satellites than NFW draws)')
        return
    if not g.nfw_points_safe() and not (all(en) and (tot >= g.NTHREAD).all()):
        ctx.count('nfw:not-run(this tree\'s getPointsOnSphere would index out of bounds)')
        return
    try:
        out, rec = g.run_real_nfw(case, arr)
    except Exception as e:   # noqa: BLE001
        ctx.fail('gen_gal_cat(nfw=True) raised %s' % type(e).__name__, dict(sc, full=case), repr(e)[:300], 'a catalogue',
                 key='c09:exception')
        return
    LRGc, ELGc, QSOc, IDc, keepc = rec.cent_out
    keepc = np.array(keepc).astype(np.int64)
    LRGs, ELGs, QSOs, IDs = rec.nfw_out
    centd = dict(LRG=LRGc, ELG=ELGc, QSO=QSOc)
    satd = dict(LRG=LRGs, ELG=ELGs, QSO=QSOs)
    if not np.array_equal(keepc, keep_exp):
        i = int(np.nonzero(keepc != keep_exp)[0][0])
        ctx.fail('gen_cent (nfw run): keep code %d, the threshold rule says %d' % (keepc[i], keep_exp[i]),
                 dict(sc, row=i, full=case), int(keepc[i]), int(keep_exp[i]), key='c09:threshold-rule-cent')
        return
    nontrivial = len(set(keep_exp.tolist())) >= 2 or H >= 1
    digest = json.dumps([case['halo'], case['tracers'], case['params'], case['nfw_seed']], sort_keys=True, default=str)
    ctx.case(sc, nontrivial=nontrivial, key=dict(sc, digest=hash_str(digest)))
    ctx.count('nfw:cases')
    ctx.count('nfw:rsd' if case['rsd'] else 'nfw:no-rsd')
    ctx.count('subset:' + case['subset'])

    h = arr['halo']
    row_of = {int(v): i for i, v in enumerate(h['hid'])}
    L = arr['params']['Lbox']
    draws_tokens = []
    inv_q = Fraction(1 / arr['params']['velz2kms'])
    for t, T in enumerate(g.TR):
        tc = g.tracer_table(centd[T], IDc[T])
        ts = g.tracer_table(satd[T], IDs[T])
        if T not in case['tracers']:
            if len(tc['id']) or len(ts['id']) or T in out:
                ctx.fail('disabled tracer %s has galaxies (nfw)' % T, dict(sc, full=case),
                         [len(tc['id']), len(ts['id']), T in out], [0, 0, False], key='c09:disabled-tracer-captures')
            continue
        rows_c = [i for i in range(H) if keep_exp[i] == CODE[T]]
        check_table_oracle(ctx, case, arr, T, 'cent', rows_c, tc, 'gen_cent(nfw run)')
        hod = case['tracers'][T]
        n = len(ts['id'])
        ctx.count('nfw:sats', n)
        rows = []
        bad = None
        for j in range(n):
            i = row_of.get(int(ts['id'][j]))
            if i is None:
                bad = 'satellite %d carries id %d, which is no halo id' % (j, int(ts['id'][j]))
                break
            if float(ts['mass'][j]) != float(h['hmass'][i]):
                bad = 'satellite %d carries id of halo row %d but mass %r != %r' % (j, i, float(ts['mass'][j]), float(h['hmass'][i]))
                break
            rows.append(i)
        if bad:
            ctx.fail('gen_sats_nfw %s: %s' % (T, bad), dict(sc, tracer=T, full=case), 'see message', 'host id and mass',
                     key='c09:nfw-inherit')
            continue
        if any(rows[j] > rows[j + 1] for j in range(n - 1)):
            ctx.fail('gen_sats_nfw %s: satellites are not in host order' % T, dict(sc, tracer=T, full=case), rows[:30],
                     sorted(rows)[:30], key='c09:nfw-order')
            continue
        cnt = np.bincount(np.array(rows, dtype=np.int64), minlength=H) if H else np.zeros(0, dtype=np.int64)
        # outside the property (the threshold rule does not govern this path): observations only
        if not np.array_equal(cnt, cnt_exp[:, t]):
            _observe(ctx, 'nfw:counts differ from the replayed Poisson draws with mean occupation x ic')
        else:
            _observe(ctx, 'nfw:counts equal the replayed Poisson draws with mean occupation x ic')
        # kinematics
        fs = float(hod.get('f_sigv', 0))
        resc = float(case['tracers']['ELG'].get('nfw_rescale', 1.0)) if 'ELG' in case['tracers'] else 0.0
        rr = np.array(rows, dtype=np.int64)
        if n:
            if fs == 0 and not all(np.array_equal(ts[k], h['hvel'][rr, a]) for a, k in enumerate(('vx', 'vy', 'vz'))):
                _observe(ctx, 'nfw:f_sigv = 0 but a satellite velocity differs from its host velocity')
            dx, dy = ts['x'] - h['hpos'][rr, 0], ts['y'] - h['hpos'][rr, 1]
            lim = resc * h['hrvir'][rr] * (1 + 1e-9) + 1e-12 * max(1.0, abs(L))
            if case['rsd']:
                d2 = np.sqrt(dx * dx + dy * dy)
            else:
                dz = ts['z'] - h['hpos'][rr, 2]
                d2 = np.sqrt(dx * dx + dy * dy + dz * dz)
            if (d2 > lim).any():
                _observe(ctx, 'nfw:a satellite lies beyond nfw_rescale x rvir of its host')
            if 'ELG' not in case['tracers'] and float(d2.max()) == 0.0:
                _observe(ctx, 'nfw:degenerate-profile(all satellites on the halo centre, ELG not requested)')
                ctx.extra['c09:nfw-degenerate-profile'] = ctx.extra.get('c09:nfw-degenerate-profile', 0) + 1
            if case['rsd']:
                z = ts['z']
                outside = ~((z >= -L / 2) & (z < L / 2))
                if outside.any():
                    j = int(np.nonzero(outside)[0][0])
                    ctx.fail('gen_sats_nfw %s with RSD: satellite z = %r is outside [-L/2, L/2) = [%r, %r) '
                             '(host z = %r)' % (T, float(z[j]), -L / 2, L / 2,
                                                                           float(h['hpos'][rr[j], 2])),
                             dict(sc, tracer=T, row=int(rr[j]), full=case), float(z[j]), '[-L/2, L/2)', key=NFW_RANGE_KEY)
        # assembly
        if T not in out:
            ctx.fail('tracer %s missing from the catalogue (nfw)' % T, dict(sc, full=case), sorted(out), sorted(case['tracers']),
                     key='c09:order-ncent')
            continue
        o = out[T]
        if int(o['Ncent']) != len(rows_c):
            ctx.fail('%s (nfw): Ncent=%d but %d centrals' % (T, int(o['Ncent']), len(rows_c)), dict(sc, full=case),
                     int(o['Ncent']), len(rows_c), key='c09:order-ncent')
        for k in COLS + ['id']:
            want = np.concatenate([tc[k], ts[k]])
            got = np.array(o[k])
            if got.shape != want.shape or not np.array_equal(got, want):
                ctx.fail('%s (nfw): column %s of the catalogue is not centrals followed by satellites' % (T, k),
                         dict(sc, full=case), got.tolist()[:20], want.tolist()[:20], key='c09:order-ncent')
                break
        # draws for the model: what compute_fast_NFW returned before RSD (z: a pre-image of the observed z)
        L1 = T[0]
        for j in range(n):
            zq = Fraction(float(ts['z'][j]))
            if case['rsd']:
                zq = zq - Fraction(float(ts['vz'][j])) * inv_q
            draws_tokens.append('%s,%d,%s,%s,%s,%s,%s,%s' % (
                L1, rows[j], fr(ts['x'][j]), fr(ts['y'][j]), '%d/%d' % (zq.numerator, zq.denominator),
                fr(ts['vx'][j]), fr(ts['vy'][j]), fr(ts['vz'][j])))
    if set(out) != set(case['tracers']):
        ctx.fail('catalogue tracers %s != requested %s (nfw)' % (sorted(out), sorted(case['tracers'])), dict(sc, full=case),
                 sorted(out), sorted(case['tracers']), key='c09:order-ncent')
    # ---- correspondence with the model
    wcm = wc.copy()
    for t in range(3):
        if not en[t]:
            wcm[:, t] = 0.37
    cfg = cfg_tokens(case, arr)
    line = ' '.join(['nfw'] + cfg + [tri(case, 'alpha_c'), str(H)] + host_tokens(arr, wcm, None) + draws_tokens)
    m = parse_model(ctx.driver.query([line])[0])
    if 'err' in m:
        ctx.disagree('model answered %s to an nfw request the real code served' % m['err'], sc, m['err'], 'ok')
        return
    LT = dict(LRG='L', ELG='E', QSO='Q')
    for T in g.TR:
        mt = m[LT[T]]
        if (mt is None) != (T not in out):
            ctx.disagree('gen_gal_cat(nfw) tracer %s present' % T, sc, mt is not None, T in out)
        elif mt is not None:
            if mt[0] != int(out[T]['Ncent']):
                ctx.disagree('gen_gal_cat(nfw) %s Ncent' % T, sc, mt[0], int(out[T]['Ncent']))
            tab = {k: np.array(out[T][k]) for k in COLS + ['id']}
            d = cmp_table_model(case, arr, tab, mt[1])
            if d:
                # the model's RSD is `%`: a satellite exactly at z = L (rounding of a tiny negative value) is the
                # only legitimate difference; anything else is a disagreement
                ctx.disagree('gen_gal_cat(nfw) %s galaxies: %s' % (T, d), sc, 'model', 'impl')
    ctx.traces_validated += 1


def hash_str(s):
    import hashlib
    return hashlib.blake2b(s.encode(), digest_size=8).hexdigest()


# ----------------------------------------------------------------------------- drivers of the search

def corpus_cases():
    from vcommon import CORPUS
    d = CORPUS / 'C09'
    out = []
    if d.is_dir():
        for p in sorted(d.glob('*.json')):
            out.append(json.loads(p.read_text()))
    return out


def plan(ctx, scale=1):
    """(H, P, subset, flavor, rsdmode, ranks) for every generated case"""
    import hodgen09 as g
    rng = ctx.rng
    sizes_q = [(0, 0), (1, 0), (1, 3), (2, 5), (7, 0), (13, 40), (60, 200)]
    out = []
    reps = ctx.pick(1, 6) * scale
    for rep in range(reps):
        for subset in g.SUBSETS:
            for flavor in ('exact', 'generic'):
                for rsdmode in ('off', 'box', 'lc', 'off+origin'):
                    for ranks in (0, 1):
                        if rsdmode == 'off+origin' and ranks:
                            continue
                        for (H, P) in sizes_q:
                            # thin out: every combination gets the small sizes, the big tables rotate
                            if (H, P) in ((13, 40), (60, 200)) and rng.random() < ctx.pick(0.6, 0.3):
                                H, P = int(rng.integers(0, 61)), int(rng.integers(0, 201))
                                if rng.random() < ctx.pick(0.7, 0.3):
                                    continue
                            out.append((H, P, subset, flavor, rsdmode, ranks))
    return out


def run(ctx):
    import hodgen09 as g
    for c in corpus_cases():
        if c.get('nfw'):
            if ctx.quick:
                ctx.count('nfw:skipped-in-quick-tier')
                continue
            ctx.count('corpus')
            check_case_nfw(ctx, c, ctx.rng)
            _keep_one_range_failure(ctx)
            continue
        ctx.count('corpus')
        check_case(ctx, c, ctx.rng)
    for k, (H, P, subset, flavor, rsdmode, ranks) in enumerate(plan(ctx)):
        case = g.gen_case(ctx.rng, H, P, subset, flavor, rsdmode, ranks, label='gen-%d' % k)
        if k % 16 == 5 and case['part']['pinds']:
            # numpy fancy indexing keep_cent[pinds] wraps a negative index once: same host, written negatively
            nh = len(case['halo']['hmass'])
            case['part']['pinds'] = [j - nh if i % 3 == 0 else j for i, j in enumerate(case['part']['pinds'])]
            case['label'] += ':negative-pinds'
            ctx.count('negative-pinds')
        check_case(ctx, case, ctx.rng)
        if len(ctx.failures) >= 8:
            break
    run_nfw(ctx)
    _minimise_failures(ctx)


def run_nfw(ctx, scale=1):
    """nfw=True cases.  numba compiles gen_sats_nfw / compute_fast_NFW / getPointsOnSphere on the first one
    (measured 35-40 s on top of the rest): thorough tier only."""
    import hodgen09 as g
    if ctx.quick and scale == 1:
        ctx.count('nfw:skipped-in-quick-tier')
        return
    n0 = len([f for f in ctx.failures if f['key'] != NFW_RANGE_KEY])
    k = 0
    for rep in range(2 * scale):
        for subset in g.SUBSETS:
            for flavor in ('generic', 'exact'):
                for rsdmode in ('off', 'box'):
                    for (H, P) in ((0, 0), (1, 0), (4, 0), (int(ctx.rng.integers(8, 41)), 6)):
                        if flavor == 'exact' and H == 0:
                            continue
                        case = g.gen_case(ctx.rng, H, P, subset, flavor, rsdmode, 0, label='nfw-%d' % k)
                        g.nfw_extend(ctx.rng, case)
                        k += 1
                        check_case_nfw(ctx, case, ctx.rng)
                        _keep_one_range_failure(ctx)
                        if len([f for f in ctx.failures if f['key'] != NFW_RANGE_KEY]) - n0 >= 8:
                            return


def _keep_one_range_failure(ctx):
    """the RSD-range failure of an unrepaired tree repeats on almost every RSD case: list one"""
    seen = False
    kept = []
    for f in ctx.failures:
        if f['key'] == NFW_RANGE_KEY:
            if seen:
                ctx.count('nfw:rsd-range-failures-not-listed')
                continue
            seen = True
        kept.append(f)
    ctx.failures[:] = kept


def _minimise_failures(ctx):
    """replace the (large) failing tables by the smallest sub-table that still fails with the same key,
    and re-derive the failure record (row numbers, observed / expected) on that minimal input"""
    fs = list(ctx.failures)
    seen = set()
    out = []
    for f in fs:
        if f['key'] in seen:
            continue
        seen.add(f['key'])
        full = f['case'].get('full') if isinstance(f['case'], dict) else None
        if full is None:
            out.append(f)
            continue
        best = shrink(ctx, full, f['key'])
        again = [g for g in failures_of(ctx, best) if g['key'] == f['key']]
        f2 = dict(again[0]) if again else dict(f)
        f2['case'] = {k: v for k, v in f2['case'].items() if k != 'full'}
        f2['case']['input'] = best
        f2['case']['H'] = len(best['halo']['hmass'])
        f2['case']['P'] = len(best['part']['phmass'])
        out.append(f2)
    ctx.failures[:] = out


def sub_case(case, hrows, prows):
    """restriction of a case to the given host rows and particle rows (particles of dropped hosts go too)"""
    hrows = list(hrows)
    hmap = {h: k for k, h in enumerate(hrows)}
    H = len(case['halo']['hmass'])
    case = dict(case, part=dict(case['part'], pinds=[j if j >= 0 else j + H for j in case['part']['pinds']]))
    prows = [p for p in prows if case['part']['pinds'][p] in hmap]
    c = dict(case)
    c['halo'] = {k: [v[i] for i in hrows] for k, v in case['halo'].items()}
    c['part'] = {k: [v[i] for i in prows] for k, v in case['part'].items()}
    c['part']['pinds'] = [hmap[case['part']['pinds'][p]] for p in prows]
    c['label'] = case.get('label', '') + '/min'
    return c


def failures_of(ctx, case):
    import vcommon
    sub = vcommon.Ctx(ctx.pid, ctx.tier, ctx.seed)
    sub.driver = ctx.driver
    saved = vcommon.log
    vcommon.log = lambda *a: None
    try:
        (check_case_nfw if case.get('nfw') else check_case)(sub, case, np.random.default_rng(0))
    except Exception:   # noqa: BLE001
        return []
    finally:
        vcommon.log = saved
    return sub.failures


def fails_with(ctx, case, key):
    return any(f['key'] == key for f in failures_of(ctx, case))


def shrink(ctx, case, key):
    H, P = len(case['halo']['hmass']), len(case['part']['phmass'])
    hrows, prows = list(range(H)), list(range(P))
    cur = case
    # drop all particles, then greedy single-row removal
    for cand in (sub_case(case, hrows, []),):
        if fails_with(ctx, cand, key):
            cur, prows = cand, []
    changed = True
    budget = 400
    while changed and budget > 0:
        changed = False
        Hc, Pc = len(cur['halo']['hmass']), len(cur['part']['phmass'])
        for kind, n in (('p', Pc), ('h', Hc)):
            i = 0
            while i < n and budget > 0:
                hr = list(range(len(cur['halo']['hmass'])))
                pr = list(range(len(cur['part']['phmass'])))
                if kind == 'p':
                    pr.pop(i)
                else:
                    hr.pop(i)
                cand = sub_case(cur, hr, pr)
                budget -= 1
                if fails_with(ctx, cand, key):
                    cur = cand
                    n = len(cur['part']['phmass']) if kind == 'p' else len(cur['halo']['hmass'])
                    changed = True
                else:
                    i += 1
    return cur


def intensify(ctx):
    """a proof or the correspondence broke: look harder for an input on which the real code is wrong"""
    import hodgen09 as g
    n0 = len(ctx.failures)
    for k, (H, P, subset, flavor, rsdmode, ranks) in enumerate(plan(ctx, scale=3)):
        case = g.gen_case(ctx.rng, H, P, subset, flavor, rsdmode, ranks, label='int-%d' % k)
        check_case(ctx, case, ctx.rng)
        if len(ctx.failures) - n0 >= 4:
            break
    run_nfw(ctx, scale=2)     # also in the quick tier when something broke
    _minimise_failures(ctx)


def replay(ctx, doc):
    c = doc
    if 'failure' in doc:
        c = doc['failure']['case']
    if 'input' in c:
        c = c['input']
    elif 'full' in c:
        c = c['full']
    (check_case_nfw if c.get('nfw') else check_case)(ctx, c, np.random.default_rng(0))
