"""C04 — RVint and PID bit fields decode exactly per the documented layout (DESIGN.md §7 C04).

Tie to /repo:
  * translator  harness/extract/bitconsts.py  ->  lean/AbacusVerif/Generated/BitConsts.lean
    (module constants + the literals inside the two kernels, solved from py_func on basis words);
  * correspondence of the compiled model driver `drv_c04` with the real `unpack_rvint`, `unpack_pids`,
    `_unpack_rvint`, `_unpack_pids` (compiled and `.py_func`), `empty_bitpacked_arrays`;
  * independent oracle: the documented layout evaluated with integer floor-division / modulo
    (numpy int64/uint64 `//`, `%` for the bulk, Python `int` on a sample) and exact `Fraction` scales.

Float policy: velocities, densities and all integer outputs are compared *exactly* (they are exactly
representable); positions against the exact rational `p*Box/10^6` within 2 ulp of the output dtype
(exactly when Box/10^6 is dyadic); Lagrangian positions against `j*Box/ppd - Box/2` within 3 ulp of
max(j*Box/ppd, Box/2) in the float dtype (the subtraction cancels, so the bound is absolute, not relative to
the result; exactly when Box/ppd is dyadic).
"""
from __future__ import annotations
from vcommon import pure

import itertools
import json
from fractions import Fraction

import numpy as np

NS = 'AbacusVerif.Bitpacked.'
THEOREMS = [NS + t for t in [
    'consts_documented',
    'rvPos_layout', 'rvPos_bits', 'rvVel_layout', 'rvVel_range', 'rvPos_top_bit',
    'rv_fields_independent', 'rv_scales',
    'rv_decode_encWord', 'rv_roundtrip_pos', 'rv_roundtrip_vel',
    'aux_lagrCoord_layout', 'aux_lagrIdx_layout', 'aux_lagrPos_layout', 'aux_tagged_layout',
    'aux_density_layout', 'aux_pid_layout', 'pid_has_only_id_bits', 'aux_fields_independent',
    'aux_fields_ignore_other_bits',
    'kernel_spec', 'kernel_oob',
    'unpackRvint_spec', 'unpackPids_spec', 'outputs_independent_of_selection',
    'emptyArrays_all',
]]
LEAN_MODULES = ['AbacusVerif.Generated.BitConsts', 'AbacusVerif.Props.C04']
DRIVER = 'drv_c04'
RULE = ('a case is one (word, decoder entry point, float dtype, Box/ppd, output selection) evaluation compared '
        'between model, real code and oracle; RVint: every value of the signed 20-bit field x random low bits and '
        'every value of the 12-bit field x 8 random high parts (thorough: all 2^32 words, see `exhaustive_rvint`); '
        'aux: every value of each 15-bit field, of the 10-bit density field and of the tagged bit x random other '
        'bits; distinct = number of distinct words per sweep summed over sweeps, plus distinct selection cases; '
        'all words with at least one non-zero field are non-trivial')
TRUSTED = ['float comparison bounds: positions within 2 ulp of the output dtype of the exact rational; '
           'Lagrangian positions within 3 ulp (of the output dtype) of max(j*Box/ppd, Box/2); everything else exact',
           'harness/extract/bitconsts.py interprets the basis-word responses of the py_func kernels; that compiled '
           'kernel and py_func agree is re-checked by this correspondence on every run',
           'thorough tier: the model side of the 2^32-word comparison is the table gather T_pos[w>>12], T_vel[w&0xFFF] '
           '(tables emitted by the compiled model), justified by theorem rv_fields_independent; the implementation '
           'side is evaluated on every word']
ASSUMPTIONS = ['numba promotes (int32, uint32) operands of >> and & to int64 (sign-/zero-extension) as encoded in '
               'Model/C04.lean rvPos/rvVel; float rounding of the final scale multiplication is bounded, not modelled',
               'supplied output arrays shorter than the input are only exercised through py_func (IndexError); in '
               'the compiled kernel without bounds checking that is a memory-safety matter (C11), not decoded here']


# ----------------------------------------------------------------------------------------- helpers

class CountingSet(set):
    """ctx.distinct with room for bulk counts (hashing 10^6 words one by one is pointless)"""
    extra = 0

    def __len__(self):
        return set.__len__(self) + self.extra


def sample(ctx, case):
    if len(ctx.samples) < 16:
        ctx.samples.append(json.loads(json.dumps(case, default=str)))


def bulk(ctx, label, n_eval, n_distinct):
    ctx.evaluations += int(n_eval)
    if not isinstance(ctx.distinct, CountingSet):
        ctx.distinct = CountingSet(ctx.distinct)
    ctx.distinct.extra += int(n_distinct)
    ctx.count(label, int(n_eval))


def frac(x):
    """exact rational denoted by a Python/numpy number"""
    if isinstance(x, (int, np.integer)):
        return Fraction(int(x))
    return Fraction(*float(x).as_integer_ratio())


def rs(q):
    q = Fraction(q)
    return str(q.numerator) if q.denominator == 1 else '%d/%d' % (q.numerator, q.denominator)


def parse_rat(s):
    return Fraction(s)


def ordint(a):
    """monotone map float array -> int64 (ulp distance = difference); -0.0 and +0.0 both map to 0"""
    a = np.ascontiguousarray(a)
    if a.dtype == np.float32:
        i = a.view(np.int32).astype(np.int64)
        return np.where(i < 0, -(i & 0x7FFFFFFF), i)
    assert a.dtype == np.float64
    i = a.view(np.int64)
    return np.where(i < 0, -(i & 0x7FFFFFFFFFFFFFFF), i)


def ulpdist(a, b):
    """distance in units in the last place (non-finite values count as infinitely far)"""
    x, y = ordint(a), ordint(b)
    with np.errstate(over='ignore'):
        d = np.abs(x - y)
    # opposite signs and huge magnitudes could overflow int64 (float64 only): call that far
    big = ((x < 0) != (y < 0)) & ((np.abs(x) > 2 ** 61) | (np.abs(y) > 2 ** 61))
    d = np.where(big, np.int64(2 ** 62), d)
    bad = ~np.isfinite(a) | ~np.isfinite(b)
    return np.where(bad, np.int64(2 ** 62), d)


def is_dyadic(q):
    d = Fraction(q).denominator
    return d & (d - 1) == 0


def round_to(dtype, vals_f64):
    return np.asarray(vals_f64, dtype=np.float64).astype(dtype)


def cr_table(nums, den):
    """correctly rounded doubles of nums[i]/den (Python int true division is correctly rounded)"""
    return np.array([n / den for n in nums], dtype=np.float64)


# ----------------------------------------------------------------------------------------- model access

class Model:
    def __init__(self, ctx):
        self.d = ctx.driver

    def q(self, lines):
        return self.d.query(lines)

    def consts(self):
        r = self.q(['consts'])[0]
        assert r.startswith('ok '), r
        out = {}
        for kv in r[3:].split(' '):
            k, v = kv.split('=', 1)
            out[k] = v.split(',') if k == 'PID_FIELDS' else int(v)
        return out

    def rvint(self, words):
        """words: int array (signed int32 values) -> (pos int64 array, vel int64 array)"""
        r = self.q(['rvint ' + ','.join(map(str, np.asarray(words, dtype=np.int64).tolist()))])[0]
        assert r.startswith('ok '), r[:200]
        _, p, v = r.split(' ')
        return np.array(p.split(','), dtype=np.int64), np.array(v.split(','), dtype=np.int64)

    def rvscale(self, box):
        r = self.q(['rvscale ' + rs(box)])[0].split(' ')
        assert r[0] == 'ok', r
        return Fraction(r[1]), Fraction(r[2])

    def rvtable(self, which):
        r = self.q(['rvtable ' + which])[0]
        assert r.startswith('ok '), r[:200]
        return np.array(r[3:].split(','), dtype=np.int64)

    def aux(self, words):
        r = self.q(['aux ' + ','.join(map(str, np.asarray(words, dtype=np.uint64).tolist()))])[0]
        assert r.startswith('ok '), r[:200]
        parts = r[3:].split(' ')
        names = ['pid', 'ix', 'iy', 'iz', 'jx', 'jy', 'jz', 'tagged', 'density']
        return {n: np.array(p.split(','), dtype=np.int64) for n, p in zip(names, parts)}


def parse_val(s):
    if ';' in s:
        return tuple(Fraction(t) for t in s.split(';'))
    return Fraction(s)


def parse_writes(s):
    if s == '-':
        return []
    out = []
    for kv in s.split(','):
        k, v = kv.split(':', 1)
        out.append((int(k), parse_val(v)))
    return out


def parse_ret(s):
    kind, n, w = s.split(':', 2)
    return kind, int(n), parse_writes(w)


# ----------------------------------------------------------------------------------------- float comparison

def close_pos(val, exact, dtype, tol_ulp=2):
    """val (a float of `dtype`) against the exact rational: equal when tol_ulp == 0, else within tol_ulp ulps of the
    correctly rounded value.  (Whether exactness may be demanded depends on the *scale* being dyadic, never on the
    result happening to be representable: 220000 * fl(0.0011) is 242.00000000000003, not 242.)"""
    e = np.array([Fraction(exact).numerator / Fraction(exact).denominator], dtype=np.float64).astype(dtype)
    v = np.array([val], dtype=dtype)
    if tol_ulp == 0:
        return Fraction(float(v[0])) == Fraction(exact)
    return bool(ulpdist(v, e)[0] <= tol_ulp)


def small_dyadic(q):
    """dyadic with an odd part below 2^20: products with 15-/20-bit integers and sums of two such are exact in float32/64"""
    q = Fraction(q)
    if q == 0:
        return True
    if not is_dyadic(q):
        return False
    n = abs(q.numerator)
    while n % 2 == 0:
        n //= 2
    return n < 2 ** 8


def lagr_tol(j, box, ppd, dtype):
    """absolute bound for lagr_pos (see module docstring)"""
    M = max(Fraction(j) * Fraction(box) / ppd, Fraction(box) / 2)
    return 3 * float(np.spacing(np.array(float(abs(M)), dtype=dtype)))


# ----------------------------------------------------------------------------------------- oracle (documented layout)

def oracle_rv_int(words):
    """signed upper 20 bits and lower 12 bits - 2048, by floor division / modulo (no shifts, no masks)"""
    w = np.asarray(words, dtype=np.int64)
    return np.floor_divide(w, 4096), np.mod(w, 4096) - 2048


def oracle_rv_py(w):
    w = int(w)
    return w // 4096, w % 4096 - 2048


def oracle_aux_py(w):
    w = int(w)
    ix, iy, iz = (w // 2 ** 0) % 2 ** 15, (w // 2 ** 16) % 2 ** 15, (w // 2 ** 32) % 2 ** 15
    return dict(ix=ix, iy=iy, iz=iz, tagged=(w // 2 ** 48) % 2, density=((w // 2 ** 49) % 2 ** 10) ** 2,
                pid=ix + iy * 2 ** 16 + iz * 2 ** 32)


def oracle_aux(words):
    w = np.asarray(words, dtype=np.uint64)
    u = np.uint64
    ix = (w // u(1)) % u(2 ** 15)
    iy = (w // u(2 ** 16)) % u(2 ** 15)
    iz = (w // u(2 ** 32)) % u(2 ** 15)
    tg = (w // u(2 ** 48)) % u(2)
    dn = ((w // u(2 ** 49)) % u(2 ** 10)) ** u(2)
    pid = ix + iy * u(2 ** 16) + iz * u(2 ** 32)
    return {k: v.astype(np.int64) for k, v in dict(ix=ix, iy=iy, iz=iz, tagged=tg, density=dn, pid=pid).items()}


VELSCALE = Fraction(6000, 2048)


# ----------------------------------------------------------------------------------------- generators

RV_BOUNDARY = [0, 1, -1, 4095, 4096, 4097, 2047, 2048, 2049, -4096, -4097, -2048, 2 ** 31 - 1, -2 ** 31,
               -2 ** 31 + 1, 2 ** 31 - 4096, 0x7FFFF000, 0x7FFFF000 + 4095, -2 ** 31 + 4095, 0x00001000, 0x00000FFF,
               2 ** 30, -2 ** 30, 2 ** 19 * 4096 - 1]


def rv_sweep_words(ctx, low_parts, high_parts):
    rng = ctx.rng
    ws = []
    u = np.arange(2 ** 20, dtype=np.int64)
    for _ in range(low_parts):
        ws.append((u << 12) | rng.integers(0, 4096, 2 ** 20))
    lo = np.arange(4096, dtype=np.int64)
    for _ in range(high_parts):
        ws.append((rng.integers(0, 2 ** 20, 4096) << 12) | lo)
    ws.append(np.array(RV_BOUNDARY, dtype=np.int64) & 0xFFFFFFFF)
    w = np.concatenate(ws)
    w = np.where(w >= 2 ** 31, w - 2 ** 32, w)          # as signed int32 values
    pad = (-len(w)) % 3
    if pad:
        w = np.concatenate([w, rng.integers(-2 ** 31, 2 ** 31, pad)])
    return w.astype(np.int64)


AUX_BOUNDARY = [0, 1, 2 ** 64 - 1, 0x7FFF, 0x8000, 0x7FFF0000, 0x80000000, 0x7FFF00000000, 0x800000000000,
                1 << 47, 1 << 48, 1 << 49, 1023 << 49, 1 << 58, 1 << 59, 1 << 63, 0x7FFF7FFF7FFF, 0x800080008000,
                (1 << 48) - 1, (1 << 49) - 1, 0x07FE000000000000, 0xF801800080008000]


def aux_sweep_words(ctx, reps):
    rng = ctx.rng
    full = lambda n: rng.integers(0, 2 ** 64, n, dtype=np.uint64)
    ws = []
    v15 = np.arange(2 ** 15, dtype=np.uint64)
    for sh in (0, 16, 32):
        m = np.uint64(~(0x7FFF << sh) & (2 ** 64 - 1))
        for _ in range(reps):
            ws.append((full(2 ** 15) & m) | (v15 << np.uint64(sh)))
    v10 = np.arange(2 ** 10, dtype=np.uint64)
    m = np.uint64(~(0x3FF << 49) & (2 ** 64 - 1))
    for _ in range(8 * reps):
        ws.append((full(2 ** 10) & m) | (v10 << np.uint64(49)))
    m = np.uint64(~(1 << 48) & (2 ** 64 - 1))
    for t in (0, 1):
        ws.append((full(2048 * reps) & m) | (np.uint64(t) << np.uint64(48)))
    ws.append(full(2 ** 14 * reps))
    # single-bit and single-bit-cleared words
    ws.append(np.array([1 << b for b in range(64)] + [(2 ** 64 - 1) ^ (1 << b) for b in range(64)], dtype=np.uint64))
    ws.append(np.array(AUX_BOUNDARY, dtype=np.uint64))
    return np.concatenate(ws)


RV_BOXES_Q = [2000.0, 1000000.0, 1100.0]
RV_BOXES_T = [2000.0, 1000000.0, 125000.0, 500.0, 1100.0, 296.0, 7200.5, 0.1, 1.0, 1e-3, 3e9]
PID_BOXPPD_Q = [(2000.0, 6912), (1024.0, 256), (500.0, 1728), (1100.0, 3000)]
PID_BOXPPD_T = PID_BOXPPD_Q + [(2000.0, 32767), (296.0, 2304), (7200.5, 12000), (1.0, 1), (0.1, 7), (1e6, 10000),
                               (2048.0, 32768), (1000.0, -4)]


# ----------------------------------------------------------------------------------------- RVint bulk sweep

def first_bad(mask):
    idx = np.flatnonzero(mask)
    return int(idx[0]) if len(idx) else None


def check_rv_bulk(ctx, bp, M, words, boxes, label):
    """words: int64 array of signed int32 values, length multiple of 3"""
    pm, vm = M.rvint(words)
    po, vo = oracle_rv_int(words)
    # model vs oracle on the integers is not a verdict by itself, but both are used below
    data = words.astype(np.int32).reshape(-1, 3)
    # python-int spot check of the vectorised oracle itself
    for k in ctx.rng.integers(0, len(words), 300):
        assert oracle_rv_py(words[k]) == (int(po[k]), int(vo[k]))
    pidx = (po + 2 ** 19)
    for box in boxes:
        B = frac(box)
        mps, mvs = M.rvscale(B)
        den_m = (mps.denominator, mps.numerator)
        # tables over the 2^20 position values: correctly rounded doubles of p*scale
        prange = range(-2 ** 19, 2 ** 19)
        E_or = cr_table([p * B.numerator for p in prange], B.denominator * 10 ** 6)
        if mps == B / 10 ** 6:
            E_mo = E_or
        else:
            E_mo = cr_table([p * mps.numerator for p in prange], mps.denominator)
        for dtype in (np.float32, np.float64):
            pos, vel = bp.unpack_rvint(data, box, float_dtype=dtype)
            if pos.dtype != dtype or vel.dtype != dtype or pos.shape != data.shape or vel.shape != data.shape:
                ctx.fail('unpack_rvint output dtype/shape', dict(box=box, dtype=dtype.__name__),
                         [str(pos.dtype), pos.shape, str(vel.dtype), vel.shape], [dtype.__name__, data.shape], key='rvint-shape')
                continue
            pos = pos.reshape(-1)
            vel = vel.reshape(-1)
            exact_scale = small_dyadic(B / 10 ** 6)     # 20-bit integer times an 8-bit dyadic: exact in float32 and float64
            tol = 0 if exact_scale else 2
            for who, pint, E, vint, vs in (('model', pm, E_mo, vm, mvs), ('oracle', po, E_or, vo, VELSCALE)):
                inr = (pint >= -2 ** 19) & (pint < 2 ** 19)
                exp = E[np.clip(pint + 2 ** 19, 0, 2 ** 20 - 1)].astype(dtype)
                d = ulpdist(pos, exp)
                bad = (d > tol) | ~inr
                k = first_bad(bad)
                case = None
                if k is not None:
                    case = dict(entry='unpack_rvint', word=int(words[k]), box=box, dtype=dtype.__name__, field='pos')
                    obs, ex = float(pos[k]), 'int=%d value=%s' % (pint[k], rs(Fraction(int(pint[k])) * (mps if who == 'model' else B / 10 ** 6)))
                    if who == 'model':
                        ctx.disagree('rvint position (%d words differ)' % int(bad.sum()), case, ex, obs)
                    else:
                        ctx.fail('rvint position is not (signed upper 20 bits)*Box/1e6 (%d words)' % int(bad.sum()), case, obs, ex,
                                 key='rvint-pos')
                # velocities: exactly representable -> exact comparison
                vexp = (vint.astype(np.float64) * float(vs)).astype(dtype)
                assert Fraction(float(vs)) == vs
                badv = ~(vel == vexp)
                k = first_bad(badv)
                if k is not None:
                    case = dict(entry='unpack_rvint', word=int(words[k]), box=box, dtype=dtype.__name__, field='vel')
                    obs, ex = float(vel[k]), 'int=%d value=%s' % (vint[k], rs(Fraction(int(vint[k])) * vs))
                    if who == 'model':
                        ctx.disagree('rvint velocity (%d words differ)' % int(badv.sum()), case, ex, obs)
                    else:
                        ctx.fail('rvint velocity is not (lower 12 bits - 2048)*6000/2048 (%d words)' % int(badv.sum()), case, obs, ex,
                                 key='rvint-vel')
            bulk(ctx, '%s:%s' % (label, dtype.__name__), len(words), 0)
            ctx.count('rv-exact-scale' if exact_scale else 'rv-2ulp-scale', len(words))
    ctx.distinct.extra += len(np.unique(words))
    c = dict(sweep=label, n_words=len(words), first_words=[int(x) for x in words[:6]],
             model_pos=[int(x) for x in pm[:6]], model_vel=[int(x) for x in vm[:6]], boxes=[float(b) for b in boxes])
    ctx.case(c)
    sample(ctx, c)


# ----------------------------------------------------------------------------------------- RVint selection modes

def cmp_rows(ctx, what, case, writes, arr, nrows_expected, dtype, sentinel, tol):
    """model write list (row -> triple of rationals) against a float array; untouched rows keep the sentinel"""
    a = np.asarray(arr).reshape(-1, 3)
    if len(a) != nrows_expected:
        ctx.disagree(what + ': number of rows', case, nrows_expected, len(a))
        return
    written = {}
    for k, v in writes:
        written[k] = v
    for r in range(len(a)):
        if r in written:
            for c in range(3):
                if not close_pos(a[r, c], written[r][c], a.dtype.type, tol):
                    ctx.disagree(what + ': value', dict(case, row=r, col=c), rs(written[r][c]), float(a[r, c]))
                    return
        elif sentinel is not None and not np.all(a[r] == sentinel):
            ctx.disagree(what + ': row not written by the model was modified', dict(case, row=r), 'untouched', a[r].tolist())
            return


def check_rv_selection(ctx, bp, M):
    rng = ctx.rng
    SENT = -12345.0
    modes = ['A', 'S', 'U', 'Uflat', 'Ubig', 'Uother']   # allocate / skip / supplied exact / flat / larger / other dtype
    boxes = [2000.0, np.float32(1100.0), 500, 1000000.0]
    nrun = 0
    for dtype in (np.float32, np.float64):
        for pm_, vm_ in itertools.product(modes, modes):
            if ctx.quick and 'Uother' in (pm_, vm_) and dtype == np.float64:
                continue
            N = int(rng.integers(1, 6)) if (pm_, vm_) != ('A', 'A') else int(rng.integers(0, 6))
            box = boxes[nrun % len(boxes)]
            nrun += 1
            words = np.concatenate([rng.integers(-2 ** 31, 2 ** 31, 3 * N), []]).astype(np.int64)
            if N:
                words[: min(len(words), 4)] = rng.choice(RV_BOUNDARY, min(len(words), 4))
                words = np.where(words >= 2 ** 31, words - 2 ** 32, words)
            data = words.astype(np.int32).reshape(-1, 3)
            if rng.integers(0, 2):
                data = data.reshape(-1)      # flat input is reshaped by the wrapper

            def mk(mode):
                other = np.float64 if dtype == np.float32 else np.float32
                if mode == 'A':
                    return None, 'A', None
                if mode == 'S':
                    return False, 'S', None
                if mode == 'U':
                    a = np.full((N, 3), SENT, dtype=dtype)
                elif mode == 'Uflat':
                    a = np.full(3 * N, SENT, dtype=dtype)
                elif mode == 'Ubig':
                    a = np.full((N + 2, 3), SENT, dtype=dtype)
                else:
                    a = np.full((N, 3), SENT, dtype=other)
                return a, 'U%d' % a.size, a
            pa, preq, parr = mk(pm_)
            va, vreq, varr = mk(vm_)
            case = dict(entry='unpack_rvint', words=[int(x) for x in words], box=float(box), box_type=type(box).__name__,
                        dtype=dtype.__name__, posout=pm_, velout=vm_)
            ctx.case(case, nontrivial=N > 0)
            if (pm_, vm_) in (('U', 'S'), ('A', 'Ubig')) and dtype == np.float32:
                sample(ctx, case)
            ctx.count('rv-select:%s/%s' % (pm_, vm_))
            mres = M.q(['unpack_rvint %s %s %s %s' % (rs(frac(box)), preq, vreq, ','.join(map(str, words.tolist())) or '-')])[0]
            try:
                ret = bp.unpack_rvint(data, box, float_dtype=dtype, posout=pa, velout=va)
            except Exception as e:
                ctx.disagree('unpack_rvint raised', case, mres, repr(e))
                continue
            if not mres.startswith('ok '):
                ctx.disagree('unpack_rvint: model rejects, real code returns', case, mres, str(ret)[:200])
                continue
            mp, mv = [parse_ret(t.split('=', 1)[1]) for t in mres[3:].split(' ')]
            for name, (kind, n, writes), r, mode, supplied in (('pos', mp, ret[0], pm_, parr), ('vel', mv, ret[1], vm_, varr)):
                what = 'unpack_rvint %s' % name
                if kind == 'arr':
                    if not isinstance(r, np.ndarray):
                        ctx.disagree(what + ': model returns an array', case, 'array', repr(r))
                        continue
                    if r.dtype != dtype or r.shape != (n, 3):
                        ctx.disagree(what + ': dtype/shape of the allocated array', case, [dtype.__name__, (n, 3)], [str(r.dtype), r.shape])
                        continue
                    if sorted(k for k, _ in writes) != list(range(n)):
                        ctx.disagree(what + ': model does not write every row of the allocated array', case, writes, None)
                    cmp_rows(ctx, what, case, writes, r, n, dtype, None, tol=2 if name == 'pos' else 0)
                else:
                    if isinstance(r, np.ndarray) or int(r) != n:
                        ctx.disagree(what + ': returned count', case, n, repr(r))
                        continue
                    if supplied is not None:
                        cmp_rows(ctx, what + ' (supplied array)', case, writes, supplied, supplied.size // 3, dtype, SENT,
                                 tol=2 if name == 'pos' else 0)
                    elif writes:
                        ctx.disagree(what + ': model writes although skipped', case, writes, None)
            # oracle: the same input decoded with both outputs allocated gives bitwise the same values
            # (only meaningful when the supplied array has the requested dtype)
            ref = bp.unpack_rvint(data, box, float_dtype=dtype)
            for name, r, mode, supplied, refa in (('pos', ret[0], pm_, parr, ref[0]), ('vel', ret[1], vm_, varr, ref[1])):
                got = r if mode == 'A' else (supplied.reshape(-1, 3)[:N] if supplied is not None else None)
                if got is not None and got.dtype == dtype and not np.array_equal(got, refa):
                    ctx.fail('unpack_rvint %s depends on the output selection' % name, case, got.tolist(), refa.tolist(),
                             key='rvint-selection')
                if mode == 'S' and not (isinstance(r, int) and r == 0):
                    ctx.fail('unpack_rvint skipped output does not return 0', case, repr(r), 0, key='rvint-selection-ret')
                if mode.startswith('U') and not (isinstance(r, int) and r == N):
                    ctx.fail('unpack_rvint supplied output does not return N', case, repr(r), N, key='rvint-selection-ret')
    # input length not a multiple of 3 is rejected by the reshape
    for n in (1, 2, 4):
        words = rng.integers(-2 ** 31, 2 ** 31, n)
        case = dict(entry='unpack_rvint', words=[int(x) for x in words], note='length not a multiple of 3')
        ctx.case(case)
        mres = M.q(['unpack_rvint 2000 A A ' + ','.join(map(str, words.tolist()))])[0]
        try:
            r = bp.unpack_rvint(words.astype(np.int32), 2000.0)
            ires = 'ok'
        except ValueError:
            ires = 'err rejected'
        if mres != ires:
            ctx.disagree('unpack_rvint on a length that is not a multiple of 3', case, mres, ires)
    # supplied array whose size is not a multiple of 3
    case = dict(entry='unpack_rvint', note='supplied posout of 4 elements')
    mres = M.q(['unpack_rvint 2000 U4 A 1,2,3'])[0]
    try:
        bp.unpack_rvint(np.array([1, 2, 3], dtype=np.int32), 2000.0, posout=np.zeros(4, dtype=np.float32))
        ires = 'ok'
    except ValueError:
        ires = 'err rejected'
    ctx.case(case)
    if mres != ires:
        ctx.disagree('unpack_rvint with a supplied array whose size is not a multiple of 3', case, mres, ires)


def check_rv_kernel(ctx, bp, M):
    """_unpack_rvint directly: compiled and py_func, None / arrays, py_func with a too-short array"""
    rng = ctx.rng
    SENT = -777.0
    for fn_name, fn in (('compiled', bp._unpack_rvint), ('py_func', pure(bp._unpack_rvint))):
        for dtype in (np.float32, np.float64):
            for prow, vrow in [(0, 0), (0, None), (None, 0), (None, None), (2, 0), (0, 1), (-1, 0), (0, -2), (-1, -1)]:
                N = int(rng.integers(2, 6))
                short = (prow is not None and prow < 0) or (vrow is not None and vrow < 0)
                if short and fn_name == 'compiled':
                    continue    # out-of-bounds store in the compiled kernel: memory safety (C11), not run here
                words = rng.integers(-2 ** 31, 2 ** 31, 3 * N).astype(np.int64)
                data = words.astype(np.int32).reshape(-1, 3)
                box = float(rng.choice([2000.0, 1100.0, 1e6]))
                pr = None if prow is None else N + prow
                vr = None if vrow is None else N + vrow
                pa = None if pr is None else np.full((pr, 3), SENT, dtype=dtype)
                va = None if vr is None else np.full((vr, 3), SENT, dtype=dtype)
                case = dict(entry='_unpack_rvint[%s]' % fn_name, words=[int(x) for x in words], box=box, dtype=dtype.__name__,
                            pos_rows=pr, vel_rows=vr)
                ctx.case(case)
                ctx.count('rv-kernel:%s' % fn_name)
                mres = M.q(['kernel_rvint %s %s %s %s' % (rs(frac(box)), 'N' if pr is None else pr, 'N' if vr is None else vr,
                                                           ','.join(map(str, words.tolist())))])[0]
                try:
                    fn(data, box, pa, va)
                    ires = 'ok'
                except IndexError:
                    ires = 'err oob'
                if (mres.split(' ')[0] == 'ok') != (ires == 'ok') or (ires != 'ok' and mres != ires):
                    ctx.disagree('_unpack_rvint outcome', case, mres[:100], ires)
                    continue
                if ires != 'ok':
                    ctx.count('rv-kernel:oob')
                    continue
                _, pw, vw = mres.split(' ')
                if pa is not None:
                    cmp_rows(ctx, '_unpack_rvint pos', case, parse_writes(pw), pa, pr, dtype, SENT, tol=2)
                elif pw != '-':
                    ctx.disagree('_unpack_rvint pos: model writes to a None output', case, pw, None)
                if va is not None:
                    cmp_rows(ctx, '_unpack_rvint vel', case, parse_writes(vw), va, vr, dtype, SENT, tol=0)
                elif vw != '-':
                    ctx.disagree('_unpack_rvint vel: model writes to a None output', case, vw, None)


# ----------------------------------------------------------------------------------------- round trip

def check_roundtrip(ctx, bp, M):
    rng = ctx.rng
    n = ctx.pick(150, 1500)
    lines, cases = [], []
    for i in range(n):
        box = Fraction(float(rng.choice([2000.0, 1100.0, 500.0, 1e6, 296.0])))
        # positions inside the representable range [-2^19, 2^19) quanta, incl. the ends
        r = i % 10
        quantum = box / 10 ** 6
        if r == 0:
            x = quantum * (-2 ** 19) + quantum * Fraction(int(rng.integers(0, 1000)), 2001)
        elif r == 1:
            x = quantum * (2 ** 19 - 1) - quantum * Fraction(int(rng.integers(0, 1000)), 2001)
        elif r == 2:
            x = quantum * (int(rng.integers(-2 ** 19, 2 ** 19 - 1)) + Fraction(1, 2))       # exact tie
        else:
            x = Fraction(float(rng.uniform(-0.5, 0.5))) * box
        vr = i % 7
        if vr == 0:
            v = Fraction(-6000)
        elif vr == 1:
            v = VELSCALE * 2047
        elif vr == 2:
            v = VELSCALE * (int(rng.integers(-2048, 2047)) + Fraction(1, 2))
        else:
            v = Fraction(float(rng.uniform(-6000, 5997)))
        cases.append((box, x, v))
        lines.append('enc %s %s %s' % (rs(box), rs(x), rs(v)))
    outs = M.q(lines)
    for (box, x, v), o in zip(cases, outs):
        case = dict(entry='roundtrip', box=rs(box), x=rs(x), v=rs(v))
        ctx.case(case)
        ctx.count('roundtrip')
        f = dict(t.split('=', 1) for t in o.split(' ')[1:])
        # independent encoder: Python's round() on Fraction is round-half-even
        p = round(x * 10 ** 6 / box)
        q = round(v * 2048 / 6000) + 2048
        word = (p * 4096 + q + 2 ** 31) % 2 ** 32 - 2 ** 31
        if (int(f['p']), int(f['v']), int(f['word'])) != (p, q, word):
            ctx.disagree('encoder', case, o, (p, q, word))
            continue
        if not (-2 ** 19 <= p < 2 ** 19 and 0 <= q < 4096):
            ctx.count('roundtrip:out-of-range')
            continue
        for dtype in (np.float32, np.float64):
            pos, vel = bp.unpack_rvint(np.array([word, word, word], dtype=np.int32), float(box), float_dtype=dtype)
            dp, dv = Fraction(float(pos[0, 0])), Fraction(float(vel[0, 0]))
            quantum = box / 10 ** 6
            slack = 2 * Fraction(float(np.spacing(np.array(max(abs(float(pos[0, 0])), 1e-300), dtype=dtype))))
            if abs(dp - x) > quantum / 2 + slack:
                ctx.fail('decode(encode(x)) position is not within half a quantum', dict(case, dtype=dtype.__name__, word=word),
                         float(pos[0, 0]), 'within %s of %s' % (rs(quantum / 2), rs(x)), key='rvint-roundtrip-pos')
            if abs(dv - v) > VELSCALE / 2:
                ctx.fail('decode(encode(v)) velocity is not within half a quantum', dict(case, dtype=dtype.__name__, word=word),
                         float(vel[0, 0]), 'within %s of %s' % (rs(VELSCALE / 2), rs(v)), key='rvint-roundtrip-vel')
            if not close_pos(float(pos[0, 0]), Fraction(f['pos']), dtype) or Fraction(f['vel']) != dv:
                ctx.disagree('decode of the encoded word', dict(case, dtype=dtype.__name__), o, (float(pos[0, 0]), float(vel[0, 0])))


# ----------------------------------------------------------------------------------------- aux bulk

def check_aux_bulk(ctx, bp, M, words, boxppd, label):
    m = M.aux(words)
    o = oracle_aux(words)
    for k in ctx.rng.integers(0, len(words), 300):
        op = oracle_aux_py(words[k])
        assert all(int(o[f][k]) == op[f] for f in op), (int(words[k]), op)
    for (box, ppd) in boxppd:
        for dtype in (np.float32, np.float64):
            out = bp.unpack_pids(words, box=box, ppd=ppd, pid=True, lagr_pos=True, tagged=True, density=True, lagr_idx=True,
                                 float_dtype=dtype)
            exp_types = dict(pid=(np.int64, (len(words),)), lagr_pos=(dtype, (len(words), 3)), lagr_idx=(np.int16, (len(words), 3)),
                             tagged=(np.uint8, (len(words),)), density=(dtype, (len(words),)))
            if list(out.keys()) != ['pid', 'lagr_pos', 'lagr_idx', 'tagged', 'density'] or \
                    any(out[k].dtype != t or out[k].shape != s for k, (t, s) in exp_types.items()):
                ctx.fail('unpack_pids keys/dtypes/shapes', dict(box=box, ppd=ppd, dtype=dtype.__name__),
                         {k: (str(v.dtype), v.shape) for k, v in out.items()}, {k: (np.dtype(t).name, s) for k, (t, s) in exp_types.items()},
                         key='pids-shape')
                continue
            impl = dict(pid=out['pid'].astype(np.int64), ix=out['lagr_idx'][:, 0].astype(np.int64),
                        iy=out['lagr_idx'][:, 1].astype(np.int64), iz=out['lagr_idx'][:, 2].astype(np.int64),
                        tagged=out['tagged'].astype(np.int64))
            dens = out['density']
            for who, ref in (('model', m), ('oracle', o)):
                for f in ('pid', 'ix', 'iy', 'iz', 'tagged'):
                    k = first_bad(impl[f] != ref[f])
                    if k is not None:
                        case = dict(entry='unpack_pids', word=int(words[k]), field=f, dtype=dtype.__name__)
                        if who == 'model':
                            ctx.disagree('aux field %s' % f, case, int(ref[f][k]), int(impl[f][k]))
                        else:
                            ctx.fail('aux field %s does not follow the documented layout' % f, case, int(impl[f][k]), int(ref[f][k]),
                                     key='aux-' + ('lagr_idx' if f[0] == 'i' else f))
                k = first_bad(~(dens.astype(np.float64) == ref['density'].astype(np.float64)))
                if k is not None:
                    case = dict(entry='unpack_pids', word=int(words[k]), field='density', dtype=dtype.__name__)
                    if who == 'model':
                        ctx.disagree('aux density', case, int(ref['density'][k]), float(dens[k]))
                    else:
                        ctx.fail('density is not the squared 10-bit field (bits 49-58)', case, float(dens[k]), int(ref['density'][k]),
                                 key='aux-density')
                # lagr_pos: table over the 2^15 index values
                B, P = frac(box), int(ppd)
                jcols = [ref['jx'], ref['jy'], ref['jz']] if who == 'model' else [ref['ix'], ref['iy'], ref['iz']]
                jr = range(2 ** 15)
                E = cr_table([j * B.numerator * 2 - B.numerator * P for j in jr], 2 * B.denominator * P)
                Mx = np.maximum(np.array([float(abs(Fraction(j) * B / P)) for j in jr]), float(B / 2))
                exact = small_dyadic(B / P) and small_dyadic(B / 2)
                tolv = 3 * np.spacing(Mx.astype(dtype)).astype(np.float64)
                for c in range(3):
                    j = jcols[c]
                    if j.min() < 0 or j.max() >= 2 ** 15:
                        k = int(np.flatnonzero((j < 0) | (j >= 2 ** 15))[0])
                        ctx.disagree('lagr coordinate outside 15 bits', dict(word=int(words[k])), int(j[k]), None)
                        continue
                    got = out['lagr_pos'][:, c].astype(np.float64)
                    err = np.abs(got - E[j])
                    bad = (err > tolv[j]) | ~np.isfinite(got)
                    if exact:
                        # exact in the float64 intermediate; a float32 store rounds once, so: the correctly rounded value
                        bad = got != E[j].astype(dtype).astype(np.float64)
                    k = first_bad(bad)
                    if k is not None:
                        case = dict(entry='unpack_pids', word=int(words[k]), field='lagr_pos[%d]' % c, box=box, ppd=ppd, dtype=dtype.__name__)
                        ex = 'j=%d value=%s' % (j[k], rs(Fraction(int(j[k])) * B / P - B / 2))
                        if who == 'model':
                            ctx.disagree('aux lagr_pos', case, ex, float(got[k]))
                        else:
                            ctx.fail('lagr_pos is not index*Box/ppd - Box/2', case, float(got[k]), ex, key='aux-lagr_pos')
                ctx.count('lagr-exact' if exact else 'lagr-3ulp', 3 * len(words))
            bulk(ctx, '%s:%s' % (label, dtype.__name__), len(words), 0)
    ctx.distinct.extra += len(np.unique(words))
    c = dict(sweep=label, n_words=len(words), first_words=[int(x) for x in words[:4]],
             model={k: [int(x) for x in v[:4]] for k, v in m.items()})
    ctx.case(c)
    sample(ctx, c)


# ----------------------------------------------------------------------------------------- pid selection

PID_NAMES = ['pid', 'lagr_pos', 'tagged', 'density', 'lagr_idx']          # order of the model's selection string
PID_DT = dict(pid=np.int64, lagr_idx=np.int16, tagged=np.uint8)


def cmp_pid_field(ctx, what, case, name, writes, arr, box, ppd, dtype, sentinel=None, jcoords=None):
    """model writes for one output against the real array"""
    a = np.asarray(arr)
    written = dict(writes)
    for r in range(len(a)):
        if r not in written:
            if sentinel is not None and not np.all(a[r] == sentinel):
                ctx.disagree(what + ' %s: row not written by the model was modified' % name, dict(case, row=r), 'untouched', np.asarray(a[r]).tolist())
                return False
            continue
        v = written[r]
        if name in ('pid', 'tagged', 'density'):
            ok = Fraction(float(a[r])) == v if a.dtype.kind == 'f' else int(a[r]) == v
        elif name == 'lagr_idx':
            ok = tuple(int(x) for x in a[r]) == tuple(int(x) for x in v)
        else:
            ok = all(abs(Fraction(float(a[r, c])) - v[c]) <= Fraction(lagr_tol(jcoords[r][c], box, ppd, a.dtype.type))
                     for c in range(3))
        if not ok:
            ctx.disagree(what + ' %s' % name, dict(case, row=r), str(v), np.asarray(a[r]).tolist())
            return False
    return True


def check_pid_selection(ctx, bp, M):
    rng = ctx.rng
    subsets = list(itertools.product([False, True], repeat=5))
    for dtype in (np.float32, np.float64):
        subs = subsets if (dtype == np.float32 or not ctx.quick) else \
            [s for s in subsets if sum(s) in (0, 5) or s in ((True, False, False, False, False), (False, True, False, True, False),
                                                               (False, False, True, False, True))]
        for sel in subs:
            N = int(rng.integers(1, 7))
            words = rng.integers(0, 2 ** 64, N, dtype=np.uint64)
            words[0] = rng.choice(np.array(AUX_BOUNDARY, dtype=np.uint64))
            box, ppd = [(2000.0, 6912), (1024.0, 256), (1100.0, 3000.0), (500.0, np.float64(1728))][int(rng.integers(0, 4))]
            kw = dict(zip(PID_NAMES, sel))
            case = dict(entry='unpack_pids', words=[int(x) for x in words], box=box, ppd=float(ppd), dtype=dtype.__name__, select=kw)
            ctx.case(case)
            if sel in ((True, False, True, False, False), (False, True, False, True, True)) and dtype == np.float32:
                sample(ctx, case)
            ctx.count('pid-select:%d-outputs' % sum(sel))
            mres = M.q(['unpack_pids %s %s %s %s' % (rs(frac(box)), rs(frac(ppd)), ''.join('1' if s else '0' for s in sel),
                                                     ','.join(map(str, words.tolist())))])[0]
            try:
                out = bp.unpack_pids(words, box=box, ppd=ppd, float_dtype=dtype, **kw)
            except Exception as e:
                ctx.disagree('unpack_pids raised', case, mres, repr(e))
                continue
            if not mres.startswith('ok'):
                ctx.disagree('unpack_pids: model rejects', case, mres, list(out))
                continue
            ment = [] if mres == 'ok -' else [t.split('=', 2) for t in mres[3:].split(' ')]
            if [e[0] for e in ment] != list(out.keys()):
                ctx.disagree('unpack_pids: set/order of returned fields', case, [e[0] for e in ment], list(out.keys()))
                continue
            o = oracle_aux(words)
            jc = list(zip(o['ix'].tolist(), o['iy'].tolist(), o['iz'].tolist()))
            for name, rows, ws in ment:
                a = out[name]
                want_dt = PID_DT.get(name, dtype)
                want_shape = (N, 3) if name in ('lagr_pos', 'lagr_idx') else (N,)
                if a.dtype != want_dt or a.shape != want_shape or int(rows) != N:
                    ctx.disagree('unpack_pids %s dtype/shape' % name, case, [np.dtype(want_dt).name, want_shape, int(rows)], [str(a.dtype), a.shape])
                    continue
                writes = parse_writes(ws)
                if sorted(k for k, _ in writes) != list(range(N)):
                    ctx.disagree('unpack_pids %s: model does not write every row' % name, case, ws, None)
                cmp_pid_field(ctx, 'unpack_pids', case, name, writes, a, frac(box), int(ppd), dtype, jcoords=jc)
            # oracle: each produced output is bitwise what the all-outputs call produces
            ref = bp.unpack_pids(words, box=box, ppd=ppd, float_dtype=dtype, pid=True, lagr_pos=True, tagged=True, density=True, lagr_idx=True)
            if set(out.keys()) != {k for k, s in kw.items() if s}:
                ctx.fail('unpack_pids returns a different set of fields than requested', case, list(out), [k for k, s in kw.items() if s],
                         key='pids-selection-keys')
            for name in out:
                if not np.array_equal(out[name], ref[name]) or out[name].dtype != ref[name].dtype:
                    ctx.fail('unpack_pids %s depends on which other outputs are requested' % name, case, out[name].tolist(), ref[name].tolist(),
                             key='pids-selection')
    # argument handling: defaults and rejections
    w3 = np.array([0x7FFF7FFF7FFF | (1 << 48) | (5 << 49), 12345678901234567890, 1 << 63], dtype=np.uint64)
    arg_cases = [
        (dict(), 'None', 'None', '00000'),
        (dict(pid=True), 'None', 'None', '10000'),
        (dict(pid=True, density=True, tagged=True, lagr_idx=True), 'None', 'None', '10111'),
        (dict(lagr_pos=True), 'None', 'None', '01000'),
        (dict(lagr_pos=True, box=2000.0), '2000', 'None', '01000'),
        (dict(lagr_pos=True, ppd=100), 'None', '100', '01000'),
        (dict(lagr_pos=True, box=2000.0, ppd=100.0000001), '2000', rs(frac(100.0000001)), '01000'),
        (dict(lagr_pos=True, box=2000.0, ppd=100.4), '2000', rs(frac(100.4)), '01000'),
        (dict(lagr_pos=True, box=2000.0, ppd=99.9999999), '2000', rs(frac(99.9999999)), '01000'),
        (dict(lagr_pos=True, lagr_idx=True, box=2000.0, ppd=np.float32(511.999999)), '2000', rs(frac(np.float32(511.999999))), '01001'),
        (dict(pid=True, ppd=99.5), 'None', rs(frac(99.5)), '10000'),
        (dict(pid=True, ppd=0), 'None', '0', '10000'),
        (dict(lagr_pos=True, box=2000.0, ppd=0), '2000', '0', '01000'),
        (dict(lagr_pos=True, box=2000.0, ppd=-8), '2000', '-8', '01000'),
        (dict(density=True, box=3.0), '3', 'None', '00010'),
        (dict(lagr_pos=True, box=1, ppd=2), '1', '2', '01000'),
    ]
    for kw, mb, mp, msel in arg_cases:
        case = dict(entry='unpack_pids', words=[int(x) for x in w3], kwargs={k: (v if not isinstance(v, float) else v) for k, v in kw.items()})
        ctx.case(case)
        ctx.count('pid-args')
        mres = M.q(['unpack_pids %s %s %s %s' % (mb, mp, msel, ','.join(map(str, w3.tolist())))])[0]
        try:
            out = bp.unpack_pids(w3, **kw)
            ires = 'ok'
        except (ValueError, ZeroDivisionError) as e:
            ires = 'err rejected'
            out = repr(e)
        if mres.split(' ')[0] != ires.split(' ')[0] or (ires != 'ok' and mres != ires):
            ctx.disagree('unpack_pids argument handling', case, mres[:120], ires + ' ' + str(out)[:120])
            continue
        if ires == 'ok':
            ment = [] if mres == 'ok -' else [t.split('=', 2) for t in mres[3:].split(' ')]
            if [e[0] for e in ment] != list(out.keys()):
                ctx.disagree('unpack_pids: returned fields', case, [e[0] for e in ment], list(out.keys()))
                continue
            o = oracle_aux(w3)
            jc = list(zip(o['ix'].tolist(), o['iy'].tolist(), o['iz'].tolist()))
            b = frac(kw.get('box', 1.0))
            p = int(round(kw.get('ppd', 1)))
            for name, rows, ws in ment:
                cmp_pid_field(ctx, 'unpack_pids(args)', case, name, parse_writes(ws), out[name], b, p, np.float32, jcoords=jc)
            # oracle (independent of the model): an accepted ppd is within isclose of an integer and the documented
            # Lagrangian position is index*Box/ppd - Box/2 for THAT integer, however the float was spelled
            if 'lagr_pos' in out and p > 0:
                for r in range(len(w3)):
                    for c in range(3):
                        ex = Fraction(jc[r][c]) * b / p - b / 2
                        got = Fraction(float(out['lagr_pos'][r, c]))
                        if abs(got - ex) > Fraction(lagr_tol(jc[r][c], b, p, np.float32)):
                            ctx.fail('lagr_pos is not index*Box/ppd - Box/2 for an accepted non-literal ppd',
                                     dict(case, row=r, comp=c), float(got), 'j=%d value=%s' % (jc[r][c], ex),
                                     key='aux-lagr_pos-ppd-arg')


def check_pid_kernel(ctx, bp, M):
    """_unpack_pids directly (as compaso_halo_catalog calls it): supplied arrays, compiled and py_func"""
    rng = ctx.rng
    S = dict(pid=-7, lagr_pos=-7.5, tagged=77, density=-7.5, lagr_idx=-7)
    combos = [(0, 0, 0, 0, 0), (None, None, None, None, None), (0, None, None, None, None), (None, 0, None, 0, None),
              (2, 1, 0, 3, 1), (None, None, 0, None, 0), (0, 0, None, None, 0)]
    short = [(-1, None, None, None, None), (0, -1, 0, 0, 0), (0, 0, 0, 0, -2), (None, None, -1, None, None), (None, None, None, -1, None)]
    for fn_name, fn in (('compiled', bp._unpack_pids), ('py_func', pure(bp._unpack_pids))):
        for dtype in (np.float32, np.float64):
            for combo in combos + (short if fn_name == 'py_func' else []):
                N = int(rng.integers(2, 6))
                words = rng.integers(0, 2 ** 64, N, dtype=np.uint64)
                words[0] = rng.choice(np.array(AUX_BOUNDARY, dtype=np.uint64))
                box, ppd = [(2000.0, 6912), (1024.0, 256), (1100.0, 3000)][int(rng.integers(0, 3))]
                rows = dict(zip(PID_NAMES, [None if c is None else N + c for c in combo]))
                arrs = {}
                for name, r in rows.items():
                    if r is None:
                        continue
                    dt = PID_DT.get(name, dtype)
                    shape = (r, 3) if name in ('lagr_pos', 'lagr_idx') else (r,)
                    arrs[name] = np.full(shape, S[name], dtype=dt)
                case = dict(entry='_unpack_pids[%s]' % fn_name, words=[int(x) for x in words], box=box, ppd=ppd, dtype=dtype.__name__, rows=rows)
                ctx.case(case)
                ctx.count('pid-kernel:%s' % fn_name)
                mres = M.q(['kernel_pids %s %d %s %s' % (rs(frac(box)), ppd, ' '.join('N' if rows[n] is None else str(rows[n]) for n in PID_NAMES),
                                                         ','.join(map(str, words.tolist())))])[0]
                try:
                    fn(words, box, ppd, float_dtype=dtype, **arrs)
                    ires = 'ok'
                except IndexError:
                    ires = 'err oob'
                if (mres.split(' ')[0] == 'ok') != (ires == 'ok') or (ires != 'ok' and mres != ires):
                    ctx.disagree('_unpack_pids outcome', case, mres[:100], ires)
                    continue
                if ires != 'ok':
                    ctx.count('pid-kernel:oob')
                    continue
                ment = dict(t.split('=', 1) for t in mres[3:].split(' '))
                o = oracle_aux(words)
                jc = list(zip(o['ix'].tolist(), o['iy'].tolist(), o['iz'].tolist()))
                for name in PID_NAMES:
                    if name in arrs:
                        cmp_pid_field(ctx, '_unpack_pids[%s]' % fn_name, case, name, parse_writes(ment[name]), arrs[name], frac(box), ppd, dtype,
                                      sentinel=S[name], jcoords=jc)
                    elif ment[name] != '-':
                        ctx.disagree('_unpack_pids: model writes to a None output', case, ment[name], None)


def check_empty(ctx, bp, M):
    rng = ctx.rng
    kinds = {'i8': np.int64, 'i2': np.int16, 'u1': np.uint8, 'u8': np.uint64}
    fields = list(bp.PID_FIELDS)
    reqs = [(True, 'T'), (False, 'F')] + [(f, 's:' + f) for f in fields + ['nonsense']] + [([], 'l:')]
    for _ in range(ctx.pick(20, 100)):
        k = int(rng.integers(1, 6))
        l = [str(x) for x in rng.choice(fields + ['nonsense', 'pos'], k)]
        reqs.append((l, 'l:' + ','.join(l)))
    for py, ms in reqs:
        for fdt in (np.float32, np.float64):
            N = int(rng.integers(0, 5))
            case = dict(entry='empty_bitpacked_arrays', unpack_bits=py, float_dtype=fdt.__name__, N=N)
            ctx.case(case)
            ctx.count('empty-arrays')
            mres = M.q(['empty ' + ms])[0]
            out = bp.empty_bitpacked_arrays(N, py, float_dtype=fdt)
            got = [(k, np.dtype(v.dtype).name, v.shape) for k, v in out.items()]
            ment = [] if mres == 'ok -' else [t.split(':') for t in mres[3:].split(',')]
            exp = [(n, np.dtype(kinds.get(dk, fdt)).name, (N,) if c == '1' else (N, 3)) for n, dk, c in ment]
            if got != exp:
                ctx.disagree('empty_bitpacked_arrays', case, exp, got)
            # oracle: documented dtypes/shapes for exactly the requested known fields
            want = fields if py is True else ['pid'] if py is False else [py] if isinstance(py, str) else py
            doc = dict(pid=('int64', (N,)), lagr_pos=(np.dtype(fdt).name, (N, 3)), lagr_idx=('int16', (N, 3)), tagged=('uint8', (N,)),
                       density=(np.dtype(fdt).name, (N,)), packedpid=('uint64', (N,)))
            expo = {n: doc[n] for n in doc if n in want}
            if {k: (d, s) for k, d, s in got} != expo:
                ctx.fail('empty_bitpacked_arrays does not create exactly the requested fields', case, got, expo, key='empty-arrays')


# ----------------------------------------------------------------------------------------- exhaustive 2^32

def exhaustive_rvint(ctx, bp, M):
    """every int32 word through the compiled kernel (float32 and float64 outputs, one non-dyadic box).

    Step 1: the implementation's own tables  I_pos[u] = decode(u << 12),  I_vel[l] = decode(l)  are compared with the
            model tables T_pos, T_vel emitted by the Lean driver (positions within 2 ulp of T_pos*Box/10^6, velocities
            exactly) and with the documented layout.
    Step 2: for every one of the 2^32 words w the implementation's output must be *bitwise* I_pos[w >> 12], I_vel[w & 0xFFF]
            — the implementation-side counterpart of theorem rv_fields_independent, checked rather than assumed.
    """
    Tpos = M.rvtable('pos')        # index u = upper 20 bits as unsigned
    Tvel = M.rvtable('vel')
    box = 2000.0
    B = frac(box)
    mps, mvs = M.rvscale(B)
    Epos = cr_table([int(p) * mps.numerator for p in Tpos], mps.denominator)
    Evel = Tvel.astype(np.float64) * float(mvs)
    u = np.arange(2 ** 20, dtype=np.int64)
    Opos_int = np.where(u >= 2 ** 19, u - 2 ** 20, u)
    Ovel_int = np.arange(4096, dtype=np.int64) - 2048
    if not np.array_equal(Opos_int, Tpos) or not np.array_equal(Ovel_int, Tvel):
        k = first_bad(Opos_int != Tpos)
        ctx.disagree('model tables differ from the documented layout', dict(entry='rvtable', first_pos_index=k), None, None)
    Opos = cr_table([int(p) * B.numerator for p in Opos_int], B.denominator * 10 ** 6)
    Ovel = Ovel_int.astype(np.float64) * float(VELSCALE)
    chunk = 3 * 2 ** 21
    total = 2 ** 32
    for dtype in (np.float32, np.float64):
        wu = (np.arange(2 ** 20, dtype=np.uint32) << np.uint32(12))
        wl = np.arange(4098, dtype=np.uint32)           # 4098 = multiple of 3; only the first 4096 are used
        Ipos = bp.unpack_rvint(np.concatenate([wu, wu[:2]]).view(np.int32), box, float_dtype=dtype, velout=False)[0].reshape(-1)[:2 ** 20]
        Ivel = bp.unpack_rvint(wl.view(np.int32), box, float_dtype=dtype, posout=False)[1].reshape(-1)[:4096]
        for who, Ep, Ev in (('model', Epos, Evel), ('oracle', Opos, Ovel)):
            k = first_bad(ulpdist(Ipos, Ep.astype(dtype)) > 2)
            if k is not None:
                w = int(wu[k]); w = w - 2 ** 32 if w >= 2 ** 31 else w
                case = dict(entry='unpack_rvint', word=w, box=box, dtype=dtype.__name__, field='pos')
                if who == 'model':
                    ctx.disagree('exhaustive rvint: position table', case, float(Ep[k]), float(Ipos[k]))
                else:
                    ctx.fail('rvint position is not (signed upper 20 bits)*Box/1e6 (exhaustive table)', case, float(Ipos[k]), float(Ep[k]), key='rvint-pos')
            k = first_bad(Ivel != Ev.astype(dtype))
            if k is not None:
                case = dict(entry='unpack_rvint', word=int(k), box=box, dtype=dtype.__name__, field='vel')
                if who == 'model':
                    ctx.disagree('exhaustive rvint: velocity table', case, float(Ev[k]), float(Ivel[k]))
                else:
                    ctx.fail('rvint velocity is not (lower 12 bits - 2048)*6000/2048 (exhaustive table)', case, float(Ivel[k]), float(Ev[k]), key='rvint-vel')
        nbad = 0
        start = 0
        while start < total:
            n = min(chunk, total - start)
            n3 = n + (-n) % 3
            wv = (np.arange(start, start + n3, dtype=np.uint64) & np.uint64(0xFFFFFFFF)).astype(np.uint32)
            pos, vel = bp.unpack_rvint(wv.view(np.int32), box, float_dtype=dtype)
            pos = pos.reshape(-1)
            vel = vel.reshape(-1)
            for bad, field in ((pos != Ipos[wv >> np.uint32(12)], 'pos'), (vel != Ivel[wv & np.uint32(0xFFF)], 'vel')):
                if bad.any() and nbad < 4:
                    nbad += 1
                    k = first_bad(bad)
                    w = int(wv[k]); w = w - 2 ** 32 if w >= 2 ** 31 else w
                    op, ov = oracle_rv_py(w)
                    ex = rs(op * B / 10 ** 6) if field == 'pos' else rs(ov * VELSCALE)
                    got = float(pos[k] if field == 'pos' else vel[k])
                    ctx.fail('rvint %s of a word is not determined by its own bit field (exhaustive sweep)' % field,
                             dict(entry='unpack_rvint', word=w, box=box, dtype=dtype.__name__, field=field), got, ex, key='rvint-' + field)
            start += n
        bulk(ctx, 'rv-exhaustive:%s' % dtype.__name__, total, 0)
    ctx.distinct.extra += total
    ctx.exhaustive = True
    ctx.extra['exhaustive_rvint'] = 'all 2^32 RVint words x float32/float64 through compiled unpack_rvint, Box=2000'


# ----------------------------------------------------------------------------------------- reader level (halo light cones)

LC_KEY = 'lc-unpack-bits'


def check_lc_unpack_bits(ctx, bp):
    """`CompaSOHaloCatalog._load_halo_lc_subsamples(which, unpack_bits)` is the one caller that forwards the user's
    `unpack_bits` straight into `unpack_pids(**{f: True for f in unpack_bits})`.  Every documented value of `unpack_bits`
    (True, False, a name, a list of names from PID_FIELDS) must give the same decoded columns as `unpack_pids` itself.
    Driven at function level on a stub catalog object and a 3-particle uncompressed asdf file.

    A failure is reported through ctx.fail (key LC_KEY) only if known_findings.json already lists that key; otherwise it
    is recorded in the evidence as `unclaimed_observations` (see the C04 report: the lead decides between fix and finding)."""
    import os
    import asdf
    from astropy.table import Table
    from abacusnbody.data.compaso_halo_catalog import CompaSOHaloCatalog
    from vcommon import load_known
    claimed = any(k.get('property') == 'C04' and k.get('key') == LC_KEY for k in load_known().get('findings', []))
    d = ctx.tmpdir()
    words = np.array([0x7FFF7FFF7FFF | (1 << 48) | (5 << 49), 12345678901234567890, 1 << 63], dtype=np.uint64)
    fn = os.path.join(d, 'lc_pid_rv.asdf')
    asdf.AsdfFile({'data': {'pid': words, 'pos': np.zeros((3, 3), np.float32), 'vel': np.zeros((3, 3), np.float32)}}).write_to(fn)
    obs = []
    for ub in (True, False, 'density', ['pid', 'tagged'], ['lagr_idx', 'lagr_pos'], ['packedpid']):
        cat = CompaSOHaloCatalog.__new__(CompaSOHaloCatalog)
        cat.groupdir, cat.data_key, cat.subsamples, cat.header = d, 'data', Table(), {'BoxSize': 2000.0, 'ppd': 6912.0}
        case = dict(entry='CompaSOHaloCatalog._load_halo_lc_subsamples', which=['pid'], unpack_bits=ub, words=[int(x) for x in words])
        ctx.case(case)
        ctx.count('lc-unpack-bits')
        want = [f for f in bp.PID_FIELDS if f != 'packedpid'] if ub is True else [] if ub is False else [ub] if isinstance(ub, str) else \
            [f for f in ub if f != 'packedpid']
        ref = bp.unpack_pids(words, box=2000.0, ppd=6912.0, **{f: True for f in want})
        try:
            u = cat._setup_unpack_bits(ub)
            cat._load_halo_lc_subsamples(which=['pid'], unpack_bits=u)
            got = {f: np.asarray(cat.subsamples[f]) for f in want if f in cat.subsamples.colnames}
            ok = set(got) == set(want) and all(np.array_equal(got[f], ref[f]) for f in want)
            res = 'ok' if ok else 'columns %s' % cat.subsamples.colnames
        except Exception as e:
            ok, res = False, '%s: %s' % (type(e).__name__, e)
        if not ok:
            obs.append(dict(unpack_bits=ub, observed=res, expected='columns %s decoded as by unpack_pids' % want))
            if claimed:
                ctx.fail('halo light-cone subsamples: documented unpack_bits value is not decoded', case, res,
                         'columns %s as decoded by unpack_pids' % want, key=LC_KEY)
    if obs and not claimed:
        ctx.extra['unclaimed_observations'] = [dict(key=LC_KEY, where='compaso_halo_catalog._load_halo_lc_subsamples', cases=obs)]
        ctx.count('lc-unpack-bits:unclaimed-observation', len(obs))



# ----------------------------------------------------------------------------------------- through the reader

READER_KEY = 'reader-decoding'
READER_PPDS = [1728.0, (1728 ** 3) ** (1 / 3), 100.00000000000001, 64.0, (6912 ** 3) ** (1 / 3), 99.99999999999999]
READER_BITS = [True, ['lagr_pos'], ['lagr_idx', 'density'], 'tagged', ['pid', 'lagr_pos'], False]


def reader_cases(ctx, n):
    rng = np.random.default_rng([ctx.seed, 404])
    out = []
    for i in range(n):
        out.append(dict(entry='CompaSOHaloCatalog', seed=int(rng.integers(0, 2 ** 31)), ppd=READER_PPDS[i % len(READER_PPDS)],
                        box=[2000.0, 1100.0, 500.0, 1234.5][int(rng.integers(0, 4))], cleaned=bool(i % 3 != 2),
                        AB=['AB', 'A', 'B', 'AB'][int(rng.integers(0, 4))],
                        unpack_bits=READER_BITS[int(rng.integers(0, len(READER_BITS)))]))
    return out


def check_reader_case(ctx, bp, case):
    """The columns `CompaSOHaloCatalog` hands to the user must be the documented decoding of the raw words of the very same
    load done in passthrough mode (`rvint`, `packedpid` columns), with the box size of the header and the *integer*
    particles-per-dimension the header's `ppd` spells (NP**(1/3) of a perfect cube is usually a hair below the integer)."""
    import shutil
    import tempfile
    import catgen
    d = tempfile.mkdtemp(dir=ctx.tmpdir())
    try:
        rng = np.random.default_rng([case['seed'], 5])
        cat = catgen.make_catalog(d, rng, nslabs=2, nhalos=(2, 5), cleaned=True, box=case['box'], ppd=case['ppd'])
        sub = {k: True for k in case['AB']}
        ub = case['unpack_bits']
        ctx.case(case)
        ctx.count('reader:ppd=%r' % case['ppd'])
        raw = catgen.load(cat, subsamples=dict(sub, rvint=True, packedpid=True), passthrough=True, cleaned=case['cleaned'], fields='all')
        dec = catgen.load(cat, subsamples=dict(sub, rv=True, pid=True), unpack_bits=ub, cleaned=case['cleaned'], fields=['N'])
        rv = np.asarray(raw.subsamples['rvint']).astype(np.int64)
        w = np.asarray(raw.subsamples['packedpid']).astype(np.uint64)
        S = dec.subsamples
        box, P = Fraction(case['box']), int(round(case['ppd']))
        want = ['pid', 'lagr_pos', 'tagged', 'density', 'lagr_idx'] if ub is True else ['pid'] if ub is False else [ub] if isinstance(ub, str) else list(ub)
        missing = [c for c in ['pos', 'vel'] + want if c not in S.colnames]
        if missing or len(S) != len(w):
            ctx.fail('reader: decoded subsample columns missing / wrong length', case, dict(cols=S.colnames, n=len(S)),
                     dict(cols=['pos', 'vel'] + want, n=len(w)), key=READER_KEY)
            return
        p20, v12 = oracle_rv_int(rv)
        o = oracle_aux(w)
        bf = float(box)
        # positions: p20 * Box / 10^6 within 2 float32 ulp; velocities: v12 * 6000/2048, exact in float32
        epos = p20.astype(np.float64) * (bf / 1e6)
        gpos = np.asarray(S['pos'])
        if gpos.dtype != np.float32 or np.any(np.abs(gpos.astype(np.float64) - epos) > 2 * np.spacing(np.abs(epos).astype(np.float32)).astype(np.float64) + 1e-30):
            k = int(np.argmax(np.abs(gpos.astype(np.float64) - epos).max(axis=1))) if len(w) else 0
            ctx.fail('reader: pos is not (signed upper 20 bits) * BoxSize / 10^6', dict(case, row=k), gpos[k].tolist() if len(w) else str(gpos.dtype),
                     epos[k].tolist() if len(w) else 'float32', key=READER_KEY)
        evel = v12.astype(np.float64) * (6000.0 / 2048.0)
        gvel = np.asarray(S['vel'])
        if gvel.dtype != np.float32 or not np.array_equal(gvel.astype(np.float64), evel):
            k = int(np.argmax(np.abs(gvel.astype(np.float64) - evel).max(axis=1))) if len(w) else 0
            ctx.fail('reader: vel is not (lower 12 bits - 2048) * 6000 / 2048', dict(case, row=k), gvel[k].tolist() if len(w) else str(gvel.dtype),
                     evel[k].tolist() if len(w) else 'float32', key=READER_KEY)
        for f in want:
            g = np.asarray(S[f])
            if f == 'lagr_pos':
                j = np.stack([o['ix'], o['iy'], o['iz']], axis=1)
                ex = np.array([[float(Fraction(int(x)) * box / P - box / 2) for x in r] for r in j], dtype=np.float64).reshape(-1, 3)
                M = np.maximum(j.astype(np.float64) * bf / P, bf / 2)
                tol = 3 * np.spacing(M.astype(np.float32)).astype(np.float64)
                bad = np.abs(g.astype(np.float64) - ex) > tol
                if np.any(bad):
                    k = int(np.argmax(bad.any(axis=1)))
                    ctx.fail('reader: lagr_pos is not index * BoxSize / ppd - BoxSize / 2 for the integer ppd of the header', dict(case, row=k, word=int(w[k])),
                             g[k].tolist(), ex[k].tolist(), key=READER_KEY)
            else:
                ex = np.stack([o['ix'], o['iy'], o['iz']], axis=1) if f == 'lagr_idx' else o[f]
                if g.shape != ex.shape or not np.array_equal(g.astype(np.int64), ex):
                    bad = (g.astype(np.int64) != ex) if g.shape == ex.shape else None
                    k = int(np.argmax(bad.reshape(len(w), -1).any(axis=1))) if bad is not None and len(w) else 0
                    ctx.fail('reader: %s is not the documented field of the packed word' % f, dict(case, row=k, word=int(w[k]) if len(w) else None),
                             np.asarray(g[k]).tolist() if len(w) else list(g.shape), np.asarray(ex[k]).tolist() if len(w) else list(ex.shape), key=READER_KEY)
    finally:
        shutil.rmtree(d, ignore_errors=True)


def check_reader(ctx, bp, n):
    for case in reader_cases(ctx, n):
        check_reader_case(ctx, bp, case)

# ----------------------------------------------------------------------------------------- entry points

def extract(ctx):
    from extract import bitconsts
    c, changed = bitconsts.regenerate()
    ctx.extra['generated_constants'] = {k: (v if not isinstance(v, int) or v < 2 ** 53 else hex(v)) for k, v in c.items()}
    ctx.extra['generated_file_changed'] = changed
    ctx._c04_consts = c


def corpus_cases():
    from vcommon import CORPUS
    out = []
    d = CORPUS / 'C04'
    if d.is_dir():
        for p in sorted(d.glob('*.json')):
            out.append(json.loads(p.read_text()))
    return out


def run_corpus(ctx, bp, M):
    rv, aux = [], []
    for doc in corpus_cases():
        rv += [int(x) for x in doc.get('rvint_words', [])]
        aux += [int(x) for x in doc.get('aux_words', [])]
    ctx.count('corpus', len(rv) + len(aux))
    if rv:
        w = np.array(rv + [0] * ((-len(rv)) % 3), dtype=np.int64)
        check_rv_bulk(ctx, bp, M, w, [2000.0, 1100.0], 'corpus-rv')
    if aux:
        check_aux_bulk(ctx, bp, M, np.array(aux, dtype=np.uint64), [(2000.0, 6912), (1100.0, 3000)], 'corpus-aux')


def sync_check(ctx, M):
    """the compiled driver must contain the constants the translator just extracted"""
    c = getattr(ctx, '_c04_consts', None)
    if c is None:
        return
    d = M.consts()
    for k, v in d.items():
        if c.get(k) != v:
            ctx.tie('driver constants out of sync with the source', dict(name=k, driver=v, source=c.get(k)))
            return


def run(ctx):
    import abacusnbody.data.bitpacked as bp
    M = Model(ctx)
    ctx.distinct = CountingSet(ctx.distinct)
    sync_check(ctx, M)
    run_corpus(ctx, bp, M)
    words = rv_sweep_words(ctx, ctx.pick(1, 4), 8)
    check_rv_bulk(ctx, bp, M, words, ctx.pick(RV_BOXES_Q, RV_BOXES_T), 'rv-sweep')
    check_rv_selection(ctx, bp, M)
    check_rv_kernel(ctx, bp, M)
    check_roundtrip(ctx, bp, M)
    aw = aux_sweep_words(ctx, ctx.pick(1, 4))
    check_aux_bulk(ctx, bp, M, aw, ctx.pick(PID_BOXPPD_Q, PID_BOXPPD_T), 'aux-sweep')
    check_pid_selection(ctx, bp, M)
    check_pid_kernel(ctx, bp, M)
    check_empty(ctx, bp, M)
    check_lc_unpack_bits(ctx, bp)
    check_reader(ctx, bp, ctx.pick(12, 60))
    if not ctx.quick:
        exhaustive_rvint(ctx, bp, M)


def intensify(ctx):
    """a proof, the translator or the correspondence broke: search for a word on which the real code leaves the
    documented layout (the oracle inside the bulk checks reports it)"""
    import abacusnbody.data.bitpacked as bp
    if ctx.driver is None or ctx.driver.error:
        return
    M = Model(ctx)
    if not isinstance(ctx.distinct, CountingSet):
        ctx.distinct = CountingSet(ctx.distinct)
    words = rv_sweep_words(ctx, 2, 16)
    check_rv_bulk(ctx, bp, M, words, RV_BOXES_T[:5], 'intensify-rv')
    check_aux_bulk(ctx, bp, M, aux_sweep_words(ctx, 4), PID_BOXPPD_T[:6], 'intensify-aux')
    check_roundtrip(ctx, bp, M)
    check_reader(ctx, bp, 36)


def replay(ctx, doc):
    import abacusnbody.data.bitpacked as bp
    M = Model(ctx)
    ctx.distinct = CountingSet(ctx.distinct)
    c = doc['failure']['case'] if 'failure' in doc else doc
    print('case:', json.dumps(c))
    if c.get('entry') == 'CompaSOHaloCatalog':
        check_reader_case(ctx, bp, {k: v for k, v in c.items() if k not in ('row', 'word')})
    elif 'word' in c and str(c.get('entry', '')).startswith('unpack_rvint'):
        w = np.array([c['word']] * 3, dtype=np.int64)
        print('model rvint:', M.rvint(w)[0][0], M.rvint(w)[1][0], 'oracle:', oracle_rv_py(c['word']))
        for dt in (np.float32, np.float64):
            print('real', dt.__name__, [a[0, 0] for a in bp.unpack_rvint(w.astype(np.int32), c.get('box', 2000.0), float_dtype=dt)])
        check_rv_bulk(ctx, bp, M, w, [c.get('box', 2000.0)], 'replay')
    elif 'word' in c:
        w = np.array([c['word']], dtype=np.uint64)
        print('model aux:', {k: int(v[0]) for k, v in M.aux(w).items()}, 'oracle:', oracle_aux_py(c['word']))
        print('real:', bp.unpack_pids(w, box=c.get('box', 2000.0), ppd=c.get('ppd', 6912), pid=True, lagr_pos=True, tagged=True,
                                      density=True, lagr_idx=True))
        check_aux_bulk(ctx, bp, M, w, [(c.get('box', 2000.0), c.get('ppd', 6912))], 'replay')
    elif c.get('entry') == 'roundtrip':
        check_roundtrip(ctx, bp, M)
    else:
        check_rv_selection(ctx, bp, M)
        check_pid_selection(ctx, bp, M)
        check_empty(ctx, bp, M)
