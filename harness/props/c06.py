"""C06 — mass assignment conserves weight and applies the TSC/CIC kernel (DESIGN.md §7 C06).

Correspondence of the Lean model (Model/C06.lean, exact rationals) with `_tsc_scatter` (compiled and
py_func), `tsc_parallel(nthread=1)`, `cic_serial` (compiled and py_func) and `power_spectrum.get_field`,
plus an oracle that is independent of the model: the documented kernel evaluated with Python Fractions
(periodic image sum), total = sum of weights, non-negativity, additivity onto a supplied grid, permutation
invariance and roll equivariance, all on the implementation's own grids.

Exact stream: inputs on a dyadic lattice chosen so that every float operation of the real code is exact
(bit budget below), hence model and implementation must agree bit for bit.  Tolerance stream: generic
floats, compared under the per-cell bound of `tol_of` (derived from the forward-error theorems) with u the unit roundoff of the coarser of
the position and grid dtypes.
"""
from vcommon import pure
import json
import math
import warnings
from fractions import Fraction as Fr

import numpy as np

THEOREMS = [
    'AbacusVerif.Mass.tsc_axis_weights_sum',
    'AbacusVerif.Mass.tsc_axis_weights_nonneg',
    'AbacusVerif.Mass.cic_axis_weights_sum',
    'AbacusVerif.Mass.cic_axis_weights_nonneg',
    'AbacusVerif.Mass.axis_indices_inbounds_any_ix',
    'AbacusVerif.Mass.axis_indices_inbounds',
    'AbacusVerif.Mass.tsc_axis_is_kernel',
    'AbacusVerif.Mass.cic_axis_is_kernel',
    'AbacusVerif.Mass.covers_exists',
    'AbacusVerif.Mass.scatter_no_fault',
    'AbacusVerif.Mass.deposit_is_kernel',
    'AbacusVerif.Mass.deposit_is_kernel_2d',
    'AbacusVerif.Mass.deposit_superposition',
    'AbacusVerif.Mass.total_conserved',
    'AbacusVerif.Mass.deposit_nonneg',
    'AbacusVerif.Mass.additive',
    'AbacusVerif.Mass.additive_seq',
    'AbacusVerif.Mass.perm_invariant',
    'AbacusVerif.Mass.axis_roll_equivariant',
    'AbacusVerif.Mass.roll_equivariant',
    'AbacusVerif.Mass.roll_equivariant_list',
    'AbacusVerif.Mass.roll_equivariant_grid',
    'AbacusVerif.Mass.roll_equivariant_zero',
    'AbacusVerif.Mass.get_field_positions',
    'AbacusVerif.Mass.get_field_no_fault',
    'AbacusVerif.Mass.get_field_spec',
    'AbacusVerif.Mass.get_field_total_unit',
    'AbacusVerif.Mass.get_field_additive',
    'AbacusVerif.Mass.get_field_roll',
    'AbacusVerif.Mass.coord_forward_error',
    'AbacusVerif.Mass.axis_weights_forward_error',
    'AbacusVerif.Mass.cic_axis_weights_forward_error',
    'AbacusVerif.Mass.poly_vs_kernel',
    'AbacusVerif.Mass.term_forward_error',
    'AbacusVerif.Mass.sum_forward_error',
    'AbacusVerif.Mass.wrap_inplace_spec',
    'AbacusVerif.Mass.wrapInplace_spec',
    'AbacusVerif.Widths.tsc_indices_fit_int32',       # the model's unbounded indices are int32 values for g + 2 < 2^31
    'AbacusVerif.Widths.tsc_indices_overflow_int16',  # ... and were not int16 values from g = 32767 on (repo fix 5d39ef7)
]
LEAN_MODULES = ['AbacusVerif.Props.C06', 'AbacusVerif.Props.WidthsC06']
DRIVER = 'drv_c06'
RULE = ('one case = one particle set (positions, weights) x grid shape x box x offset x dtypes x supplied grid x '
        'wrap flag, run through every applicable entry point (_tsc_scatter compiled / py_func, tsc_parallel '
        'nthread=1, cic_serial compiled / py_func, get_field) and the model driver; non-trivial when it has at '
        'least one particle; distinct = distinct case dictionaries.  Exact stream on dyadic lattices (bit for '
        'bit), tolerance stream on generic floats, fault stream outside the domain (py_func IndexError vs model '
        'oob).')
TRUSTED = ['exact stream: the dyadic lattice is chosen so that every float operation of the kernels is exact '
           '(6a+3+b+c+log2 N <= mantissa bits for TSC, 3a+b+c+log2 N for CIC), so float32/float64 results must equal '
           'the model\'s rationals exactly',
           'tolerance stream: |impl - model| <= the per-cell bound that coord_forward_error, axis_weights_forward_error, '
           'poly_vs_kernel, term_forward_error and sum_forward_error give under the standard rounding model '
           '(each operation exact times 1+delta, |delta| <= unit roundoff); that the hardware and numba/LLVM fastmath '
           'obey this model (no more roundings than the source has operations) is assumed',
           'integer widths (int16 TSC indices, int32/uint32 CIC) not modelled: grids wider than 2^15 out of scope']
ASSUMPTIONS = ['numba round() is round-half-even; negative indices wrap once; py_func raises IndexError exactly where '
               'the compiled kernel would write out of bounds',
               'kernel theorems assume every grid dimension >= 1 and grid coordinate p >= -g + 3/2 on every axis '
               '(no upper limit: the wrap loop removes whole periods); positions in [0, Box] with offset >= 0 satisfy it']

GUARD = 2          # guard planes on each side of the grid along axis 0 (observe stray writes)
MANT = {'f4': 24, 'f8': 53}
NPDT = {'f4': np.float32, 'f8': np.float64}
EPS = {'f4': 2.0 ** -23, 'f8': 2.0 ** -52}

# (a, b, c, Nmax): positions multiples of 2^-a cell, weights multiples of 2^-b below 2^c, at most Nmax particles
LATT = {
    ('tsc', 53): [(6, 8, 1, 32), (4, 8, 2, 256), (5, 4, 1, 256)],
    ('tsc', 24): [(2, 3, 1, 32), (1, 8, 1, 32), (2, 1, 1, 128), (1, 4, 1, 512)],
    ('cic', 53): [(6, 8, 1, 256), (10, 8, 2, 64)],
    ('cic', 24): [(4, 4, 1, 64), (2, 8, 1, 256)],
}
LATT_GF = {   # get_field: 6 bits kept in reserve for the normalisation factor
    ('tsc', 53): (4, 8, 1, 256), ('tsc', 24): (1, 2, 1, 64),
    ('cic', 53): (6, 8, 1, 256), ('cic', 24): (2, 3, 1, 64),
}
COMBOS = [('f4', 'f4', 'f4'), ('f8', 'f8', 'f8'), ('f4', 'f4', None), ('f8', 'f8', None),
          ('f4', 'f8', 'f8'), ('f8', 'f4', 'f4')]          # (positions, grid, weights) dtypes
COMBOS_PAR = COMBOS[:3]                                    # tsc_parallel / get_field (slow parallel compile)


# --------------------------------------------------------------------------- exact helpers

def fr(x):
    return Fr(*float(x).as_integer_ratio())


def rs(q):
    q = Fr(q)
    return str(q.numerator) if q.denominator == 1 else '%d/%d' % (q.numerator, q.denominator)


def parse_rat(s):
    if '/' in s:
        n, d = s.split('/')
        return Fr(int(n), int(d))
    return Fr(int(s))


def w_tsc(u):
    """documented TSC kernel: 3/4 - u^2 on |u|<=1/2, (3/2-|u|)^2/2 on 1/2<=|u|<=3/2, else 0"""
    a = abs(u)
    if a <= Fr(1, 2):
        return Fr(3, 4) - u * u
    if a <= Fr(3, 2):
        return (Fr(3, 2) - a) ** 2 / 2
    return Fr(0)


def w_cic(u):
    return max(Fr(0), 1 - abs(u))


def axis_kernel(kind, g, p):
    """{cell: periodic kernel sum_{k} W(c + k g - p)} (non-zero entries only), images k in -4..4"""
    W = w_tsc if kind == 'tsc' else w_cic
    out = {}
    for c in range(g):
        s = sum(W(c + k * g - p) for k in range(-4, 5))
        if s != 0:
            out[c] = s
    return out


def oracle_grid(case):
    """grid0 + sum_n w_n prod_axes K(c_axis; p_axis): the documented kernel, evaluated directly with Fractions
    at the *unwrapped* positions (the image sum is periodic, so no wrap is needed)"""
    gx, gy, gz = case['shape']
    box = fr(case['box'])
    off = fr(case['off'])
    n = gx * gy * gz
    out = [Fr(0)] * n if case['grid0'] is None else [fr(v) for v in case['grid0']]
    ws = case['w']
    for i, (x, y, z) in enumerate(case['pos']):
        w = Fr(1) if ws is None else fr(ws[i])
        kx = axis_kernel(case['kind'], gx, (fr(x) + off) * gx / box)
        ky = axis_kernel(case['kind'], gy, (fr(y) + off) * gy / box)
        kz = {0: Fr(1)} if gz == 1 else axis_kernel(case['kind'], gz, (fr(z) + off) * gz / box)
        for a, va in kx.items():
            for b, vb in ky.items():
                for c, vc in kz.items():
                    out[(a * gy + b) * gz + c] += va * vb * vc * w
    return out


def wrap_np(pos, box):
    """the documented periodic wrap, written independently of the package (one box either side -> [0, box])"""
    p64 = pos.astype(np.float64)
    out = np.where(p64 >= box, p64 - box, np.where(p64 < 0, p64 + box, p64))
    return out.astype(pos.dtype)


# --------------------------------------------------------------------------- model protocol

def parts_str(pos, w):
    if len(pos) == 0:
        return '-'
    return ';'.join('%s,%s,%s,%s' % (rs(fr(p[0])), rs(fr(p[1])), rs(fr(p[2])), '1' if w is None else rs(fr(w[i])))
                    for i, p in enumerate(pos))


def grid_str(g0):
    return 'z' if g0 is None else ','.join(rs(fr(v)) for v in g0)


def line_scatter(case, pos, off=None, grid0='case'):
    g0 = case['grid0'] if grid0 == 'case' else grid0
    gx, gy, gz = case['shape']
    return 'scatter %s %d %d %d %s %s %s %s' % (case['kind'], gx, gy, gz, rs(fr(case['box'])),
                                               rs(fr(case['off'] if off is None else off)), grid_str(g0),
                                               parts_str(pos, case['w']))


def line_tscpar(case, wrap, grid0='case'):
    g0 = case['grid0'] if grid0 == 'case' else grid0
    gx, gy, gz = case['shape']
    return 'tscpar %d %d %d %d %s %s %s %s' % (1 if wrap else 0, gx, gy, gz, rs(fr(case['box'])), rs(fr(case['off'])),
                                              grid_str(g0), parts_str(case['pos'], case['w']))


def line_getfield(case):
    """the whole of get_field in the model: wrap (TSC) / pos + d (CIC, never wrapped), deposit, normalize_field"""
    return 'getfield %s %d %s %s %s' % (case['kind'], case['shape'][0], rs(fr(case['box'])), rs(fr(case['off'])),
                                       parts_str(case['pos'], case['w']))


def parse_grid(s):
    if s.startswith('err '):
        return {'err': s[4:]}
    assert s.startswith('ok '), s
    body = s[3:]
    return {'grid': [] if body == '-' else [parse_rat(t) for t in body.split(',')]}


def parse_tscpar(s):
    ps, rest = s.split(' ', 1)
    pos = [] if ps == '-' else [[parse_rat(t) for t in p.split(',')] for p in ps.split(';')]
    r = parse_grid(rest)
    r['pos'] = pos
    return r


# --------------------------------------------------------------------------- implementation side

class Impl:
    def __init__(self):
        warnings.simplefilter('ignore')
        from abacusnbody.analysis import tsc, cic
        from abacusnbody.analysis import power_spectrum as ps
        self.tsc, self.cic, self.ps = tsc, cic, ps


def arrays(case, pos=None):
    pdt = NPDT[case['pdt']]
    pos = np.array(case['pos'] if pos is None else pos, dtype=pdt).reshape(-1, 3)
    w = None if case['w'] is None else np.array(case['w'], dtype=NPDT[case['wdt']])
    return pos, w


def guarded(case, grid0='case'):
    shape = tuple(case['shape'])
    g0 = case['grid0'] if grid0 == 'case' else grid0
    buf = np.zeros((shape[0] + 2 * GUARD,) + shape[1:], dtype=NPDT[case['ddt']])
    dens = buf[GUARD:GUARD + shape[0]]
    if g0 is not None:
        dens[...] = np.array(g0, dtype=np.float64).reshape(shape)
    return buf, dens


def guard_dirty(buf):
    return bool(np.any(buf[:GUARD] != 0) or np.any(buf[-GUARD:] != 0))


def call_scatter(impl, case, entry, pos, off=None, grid0='case', weights='case'):
    """run `_tsc_scatter` / `cic_serial` (compiled or py_func) -> {'grid': [Fraction]} | {'err': kind}"""
    posa, w = arrays(case, pos)
    if weights != 'case':
        w = weights
    buf, dens = guarded(case, grid0)
    off = case['off'] if off is None else off
    fn = {'tsc_jit': impl.tsc._tsc_scatter, 'tsc_py': pure(impl.tsc._tsc_scatter, always=True),
          'cic_jit': impl.cic.cic_serial, 'cic_py': pure(impl.cic.cic_serial, always=True)}[entry]
    try:
        with np.errstate(all='ignore'):
            if entry.startswith('tsc'):
                fn(posa, dens, case['box'], weights=w, offset=off)
            else:
                fn(posa, dens, case['box'], weights=w)
    except IndexError:
        return {'err': 'oob'}
    except ZeroDivisionError:
        return {'err': 'rejected'}
    if guard_dirty(buf):
        return {'err': 'stray-write'}
    return {'grid': [fr(v) for v in dens.ravel()], 'np': dens.copy()}


def call_tscpar(impl, case, wrap, alloc=False, stripes=False):
    posa, w = arrays(case)
    buf, dens = guarded(case)
    try:
        if stripes and stripes is not True:
            # an ODD number of stripes is legal serially (nthread=1): the first pass has one stripe more than the
            # second; dropping it loses the weight of the top 1/npartition of the box (seeded change C06-e)
            out = impl.tsc.tsc_parallel(posa, dens, case['box'], weights=w, nthread=1, npartition=int(stripes), wrap=wrap,
                                        offset=case['off'], coord=case.get('coord', 0))
        elif stripes:
            # two stripes / two threads is accepted for every grid (one stripe per pass): the deposit must not
            # depend on the partitioning (perm_invariant), so the same model request applies
            out = impl.tsc.tsc_parallel(posa, dens, case['box'], weights=w, nthread=2, npartition=2, wrap=wrap,
                                        offset=case['off'], coord=case.get('coord', 0))
        elif alloc:
            out = impl.tsc.tsc_parallel(posa, tuple(case['shape']), case['box'], weights=w, nthread=1, wrap=wrap,
                                        offset=case['off'])
        else:
            out = impl.tsc.tsc_parallel(posa, dens, case['box'], weights=w, nthread=1, wrap=wrap, offset=case['off'])
    except IndexError:
        return {'err': 'oob'}
    except ZeroDivisionError:
        return {'err': 'rejected'}
    if guard_dirty(buf):
        return {'err': 'stray-write'}
    return {'grid': [fr(v) for v in out.ravel()], 'pos': [[fr(v) for v in p] for p in posa], 'dtype': str(out.dtype)}


def call_get_field(impl, case):
    """get_field, then the documented normalisation undone exactly: raw = (field + 1) / norm,
    norm = dtype(size / N)"""
    posa, w = arrays(case)
    n = case['shape'][0]
    ddt = NPDT[case['ddt']]
    d = case['off']
    try:
        f = impl.ps.get_field(posa, case['box'], n, case['kind'].upper(), w=w, d=d, nthread=1, dtype=ddt)
    except IndexError:
        return {'err': 'oob'}
    norm = fr(ddt(n ** 3 / len(posa)))
    field = [fr(v) for v in f.ravel()]
    return {'grid': [(v + 1) / norm for v in field], 'field': field, 'pos': [[fr(v) for v in p] for p in posa],
            'norm': norm}


# --------------------------------------------------------------------------- generators

def pick(rng, seq):
    return seq[int(rng.integers(0, len(seq)))]


FAMILIES = {1: [2, 4, 8], 3: [3, 6], 5: [5], 7: [7], 9: [9]}


def gen_shape_cell(rng, pow2_only=False):
    m = 1 if pow2_only else pick(rng, [1, 1, 3, 3, 5, 7, 9])
    dims = FAMILIES[m]
    r = rng.random()
    if r < 0.4 or len(dims) == 1:
        g = pick(rng, dims)
        shape = [g, g, g]
    else:
        shape = [pick(rng, dims) for _ in range(3)]
    if rng.random() < 0.2:
        shape[2] = 1
    return m, shape


def gen_shape_any(rng):
    shape = [int(rng.integers(2, 10)) for _ in range(3)]
    if rng.random() < 0.2:
        shape[2] = 1
    return shape


def lattice_positions(rng, n, shape, cell, a, jmax_scale=None):
    """n positions; axis i on the lattice cell[i] * j / 2^a, j in 0..shape[i]*2^a (cell centres, half-cell edges,
    0 and Box over-represented)"""
    pos = np.zeros((n, 3))
    for i in range(3):
        g = shape[i]
        top = g * 2 ** a if jmax_scale is None else jmax_scale[i]
        for k in range(n):
            r = rng.random()
            if r < 0.2:
                j = int(rng.integers(0, g + 1)) * 2 ** a if jmax_scale is None else int(rng.integers(0, top + 1))
            elif r < 0.45 and a >= 1 and jmax_scale is None:
                j = int(rng.integers(0, g)) * 2 ** a + 2 ** (a - 1)        # half-cell edge
            elif r < 0.5:
                j = 0
            elif r < 0.55:
                j = top
            else:
                j = int(rng.integers(0, top + 1))
            pos[k, i] = cell[i] * j / 2 ** a
    return pos


def gen_exact(ctx, kind, combo, gf=False, force=None):
    """a case on which every float operation of the real code is exact"""
    rng = ctx.rng
    pdt, ddt, wdt = combo
    M = min(MANT[pdt], MANT[ddt])
    a, b, c, nmax = LATT_GF[(kind, M)] if gf else pick(rng, LATT[(kind, M)])
    force = force or {}
    mode = force.get('mode') or ('cell' if rng.random() < 0.6 else 'box')
    if gf:
        mode = 'cell'
    if mode == 'cell':
        m, shape = gen_shape_cell(rng, pow2_only=(kind == 'cic'))
        if gf:
            shape = [shape[0]] * 3
        k = int(rng.integers(-2, 7))
        box = float(m * 2.0 ** k)
        cell = [box / g for g in shape]
        if shape[2] == 1:
            cell[2] = box / 2
        off_choices = [0.0, max(cell[:2] if shape[2] == 1 else cell) / 2]
    else:
        shape = gen_shape_any(rng)
        box = float(2.0 ** int(rng.integers(-2, 7)))
        cell = None
        off_choices = [0.0, box / 2 ** a]
    if 'shape' in force:
        shape = list(force['shape'])
        if mode == 'cell':
            cell = [box / g for g in shape]
    ncap = min(nmax, ctx.pick(48, 160))
    grid0 = None
    if not gf and rng.random() < 0.3:
        ncap = max(1, ncap // 2)
        grid0 = [float(v) / 4 for v in rng.integers(0, 8, shape[0] * shape[1] * shape[2])]
    if gf:
        size = shape[0] ** 3
        cands = sorted({size // d for d in (1, 2, 3, 4, 5, 6, 7, 8, 9, 16, 25, 27, 32) if size % d == 0} | {2 * size})
        cands = [n for n in cands if 1 <= n <= ncap] or [1]
        n = pick(rng, cands)
        if Fr(size, n).denominator & (Fr(size, n).denominator - 1):   # norm must be dyadic
            n = 1
    else:
        n = int(pick(rng, [0, 1, 1, 2, 3, 5, 8, 13, 21, 34, 55, 89, ncap]))
        n = min(n, ncap)
    off = pick(rng, off_choices) if kind == 'tsc' or gf else 0.0
    if mode == 'cell':
        pos = lattice_positions(rng, n, shape, cell, a)
    else:
        top = 2 ** a
        # keep p <= g + 1/2 on every axis when the offset is more than half a cell
        if off != 0 and any(off * g / box > 0.5 for g in shape):
            top = 2 ** a - 1
        pos = lattice_positions(rng, n, shape, [box] * 3, a, jmax_scale=[top] * 3)
    wrap = bool((kind == 'tsc') and rng.random() < 0.35)
    if gf and kind == 'tsc':
        wrap = True
    if wrap:
        pos = pos + box * rng.integers(-1, 2, pos.shape)
        pos = np.clip(pos, -box, 2 * box)
    w = None
    if wdt is not None:
        w = [float(j) / 2 ** b for j in rng.integers(0, 2 ** (b + c), n)]
    case = dict(stream='exact', kind=kind, shape=shape, box=box, off=float(off), pdt=pdt, ddt=ddt, wdt=wdt,
                pos=[[float(v) for v in p] for p in pos], w=w, grid0=grid0, wrap=wrap, mode=mode, lattice=[a, b, c])
    if gf:
        case['gf'] = True
    return case


def gen_tol(ctx, kind, combo, gf=False):
    """generic floats: random box, positions anywhere in [0, box) (up to one box outside with wrap), near cell edges"""
    rng = ctx.rng
    pdt, ddt, wdt = combo
    dt = NPDT[pdt]
    shape = gen_shape_any(rng)
    if gf:
        shape = [shape[0]] * 3
    box = float(rng.uniform(0.5, 2000.0)) if rng.random() < 0.8 else float(int(rng.integers(1, 3000)))
    n = int(pick(rng, [1, 2, 5, 17, 40, ctx.pick(64, 200)]))
    pos = rng.uniform(0, box, (n, 3))
    for k in range(n):
        for i in range(3):
            r = rng.random()
            g = shape[i]
            if r < 0.1:
                pos[k, i] = (int(rng.integers(0, g)) + 0.5) * box / g          # near a half-cell edge
            elif r < 0.15:
                pos[k, i] = int(rng.integers(0, g)) * box / g                   # near a cell centre
            elif r < 0.18:
                pos[k, i] = 0.0
    wrap = bool(kind == 'tsc' and (gf or rng.random() < 0.4))
    if wrap:
        pos = pos + box * rng.integers(-1, 2, pos.shape)
    pos = pos.astype(dt)
    if not wrap:
        pos = np.where(pos.astype(np.float64) >= box, dt(0), pos).astype(dt)
    else:
        p64 = pos.astype(np.float64)
        pos = np.where((p64 < -box) | (p64 >= 2 * box), dt(0), pos).astype(dt)
    gmax = max(shape[:2] if shape[2] == 1 else shape)
    off = 0.0
    if kind == 'tsc' or gf:
        r = rng.random()
        if r < 0.4:
            off = 0.5 * box / gmax
        elif r < 0.6:
            off = float(rng.uniform(0, 0.5 * box / gmax))
        elif r < 0.8 and kind == 'tsc' and not gf and min(shape[:2] if shape[2] == 1 else shape) >= 2:
            # negative sub-cell offsets: grid coordinates down to -3/4 of a cell on the finest axis (rounded index -1,
            # left neighbour -2 -> the last two rows); a directed -3/4 cell and a random one
            off = -0.75 * box / gmax if r < 0.7 else -float(rng.uniform(0, 0.75 * box / gmax))
    w = None if wdt is None else [float(NPDT[wdt](v)) for v in rng.uniform(0, 2, n)]
    grid0 = None
    if not gf and rng.random() < 0.25:
        grid0 = [float(NPDT[ddt](v)) for v in rng.uniform(0, 2, shape[0] * shape[1] * shape[2])]
    case = dict(stream='tol', kind=kind, shape=shape, box=box, off=float(off), pdt=pdt, ddt=ddt, wdt=wdt,
                pos=[[float(v) for v in p] for p in pos], w=w, grid0=grid0, wrap=wrap)
    if gf:
        case['gf'] = True
    return case


def gen_fault(ctx, kind):
    """outside the domain, wrap off: positions up to two boxes away, axes of 1..4 cells — the model's
    `oob` must coincide with py_func's IndexError; `box = 0` must be ZeroDivisionError"""
    rng = ctx.rng
    shape = [int(rng.integers(1, 5)) for _ in range(3)]
    box = float(2.0 ** int(rng.integers(0, 4)))
    n = int(rng.integers(1, 4))
    pos = rng.integers(-2 * 8, 3 * 8 + 1, (n, 3)) * box / 8
    return dict(stream='fault', kind=kind, shape=shape, box=box, off=0.0, pdt='f8', ddt='f8', wdt=None,
                pos=[[float(v) for v in p] for p in pos], w=None, grid0=None, wrap=False)


# --------------------------------------------------------------------------- checking

def tol_of(case):
    """per-cell bound derived from the forward-error theorems of Props/C06.lean under the standard model
    (every rounded operation = exact result times 1+delta, |delta| <= u, u the unit roundoff of the coarser dtype):

      eta  = 31/10 u max|p|  (coord_forward_error)  + 2 u (gmax+1) for an in-place wrap / the CIC `pos + d`
      eps  = 6/5 eta + 3 u   (axis_weights_forward_error, cic_axis_weights_forward_error) + 3/2 eta^2 (poly_vs_kernel)
      term = (4 eps + 5 u) |W| + u |W| for the cast of W   (term_forward_error)
      acc  = ((1+u)^m - 1) (computed terms + supplied cell)  (sum_forward_error), m = `+=` per cell
    tol = sum_n term_n + acc.  (The bound 64 eps (sum|w| + sum|grid0|) used before it was chosen by hand.)"""
    u = Fr(max(EPS[case['pdt']], EPS[case['ddt']])) / 2 * (1 + Fr(1, 2 ** 20))
    shape = case['shape']
    axes = range(2) if shape[2] == 1 else range(3)
    box, off = fr(case['box']), fr(case['off'])
    pmax = Fr(1)
    if box != 0:
        for p in case['pos']:
            for i in axes:
                pmax = max(pmax, abs((fr(p[i]) + off) * shape[i] / box))
    gmax = max(shape[i] for i in axes)
    eta = Fr(31, 10) * u * pmax
    if case.get('wrap') or case.get('gf'):
        eta += 2 * u * (gmax + 1)
    assert eta <= Fr(1, 10) and u <= Fr(1, 100)
    eps = Fr(6, 5) * eta + 3 * u + Fr(3, 2) * eta * eta
    mass = Fr(len(case['pos'])) if case['w'] is None else sum(abs(fr(v)) for v in case['w'])
    g0 = Fr(0) if case['grid0'] is None else max(abs(fr(v)) for v in case['grid0'])
    alias = 1
    for i in axes:
        alias *= 3 if shape[i] == 1 else 2 if shape[i] == 2 else 1
    m = len(case['pos']) * alias + 1
    term = (4 * eps + 6 * u) * mass
    acc = ((1 + u) ** m - 1) * (mass * (1 + 4 * eps + 6 * u) + g0)
    return term + acc + Fr(1, 10 ** 300)


def float_coord(case, x, g, off=None):
    """the grid coordinate as the kernel computes it in floating point (TSC: position dtype; CIC: float64)"""
    off = case['off'] if off is None else off
    if case['kind'] == 'tsc':
        dt = NPDT[case['pdt']]
        return float((dt(x) + dt(off)) * dt(np.int16(g) / case['box']))
    return float((np.float64(NPDT[case['pdt']](x)) / case['box']) * np.uint32(g))


def is_g2_overshoot(case, pos, off=None):
    """the float grid coordinate lands above g + 1/2 on a 2-cell axis although the exact one does not:
    ix = 3, ixp1 = rightwrap(4, 2) — in range only if the wrap removes more than one period"""
    axes = range(2) if case['shape'][2] == 1 else range(3)
    return any(case['shape'][i] == 2 and float_coord(case, p[i], 2, off) > 2.5 for p in pos for i in axes)


def close(case, a, b, tol):
    if case['stream'] == 'tol':
        return len(a) == len(b) and all(abs(x - y) <= tol for x, y in zip(a, b))
    return a == b


def brief(g):
    return [float(v) for v in g[:40]]


def first_diff(a, b):
    for i, (x, y) in enumerate(zip(a, b)):
        if x != y:
            return {'cell': i, 'observed': float(x), 'expected': float(y)}
    return {'len': [len(a), len(b)]}


class Plan:
    """collects model requests; answers are distributed after one driver batch"""

    def __init__(self):
        self.lines = []
        self.todo = []

    def ask(self, line):
        self.lines.append(line)
        return len(self.lines) - 1


def check_case(ctx, impl, case, plan):
    """run every applicable entry point on `case`; returns a closure that compares with the model
    answers once the driver batch has run"""
    kind = case['kind']
    stream = case['stream']
    exact = stream == 'exact'
    tol = tol_of(case)
    posa, _ = arrays(case)
    in_dom = not case['wrap']
    posw = wrap_np(posa, case['box']) if case['wrap'] else posa
    posw_l = [[float(v) for v in p] for p in posw]
    results = []     # (entry, impl result, model request index, parser, expected-by-oracle)
    ctx.case({k: v for k, v in case.items()}, nontrivial=len(case['pos']) >= 1)
    ctx.count('stream:%s:%s' % (stream, kind))
    ctx.count('dtypes:%s/%s/%s' % (case['pdt'], case['ddt'], case['wdt']))
    ctx.count('shape:%s' % ('2d' if case['shape'][2] == 1 else 'cubic' if len(set(case['shape'])) == 1 else 'aniso'))
    if case['off'] != 0:
        ctx.count('offset!=0')
    if case['wrap']:
        ctx.count('wrap')
    if case['grid0'] is not None:
        ctx.count('supplied-grid')

    if stream == 'fault':
        i = plan.ask(line_scatter(case, case['pos']))
        # box = 0: numpy scalars divide to inf in py_func, the compiled kernel raises ZeroDivisionError
        ent = kind + ('_jit' if case['box'] == 0 else '_py')
        r = call_scatter(impl, case, ent, case['pos'])
        results.append((ent, r, i, parse_grid, None))
        return finish(ctx, case, results, tol)

    expected = oracle_grid(case)
    overshoot = is_g2_overshoot(case, posw_l)
    if overshoot:
        ctx.count('float-overshoot-on-2-cell-axis')

    # ---- scatter kernels (no wrap of their own: they get the wrapped positions)
    gf = case.get('gf', False)
    if not gf:
        i = plan.ask(line_scatter(case, posw_l))
        rpy = call_scatter(impl, case, kind + '_py', posw_l)
        results.append((kind + '_py', rpy, i, parse_grid, expected))
        safe = 'err' not in rpy      # a fault seen in py_func would be a stray write when compiled: do not run it
        if safe:
            rj = call_scatter(impl, case, kind + '_jit', posw_l)
            results.append((kind + '_jit', rj, i, parse_grid, expected))
            if exact and 'grid' in rj:
                property_oracle(ctx, impl, case, kind + '_jit', posw_l, rj, expected)
        if kind == 'tsc' and safe and (case['pdt'], case['ddt'], case['wdt']) in COMBOS_PAR:
            i2 = plan.ask(line_tscpar(case, case['wrap']))
            rp = call_tscpar(impl, case, case['wrap'])
            results.append(('tsc_parallel', rp, i2, parse_tscpar, expected))
            if 'err' not in rp:
                rps = call_tscpar(impl, case, case['wrap'], stripes=True)
                if 'pos' in rps:
                    rps['pos'] = rp['pos']      # partitioning does not reorder the caller's array; wrap already compared
                results.append(('tsc_parallel(2 stripes)', rps, i2, parse_tscpar, expected))
                nodd = 3 if len(case['pos']) % 2 == 0 else 5
                rpo = call_tscpar(impl, case, case['wrap'], stripes=nodd)
                if 'pos' in rpo:
                    rpo['pos'] = rp['pos']
                results.append(('tsc_parallel(nthread=1, %d stripes)' % nodd, rpo, i2, parse_tscpar, expected))
            if case['grid0'] is None and case['ddt'] == 'f4':
                rp2 = call_tscpar(impl, case, case['wrap'], alloc=True)
                results.append(('tsc_parallel(shape)', rp2, i2, parse_tscpar, expected))
    else:
        # get_field: TSC wraps in place and applies the offset in the kernel; CIC adds d to the positions itself
        if kind == 'tsc':
            i = plan.ask(line_getfield(case))
            pre = call_scatter(impl, case, 'tsc_py', posw_l, grid0=None)
            parser = parse_tscpar
        else:
            shifted = (posa + case['off']) if case['off'] != 0 else posa
            sh_l = [[float(v) for v in p] for p in shifted]
            overshoot = is_g2_overshoot(case, sh_l, off=0.0)
            if overshoot:
                ctx.count('float-overshoot-on-2-cell-axis')
            i = plan.ask(line_getfield(case))
            pre = call_scatter(impl, case, 'cic_py', sh_l, off=0.0, grid0=None)
            parser = parse_tscpar
        if 'err' not in pre:
            r = call_get_field(impl, case)
            results.append(('get_field', r, i, parser, expected))
        else:
            results.append(('get_field(py kernel)', pre, i, parser, expected))
    return finish(ctx, case, results, tol, overshoot)


def finish(ctx, case, results, tol, overshoot=False):
    def later(answers):
        for entry, r, i, parser, expected in results:
            ctx.count('entry:' + entry)
            m = parser(answers[i])
            # ---------------- oracle: the real code against the documented kernel
            if expected is not None:
                if 'err' in r:
                    if overshoot:
                        ctx.fail('%s writes out of bounds on a 2-cell axis: the float product (x+offset)*inv_h rounds '
                                 'above 2.5 at x = Box with a half-cell offset' % entry, case, r, 'no fault inside the domain',
                                 key='tsc:g2-half-cell-float-overshoot')
                    else:
                        ctx.fail('%s faults (%s) inside the documented domain' % (entry, r['err']), case, r,
                                 'no fault inside the domain', key='%s:fault-in-domain' % case['kind'])
                elif not close(case, r['grid'], expected, tol):
                    ctx.fail('%s deposit differs from the documented %s kernel' % (entry, case['kind'].upper()), case,
                             {'first': first_diff(r['grid'], expected), 'grid': brief(r['grid'])}, brief(expected),
                             key='%s:kernel' % case['kind'])
                else:
                    tot = sum(r['grid'])
                    want = sum(expected)
                    if (tot != want) if case['stream'] == 'exact' else abs(tot - want) > tol:
                        ctx.fail('%s grid total differs from the total weight' % entry, case, float(tot), float(want),
                                 key='%s:total' % case['kind'])
                    g0 = case['grid0'] if not case.get('gf') else None
                    neg = Fr(0) if case['stream'] == 'exact' else -tol
                    base = [Fr(0)] * len(r['grid']) if g0 is None else [fr(v) for v in g0]
                    if any(v - b0 < neg for v, b0 in zip(r['grid'], base)):
                        ctx.fail('%s deposits a negative amount for non-negative weights' % entry, case,
                                 float(min(v - b0 for v, b0 in zip(r['grid'], base))), '>= 0',
                                 key='%s:negative' % case['kind'])
            # ---------------- correspondence: the real code against the model
            if overshoot and 'err' in r:
                ctx.count('float-overshoot (model exact, impl float): not compared')
                continue
            if ('err' in m) != ('err' in r):
                ctx.disagree('%s fault' % entry, case, m.get('err', 'ok'), r.get('err', 'ok'))
            elif 'err' in m:
                if m['err'] != r['err']:
                    ctx.disagree('%s fault kind' % entry, case, m['err'], r['err'])
                else:
                    ctx.count('fault-agreed:' + m['err'])
            elif 'field' in r:
                # get_field end to end: the model's answer is the normalised field  deposit * (n^3/N) - 1
                ftol = tol * r['norm'] + Fr(8 * max(EPS[case['pdt']], EPS[case['ddt']]))
                okf = len(r['field']) == len(m['grid']) and all(
                    (abs(a - b) <= ftol * (1 + abs(b)) if case['stream'] == 'tol' else a == b)
                    for a, b in zip(r['field'], m['grid']))
                if not okf:
                    ctx.disagree('get_field normalised field', case, brief(m['grid']),
                                 {'first': first_diff(r['field'], m['grid']), 'field': brief(r['field'])})
                # oracle (get_field_spec): field total = n^3 * (sum w / N) - n^3, exactly on the exact stream
                if case['stream'] == 'exact':
                    npart = len(case['pos'])
                    sw = Fr(npart) if case['w'] is None else sum(fr(v) for v in case['w'])
                    size = Fr(case['shape'][0]) ** 3
                    if sum(r['field']) != size * sw / npart - size:
                        ctx.fail('get_field: field total is not n^3 (sum w / N) - n^3', case, float(sum(r['field'])),
                                 float(size * sw / npart - size), key='%s:get_field-total' % case['kind'])
            else:
                if not close(case, r['grid'], m['grid'], tol):
                    ctx.disagree('%s grid' % entry, case, brief(m['grid']),
                                 {'first': first_diff(r['grid'], m['grid']), 'grid': brief(r['grid'])})
            if 'err' not in m and 'err' not in r:
                if 'pos' in r and 'pos' in m:
                    ptol = Fr(4 * EPS[case['pdt']]) * fr(abs(case['box']))
                    ok = len(r['pos']) == len(m['pos']) and all(
                        (abs(a - b) <= ptol if case['stream'] == 'tol' else a == b)
                        for pr, pm in zip(r['pos'], m['pos']) for a, b in zip(pr, pm))
                    if not ok:
                        ctx.disagree('%s wrapped positions' % entry, case, [[float(v) for v in p] for p in m['pos'][:8]],
                                     [[float(v) for v in p] for p in r['pos'][:8]])
                    # oracle for the wrap: one box either side is brought to [0, Box], moved by a whole box
                    box = fr(case['box'])
                    if case['stream'] == 'exact' and case['wrap']:
                        for pr, p0 in zip(r['pos'], case['pos']):
                            for a, x0 in zip(pr, p0):
                                x0 = fr(x0)
                                if not (0 <= a <= box and (a - x0) in (0, box, -box)):
                                    ctx.fail('%s: _wrap_inplace does not bring a position within one box into [0, Box]' % entry,
                                             case, float(a), 'x mod Box', key='tsc:wrap')
                if r.get('dtype') not in (None, 'float32') and entry == 'tsc_parallel(shape)':
                    ctx.disagree('tsc_parallel allocates %s, documented float32' % r['dtype'], case, 'float32', r['dtype'])
    return later


def property_oracle(ctx, impl, case, entry, posw_l, r0, expected):
    """additivity, permutation invariance, roll equivariance — on the implementation's own grids (exact stream)"""
    rng = ctx.rng
    n = len(posw_l)
    shape = tuple(case['shape'])
    g_impl = r0['np'].astype(np.float64)
    w = case['w']
    wa = None if w is None else np.array(w, dtype=NPDT[case['wdt']])

    def run(pos, weights, grid0=None):
        sub = dict(case)
        sub['w'] = None if weights is None else [float(v) for v in weights]
        rr = call_scatter(impl, sub, entry, pos, grid0=grid0)
        return None if 'err' in rr else rr['np'].astype(np.float64)

    # additivity over a split of the particle list, and onto the supplied grid
    k = int(rng.integers(0, n + 1))
    ga = run(posw_l[:k], None if w is None else w[:k])
    gb = run(posw_l[k:], None if w is None else w[k:])
    base = 0 if case['grid0'] is None else np.array(case['grid0']).reshape(shape)
    if ga is None or gb is None or not np.array_equal(base + ga + gb, g_impl):
        ctx.fail('%s is not additive: deposit(grid0, A++B) != grid0 + deposit(0,A) + deposit(0,B)' % entry, case,
                 None if ga is None or gb is None else brief((base + ga + gb).ravel()), brief(g_impl.ravel()),
                 key='%s:additive' % case['kind'])
    ctx.count('oracle:additive')
    if n >= 2:
        perm = rng.permutation(n)
        gp = run([posw_l[i] for i in perm], None if w is None else [w[i] for i in perm], grid0=case['grid0'])
        if gp is None or not np.array_equal(gp, g_impl):
            ctx.fail('%s depends on the order of the particles' % entry, case, None if gp is None else brief(gp.ravel()),
                     brief(g_impl.ravel()), key='%s:perm' % case['kind'])
        ctx.count('oracle:perm')
    if case.get('mode') == 'cell' and n >= 1:
        # shift every particle by s whole cells along one axis, wrap periodically into [0, Box): the grid rolls
        axis = int(rng.integers(0, 2 if shape[2] == 1 else 3))
        g = shape[axis]
        s = int(rng.integers(-g, g + 1))
        h = case['box'] / g
        pos = np.array(posw_l, dtype=np.float64)
        pos[:, axis] = pos[:, axis] + s * h
        pos[:, axis] = np.where(pos[:, axis] >= case['box'], pos[:, axis] - case['box'], pos[:, axis])
        pos[:, axis] = np.where(pos[:, axis] < 0, pos[:, axis] + case['box'], pos[:, axis])
        gr = run([[float(v) for v in p] for p in pos], w, grid0=None)
        gz = run(posw_l, w, grid0=None)
        if gr is None or gz is None or not np.array_equal(gr, np.roll(gz, s, axis=axis)):
            ctx.fail('%s: shifting all particles by %d cells along axis %d does not roll the grid' % (entry, s, axis), case,
                     None if gr is None else brief(gr.ravel()), None if gz is None else brief(np.roll(gz, s, axis=axis).ravel()),
                     key='%s:roll' % case['kind'])
        ctx.count('oracle:roll')


# --------------------------------------------------------------------------- directed cases

def directed_cases(ctx):
    """boundary cases every run: every cell centre and half-cell edge of small grids incl. 0 and Box, ties on odd
    and even cells, anisotropic shapes that tell gx from gy from gz, the 2-d mode, one particle per line of the 27"""
    out = []
    for kind in ('tsc', 'cic'):
        for pdt, ddt in (('f4', 'f4'), ('f8', 'f8')):
            for shape in ([2, 2, 2], [3, 3, 3], [4, 4, 4], [5, 5, 5], [2, 4, 8], [8, 4, 2], [3, 6, 3], [4, 2, 1], [3, 3, 1]):
                if kind == 'cic' and any(g not in (1, 2, 4, 8) for g in shape):
                    continue
                m = 3 if shape[0] in (3, 6) else 5 if shape[0] == 5 else 1
                box = float(m * 4)
                cell = [box / g for g in shape]
                pos = []
                for i in range(3):
                    if shape[i] == 1:
                        continue
                    for j in range(0, 2 * shape[i] + 1):          # all centres and edges incl. 0 and Box
                        p = [cell[0] * 0.25, cell[1] * 0.75, cell[2] * 0.5]
                        p[i] = cell[i] * j / 2
                        pos.append(p)
                for off in ((0.0, max(cell[:2] if shape[2] == 1 else cell) / 2) if kind == 'tsc' else (0.0,)):
                    out.append(dict(stream='exact', kind=kind, shape=shape, box=box, off=off, pdt=pdt, ddt=ddt, wdt=None,
                                    pos=pos, w=None, grid0=None, wrap=False, mode='cell', lattice=[2, 0, 1]))
    return out


def overshoot_cases(ctx):
    """x = Box (what _wrap_inplace makes of x = -tiny), offset half a cell, 2-cell axis, non-dyadic Box: the float
    product (x+off)*inv_h can round above 2.5, so ix = 3 and ixp1 = 4 = two periods.  `_tsc_scatter` directly,
    through tsc_parallel / get_field('TSC', d) with the position -tiny wrapped to Box, and get_field('CIC', d)."""
    out = []
    cands = [252.0, 952.0, 135.89999389648438, 47.29999923706055] + [k + j / 10 for k in range(1, 400) for j in (0, 1, 3, 7)]
    for kind in ('tsc', 'cic'):
        for pdt in ('f4', 'f8'):
            found = 0
            for box in cands:
                box = float(NPDT[pdt](box))          # Box itself must be a value of the position dtype
                probe = dict(kind=kind, shape=[2, 2, 2], box=box, off=box / 4, pdt=pdt)
                x = box if kind == 'tsc' else float(NPDT[pdt](box) + NPDT[pdt](box / 4))
                if not is_g2_overshoot(probe, [[x, 0.0, 0.0]], off=None if kind == 'tsc' else 0.0):
                    continue
                found += 1
                base = dict(stream='tol', kind=kind, shape=[2, 2, 2], box=box, off=box / 4, pdt=pdt, ddt=pdt, wdt=None,
                            w=None, grid0=None)
                if kind == 'tsc':
                    out.append(dict(base, pos=[[box, 0.0, 0.0]], wrap=False))
                    tiny = -box * 2.0 ** -30
                    out.append(dict(base, pos=[[tiny, 0.0, 0.0]], wrap=True))
                    out.append(dict(base, pos=[[tiny, 0.0, 0.0]], wrap=True, gf=True))
                else:
                    out.append(dict(base, pos=[[box, 0.0, 0.0]], wrap=False, gf=True))
                if found == 3:
                    break
    return out


def corpus_cases():
    from vcommon import CORPUS
    out = []
    d = CORPUS / 'C06'
    if d.is_dir():
        for p in sorted(d.glob('*.json')):
            out.append(json.loads(p.read_text()))
    return out


# --------------------------------------------------------------------------- entry points of the check

# --------------------------------------------------------------------------- very long grid axes (index width)

LONG_AXIS_KEY = 'tsc:long-axis'
LONG_AXIS_WORKER = r"""
import sys, json, warnings
import numpy as np
warnings.simplefilter('ignore')
from abacusnbody.analysis import tsc
for combo in sys.argv[1:]:
    g, axis = (int(v) for v in combo.split(':'))
    shape = [2, 2, 2]; shape[axis] = g
    box = float(g)
    pts = [0.0, 0.25, g / 2 + 0.25, g - 1.0, g - 0.25, 32767.5 if g > 32768 else 1.5, float(min(g - 2, 40000))]
    pos = np.zeros((len(pts), 3)); pos[:, axis] = pts
    others = [a for a in range(3) if a != axis]
    d = np.zeros(shape)
    print(json.dumps({'start': combo}), flush=True)
    tsc._tsc_scatter(pos, d, box)
    prof = d.sum(axis=tuple(others))
    nz = np.nonzero(prof)[0]
    print(json.dumps({'combo': combo, 'sum': float(d.sum()), 'rows': [int(v) for v in nz], 'vals': [float(prof[v]) for v in nz], 'pts': pts}), flush=True)
"""


def long_axis_expected(g, pts, kind):
    """marginal deposit along the long axis from the documented kernel, exact (dyadic inputs, unit weights)"""
    from fractions import Fraction as F
    exp = {}
    for x in pts:
        p = F(x)          # grid coordinate = position (box == g, offset 0)
        if kind == 'tsc':
            ix = int(np.round(float(p)))          # round half to even, as numba's round
            dd = F(ix) - p
            ws = {ix - 1: F(1, 2) * (F(1, 2) + dd) ** 2, ix: F(3, 4) - dd ** 2, ix + 1: F(1, 2) * (F(1, 2) - dd) ** 2}
        else:
            ix = int(np.round(float(p)))
            dd = F(ix) - p
            ws = {ix: 1 - abs(dd), (ix - 1 if dd > 0 else ix + 1): abs(dd)}
        for r, wv in ws.items():
            exp[r % g] = exp.get(r % g, F(0)) + wv
    return {r: float(v) for r, v in exp.items() if v != 0}


def check_long_axis(ctx):
    """`_tsc_scatter` keeps the grid shape and the cell indices in a fixed-width integer: axes of 32768 cells and more are
    legal grid shapes (anisotropic grids) and must deposit the same kernel.  Run in ONE child process (one compilation)
    with a generous time limit, because a wrapped-around axis length makes `_rightwrap` spin forever; the child
    announces each grid before it starts it, so a hang is attributed to its grid."""
    import subprocess
    import vcommon
    combos = ['%d:%d' % (g, axis)
              for g in ctx.pick((32767, 32768, 40000), (32767, 32768, 32769, 40000, 65535, 65536, 65537, 100000))
              for axis in ((0, 2) if ctx.quick else (0, 1, 2))]
    import selectors
    import time
    timed_out = False
    p = subprocess.Popen([vcommon.PY, '-B', '-c', LONG_AXIS_WORKER] + combos, env=vcommon.impl_env({'NUMBA_BOUNDSCHECK': '1'}),
                         stdout=subprocess.PIPE, stderr=subprocess.PIPE, text=True)
    sel = selectors.DefaultSelector()
    sel.register(p.stdout, selectors.EVENT_READ)
    lines = []
    budget = 600.0          # the first grid includes the compilation; every later grid gets 240 s
    deadline = time.time() + budget
    while True:
        left = deadline - time.time()
        if left <= 0:
            timed_out = True
            p.kill()
            break
        if sel.select(timeout=min(left, 5.0)):
            line = p.stdout.readline()
            if not line:
                break
            lines.append(line)
            if '"combo"' in line:
                deadline = time.time() + 240.0
        elif p.poll() is not None:
            break
    try:
        rest_out, stderr = p.communicate(timeout=30)
    except Exception:   # noqa: BLE001
        rest_out, stderr = '', ''
    stdout, rc = ''.join(lines) + (rest_out or ''), p.returncode
    started, results = [], {}
    for line in stdout.splitlines():
        try:
            o = json.loads(line)
        except ValueError:
            continue
        if 'start' in o:
            started.append(o['start'])
        elif 'combo' in o:
            results[o['combo']] = o
    for combo in combos:
        g, axis = (int(v) for v in combo.split(':'))
        case = dict(stream='long-axis', kind='tsc', g=g, axis=axis)
        if combo in results:
            ctx.case(case)
            ctx.count('long-axis')
            out = results[combo]
            exp = long_axis_expected(g, out['pts'], 'tsc')
            got = dict(zip(out['rows'], out['vals']))
            # the grid coordinate x * (g / Box) is exact only for some g (fastmath may use a reciprocal): rows whose weight is
            # mathematically zero may receive ~1e-24, others differ in the last bits -> absolute tolerance, far below any
            # kernel weight (the smallest non-zero one used here is 1/32)
            TOL = 1e-9
            bad = [k for k in sorted(set(got) | set(exp)) if abs(got.get(k, 0.0) - exp.get(k, 0.0)) > TOL]
            if abs(out['sum'] - float(len(out['pts']))) > TOL or bad:
                ctx.fail('_tsc_scatter deposit along a long axis is not the documented kernel', dict(case, rows=bad[:6]),
                         {'sum': out['sum'], 'got': {k: got.get(k) for k in bad[:6]}}, {'sum': len(out['pts']), 'expected': {k: exp.get(k) for k in bad[:6]}},
                         key=LONG_AXIS_KEY)
        elif combo in started:
            ctx.case(case)
            if timed_out:
                ctx.fail('_tsc_scatter does not return (10 min incl. compilation for the first grid, 4 min for each later one) on a grid with a long axis', case,
                         'no result (time limit)', 'the TSC deposit', key=LONG_AXIS_KEY)
            else:
                ctx.fail('_tsc_scatter raised on a grid with a long axis', case, (stderr or '')[-300:], 'the TSC deposit', key=LONG_AXIS_KEY)
            return
    if not results and not started:
        raise vcommon.Infra('long-axis worker produced nothing (rc=%s): %s' % (rc, (stderr or '')[-500:]))


def run_cases(ctx, impl, cases):
    plan = Plan()
    laters = [check_case(ctx, impl, c, plan) for c in cases]
    answers = ctx.driver.query(plan.lines)
    for later in laters:
        later(answers)


def run(ctx):
    impl = Impl()
    import numba
    cases = []
    corpus = corpus_cases()
    ctx.count('corpus', len(corpus))
    cases.extend(corpus)
    cases.extend(directed_cases(ctx))
    cases.extend(overshoot_cases(ctx))
    n_exact = ctx.pick(22, 150)
    n_tol = ctx.pick(8, 60)
    n_gf = ctx.pick(5, 30)
    for kind in ('tsc', 'cic'):
        for combo in COMBOS:
            for _ in range(n_exact):
                cases.append(gen_exact(ctx, kind, combo))
            for _ in range(n_tol):
                cases.append(gen_tol(ctx, kind, combo))
        for combo in COMBOS_PAR:
            for _ in range(n_gf):
                cases.append(gen_exact(ctx, kind, combo, gf=True))
                cases.append(gen_tol(ctx, kind, combo, gf=True))
        for _ in range(ctx.pick(40, 300)):
            cases.append(gen_fault(ctx, kind))
        # box = 0: ZeroDivisionError <-> rejected
        cases.append(dict(stream='fault', kind=kind, shape=[2, 2, 2], box=0.0, off=0.0, pdt='f8', ddt='f8', wdt=None,
                          pos=[[0.0, 0.0, 0.0]], w=None, grid0=None, wrap=False))
    try:
        run_cases(ctx, impl, cases)
    finally:
        numba.set_num_threads(numba.config.NUMBA_NUM_THREADS)
    check_long_axis(ctx)
    ctx.extra['streams'] = {'exact': 'dyadic lattice, bit-for-bit', 'tol': 'theorem-derived per-cell bound (tol_of)',
                            'fault': 'py_func IndexError/ZeroDivisionError vs model oob/rejected'}


def intensify(ctx):
    impl = Impl()
    cases = []
    for kind in ('tsc', 'cic'):
        for combo in COMBOS:
            for _ in range(200):
                cases.append(gen_exact(ctx, kind, combo))
            for _ in range(40):
                cases.append(gen_tol(ctx, kind, combo))
    if ctx.driver.error:
        # no model: the oracle alone
        class _D:
            error = None

            @staticmethod
            def query(lines):
                return ['err model-unavailable'] * len(lines)
        saved = ctx.driver
        ctx.driver = _D()
        try:
            run_cases(ctx, impl, cases)
        finally:
            ctx.driver = saved
    else:
        run_cases(ctx, impl, cases)


def replay(ctx, doc):
    impl = Impl()
    case = doc['failure']['case'] if 'failure' in doc else doc.get('case', doc)
    if case.get('stream') == 'long-axis':
        check_long_axis(ctx)
        return
    plan = Plan()
    later = check_case(ctx, impl, case, plan)
    answers = ctx.driver.query(plan.lines)
    for l, a in zip(plan.lines, answers):
        print('model:', l[:200], '->', a[:300])
    later(answers)
