"""C17 — partition_parallel returns a stripe-ordered permutation of its input (DESIGN.md §7 C17)."""
from vcommon import pure
import os

# must precede the first numba import in this process
os.environ['NUMBA_NUM_THREADS'] = '16'          # nthread 1..16 must be accepted whatever the machine
os.environ.setdefault('OMP_WAIT_POLICY', 'passive')   # no spinning of idle OpenMP workers (speed only)
os.environ['NUMBA_BOUNDSCHECK'] = '1'           # an out-of-range access raises where numba can check it

import json  # noqa: E402
from collections import Counter  # noqa: E402
from fractions import Fraction  # noqa: E402

import numpy as np  # noqa: E402

NS = 'AbacusVerif.Partition.'
THEOREMS = [NS + t for t in (
    'scatter_indices_perm',
    'starts_spec',
    'partition_stable',
    'partition_nthread_independent',
    'more_threads_than_particles',
    'empty_input',
    'linspaceBlocks_ok',
    'weights_move_with_positions',
    'key_spec',
    'sorted_stripes',
)] + ['AbacusVerif.Widths.' + t for t in (
    'key_cast_fits_int32',        # the value handed to np.int32 is in [0, 2^31) for positions in [0, Box], < 2^31 stripes
    'key_fits_int32',
    'key_fits_int16_of_small',    # 16 signed bits suffice exactly up to 32768 stripes ...
    'key_overflows_int16',        # ... and not for 32769 (seeded change C17-c)
)]
LEAN_MODULES = ['AbacusVerif.Props.C17', 'AbacusVerif.Props.WidthsC17']
DRIVER = 'drv_c17'
RULE = ('seeded structured sweep of partition_parallel (compiled; py_func on a subset): N in {0,1,2,...,200} x nthread 1..16 '
        '(incl. > N) x npartition 1..40 x coord 0..2 x float32/float64 x weights present/absent x sort on/off x '
        'particle styles (uniform, near/on stripe boundaries, at Box, duplicates, one stripe, sorted, reversed, '
        'negative-wrapping keys); dyadic box and lattice so the float key is exact; a case is non-trivial when '
        'N >= 2 and npartition >= 2; distinct = distinct (N, nthread, npartition, coord, dtype, weights, sort, box, rows)')
TRUSTED = ['the float stripe key x*(npartition/BoxSize) is evaluated exactly only on the dyadic boxes/lattices the harness uses; '
           'on other inputs the statement\'s floor is read in float arithmetic (not modelled)',
           'numba argsort is modelled by its specification (a sorting permutation); ties are canonicalised before comparing']
ASSUMPTIONS = ['positions lie in [0, BoxSize] (the closed end is produced by in-place wrapping); npartition >= 1, nthread >= 1',
               'numba prange threads of the scatter only interact through psort/wsort slots, which the theorem shows are '
               'written exactly once (any interleaving is a permutation of the write list)']

LAT = 1024          # positions are multiples of box/LAT
STYLES = ('uniform', 'boundary', 'atbox', 'dups', 'onestripe', 'sorted', 'reversed', 'negative')


# --------------------------------------------------------------------------- generation

def gen_case(rng, N, nthread, npart, coord, dt, hasw, sort, style):
    e = int(rng.choice([-1, 0, 3, 6]))
    box = Fraction(2) ** e
    if style == 'uniform':
        j = rng.integers(0, LAT + 1, N)
    elif style == 'boundary':
        s = rng.integers(0, npart + 1, N)
        j = np.clip(-(-s * LAT // npart) + rng.integers(-1, 2, N), 0, LAT)
    elif style == 'atbox':
        j = np.where(rng.random(N) < 0.5, LAT, rng.integers(0, LAT + 1, N))
    elif style == 'dups':
        pool = rng.integers(0, LAT + 1, 3)
        j = rng.choice(pool, N)
    elif style == 'onestripe':
        s = int(rng.integers(0, npart))
        lo = -(-s * LAT // npart)
        hi = max(lo, -(-(s + 1) * LAT // npart) - 1)
        j = rng.integers(lo, hi + 1, N)
    elif style == 'sorted':
        j = np.sort(rng.integers(0, LAT + 1, N))
    elif style == 'reversed':
        j = np.sort(rng.integers(0, LAT + 1, N))[::-1]
    else:  # negative: x in [-box, box]; keys in [-npart, 0) wrap around (outside the property's domain)
        j = rng.integers(-LAT, LAT + 1, N)
    other = rng.integers(0, 5, (N, 2)) * (LAT // 4)
    J = np.empty((N, 3), dtype=np.int64)
    J[:, coord] = j
    J[:, [c for c in range(3) if c != coord]] = other
    w8 = [int(v) for v in rng.integers(-8, 25, N)] if hasw else None
    # about a third of the weighted cases carry the weights in the OTHER float type than the positions (float64 weights
    # then have a 2^-40 component no float32 holds): "weights moved together with positions" means the very values.
    # Derived from the case itself, not from the PRNG, so the case stream is unchanged.
    wmix = bool(hasw and (sum(w8) + int(N)) % 3 == 0)
    return dict(N=int(N), nthread=int(nthread), np=int(npart), coord=int(coord), dt=dt, sort=int(sort), style=style,
                box=[box.numerator, box.denominator], J=J.tolist(), w8=w8, wmix=wmix)


BIG_LAT = 2 ** 20
BIG_NP = (32767, 32768, 32769, 40000, 65535, 65536, 65537, 70000, 131073)


def gen_big_case(rng, N, nthread, npart, coord, hasw, sort):
    """very many stripes (the stripe key no longer fits 15 / 16 bits): positions on a 2^-20 lattice, float64, each
    placed in the middle half of its stripe so that the float product x * (npartition / Box) cannot round across a stripe
    boundary; half of the particles in the top stripes"""
    box = Fraction(2) ** int(rng.choice([0, 3]))
    s = np.where(rng.random(N) < 0.5, rng.integers(max(0, npart - 64), npart, N), rng.integers(0, npart, N))
    j = ((2 * s + 1) * BIG_LAT) // (2 * npart)        # about the stripe centre (stripes are >= 8 lattice steps wide)
    J = np.zeros((N, 3), dtype=np.int64)
    J[:, coord] = j
    J[:, [c for c in range(3) if c != coord]] = rng.integers(0, 5, (N, 2)) * (BIG_LAT // 4)
    w8 = [int(v) for v in rng.integers(-8, 25, N)] if hasw else None
    return dict(N=int(N), nthread=int(nthread), np=int(npart), coord=int(coord), dt='f8', sort=int(sort), style='bignp',
                box=[box.numerator, box.denominator], J=J.tolist(), w8=w8, lat=BIG_LAT)


def gen_cases(ctx):
    rng = ctx.rng
    n = ctx.pick(2600, 40000)
    cases = []
    for k, npart in enumerate(BIG_NP):
        for rep in range(ctx.pick(1, 3)):
            cases.append(gen_big_case(rng, int(rng.integers(1, 40)), int(rng.choice([1, 2, 5, 16])), npart, int(rng.integers(0, 3)),
                                      bool((k + rep) % 2), bool(k % 3 == 0)))
    # small exhaustive-ish corner: N 0..3 x nthread x npartition
    for N in (0, 1, 2, 3):
        for nthread in (1, 2, 3, 4, 7, 16):
            for npart in (1, 2, 3, 5, 40):
                cases.append(gen_case(rng, N, nthread, npart, int(rng.integers(0, 3)), str(rng.choice(['f4', 'f8'])),
                                      bool(rng.integers(0, 2)), bool(rng.integers(0, 2)),
                                      str(rng.choice(STYLES[:7]))))
    for _ in range(n):
        r = rng.random()
        if r < 0.25:
            N = int(rng.integers(0, 9))
        elif r < 0.8:
            N = int(rng.integers(9, 61))
        else:
            N = int(rng.integers(61, 201))
        nthread = int(rng.integers(1, 17))
        npart = int(rng.integers(1, 41)) if rng.random() < 0.7 else int(rng.choice([1, 2, 4, 8, 16, 32, 3, 40]))
        style = str(rng.choice(STYLES, p=[.2, .25, .12, .12, .08, .08, .08, .07]))
        cases.append(gen_case(rng, N, nthread, npart, int(rng.integers(0, 3)), str(rng.choice(['f4', 'f8'])),
                              bool(rng.integers(0, 2)), bool(rng.integers(0, 2)), style))
    return cases


# --------------------------------------------------------------------------- real code

def arrays(c):
    dt = np.float32 if c['dt'] == 'f4' else np.float64
    box = Fraction(*c['box'])
    J = np.array(c['J'], dtype=np.int64).reshape(c['N'], 3)
    pos = (J.astype(np.float64) * float(box / c.get('lat', LAT))).astype(dt)      # exact: dyadic
    if c['w8'] is None:
        w = None
    elif c.get('wmix'):
        wdt = np.float64 if dt is np.float32 else np.float32
        w = np.array(c['w8'], dtype=np.float64) / 8
        if wdt is np.float64:
            w = w + (np.arange(len(w)) + 1) * 2.0 ** -40        # exact in float64, lost in float32
        w = w.astype(wdt)
    else:
        w = (np.array(c['w8'], dtype=np.float64) / 8).astype(dt)
    return pos, w, float(box)


def rows_of(pos, w):
    if w is None:
        return [tuple(float(v) for v in r) + (None,) for r in pos]
    return [tuple(float(v) for v in r) + (float(x),) for r, x in zip(pos, w)]


def real_blocks(c):
    return [int(v) for v in np.linspace(0, c['N'], c['nthread'] + 1).astype(np.int64)]


def run_impl(c, fn):
    pos, w, box = arrays(c)
    pos0 = pos.copy()
    w0 = None if w is None else w.copy()
    try:
        ps, st, ws = fn(pos, c['np'], box, weights=w, coord=c['coord'], nthread=c['nthread'], sort=bool(c['sort']))
    except Exception as e:   # noqa: BLE001
        return {'exc': '%s: %s' % (type(e).__name__, str(e)[:200]), 'in': rows_of(pos0, w0)}
    res = {'in': rows_of(pos0, w0), 'in_after': rows_of(pos, w), 'starts': [int(v) for v in st],
           'wnone': ws is None, 'shape': list(ps.shape), 'dtype_ok': ps.dtype == pos.dtype and (ws is None or ws.dtype == w.dtype)}
    if ws is not None and len(ws) != len(ps):
        res['out'] = None
    else:
        res['out'] = rows_of(ps, ws)
    return res


# --------------------------------------------------------------------------- oracle (independent of the model)

def floor_key(c, row):
    box = Fraction(*c['box'])
    x = Fraction(row[c['coord']])
    k = (x * c['np'] / box).__floor__()
    return min(k, c['np'] - 1)


def oracle(ctx, c, r, label):
    """the property, restated on the observable result"""
    N, npart = c['N'], c['np']
    if 'exc' in r:
        ctx.fail('partition_parallel[%s] raised on a valid input' % label, c, r['exc'], 'a partition', key='partition:exception')
        return False
    ok = True
    if r['in_after'] != r['in']:
        ctx.fail('partition_parallel[%s] modified its input' % label, c, r['in_after'][:6], r['in'][:6], key='partition:input-modified')
        ok = False
    if r['out'] is None or r['shape'] != [N, 3] or r['wnone'] != (c['w8'] is None) or not r['dtype_ok']:
        ctx.fail('partition_parallel[%s] output has the wrong shape/dtype/weights' % label, c,
                 {'shape': r['shape'], 'wnone': r['wnone']}, {'shape': [N, 3], 'wnone': c['w8'] is None}, key='partition:shape')
        return False
    if Counter(r['out']) != Counter(r['in']):
        diff = (Counter(r['out']) - Counter(r['in'])), (Counter(r['in']) - Counter(r['out']))
        ctx.fail('partition_parallel[%s] output is not a permutation of the (position, weight) rows' % label, c,
                 {'extra': list(diff[0].items())[:4], 'missing': list(diff[1].items())[:4]}, 'same multiset of rows',
                 key='partition:not-permutation')
        ok = False
    st = r['starts']
    if len(st) != npart + 1 or st[0] != 0 or st[-1] != N or any(a > b for a, b in zip(st, st[1:])):
        ctx.fail('partition_parallel[%s] starts are not non-decreasing from 0 to N' % label, c, st, '0 .. %d, length %d' % (N, npart + 1),
                 key='partition:starts')
        return False
    if c['style'] == 'negative':
        return ok            # outside the property's domain [0, BoxSize]: only permutation / input / starts shape
    sta = np.asarray(st)
    for s in (int(v) for v in np.nonzero(sta[1:] > sta[:-1])[0]):
        seg = r['out'][st[s]:st[s + 1]]
        bad = [row for row in seg if floor_key(c, row) != s]
        if bad:
            ctx.fail('partition_parallel[%s] stripe %d holds a particle of another stripe' % (label, s), c,
                     {'stripe': s, 'row': bad[0], 'its_floor_key': floor_key(c, bad[0])}, 'only rows with floor(x*np/Box) = %d' % s,
                     key='partition:wrong-stripe')
            ok = False
            break
        if c['sort']:
            xs = [row[c['coord']] for row in seg]
            if any(a > b for a, b in zip(xs, xs[1:])):
                ctx.fail('partition_parallel[%s] stripe %d is not sorted although sort=True' % (label, s), c, xs[:12],
                         'non-decreasing coordinate', key='partition:not-sorted')
                ok = False
                break
    return ok


# --------------------------------------------------------------------------- model

def fr(x):
    return str(x.numerator) if x.denominator == 1 else '%d/%d' % (x.numerator, x.denominator)


def model_line(c, blocks):
    box = Fraction(*c['box'])
    xs = [fr(Fraction(row[c['coord']]) * box / c.get('lat', LAT)) for row in c['J']]
    b = 'auto' if blocks == 'auto' else ','.join(str(v) for v in blocks)
    return 'part %d %d %s %s %d %s' % (c['np'], c['nthread'], b, fr(box), c['sort'], ','.join(xs) if xs else '-')


def parse_model(s):
    if not s.startswith('ok '):
        return {'err': s}
    parts = dict(p.split('=', 1) for p in s.split(' ')[1:])

    def lst(v):
        return [] if v == '-' else [int(x) for x in v.split(',')]
    return {'starts': lst(parts['starts']), 'order': lst(parts['order']), 'slots': lst(parts['slots'])}


def canon(c, rows, starts):
    """with sort=True the order inside a tie group is not defined: order each stripe by (coordinate, whole row)"""
    if not c['sort']:
        return rows
    out = []
    for a, b in zip(starts, starts[1:]):
        out.extend(sorted(rows[a:b], key=lambda row: (row[c['coord']], tuple(-1e300 if v is None else v for v in row))))
    return out


def correspond(ctx, c, m, r, label):
    if 'err' in m or 'exc' in r or r.get('out') is None:
        if not ('err' in m and 'exc' in r):
            ctx.disagree('partition[%s] outcome' % label, c, m.get('err', 'ok'), r.get('exc', 'ok'))
        return
    N = c['N']
    if sorted(m['slots']) != list(range(N)):
        ctx.disagree('model write slots are not a permutation of range(N)', c, m['slots'], 'perm')
    if m['starts'] != r['starts']:
        ctx.disagree('partition[%s] starts' % label, c, m['starts'], r['starts'])
        return
    if any(not (0 <= i < N) for i in m['order']) or len(m['order']) != N:
        ctx.disagree('partition[%s]: model leaves a slot unwritten' % label, c, m['order'], 'all written')
        return
    mrows = [r['in'][i] for i in m['order']]
    a, b = canon(c, mrows, m['starts']), canon(c, r['out'], r['starts'])
    if a != b:
        k = next(i for i in range(N) if a[i] != b[i])
        ctx.disagree('partition[%s] rows (first difference at slot %d)' % (label, k), c, a[max(0, k - 1):k + 3], b[max(0, k - 1):k + 3])


# --------------------------------------------------------------------------- run

def corpus_cases():
    from vcommon import CORPUS
    out = []
    d = CORPUS / 'C17'
    if d.is_dir():
        for p in sorted(d.glob('*.json')):
            out.append(json.loads(p.read_text()))
    return out


def check_blocks(ctx):
    """the real thread blocks are a monotone sequence 0..N of length T+1 (the theorems' hypothesis); how often
    they differ from floor(i*N/T) because of float rounding inside linspace is only counted"""
    nmax, tmax = ctx.pick(200, 1200), ctx.pick(16, 64)
    lines = []
    for N in range(0, nmax + 1, 1 if ctx.quick else 3):
        for T in range(1, tmax + 1):
            lines.append((N, T))
    outs = ctx.driver.query(['blocks %d %d' % nt for nt in lines])
    for (N, T), o in zip(lines, outs):
        a = [int(v) for v in np.linspace(0, N, T + 1).astype(np.int64)]
        if len(a) != T + 1 or a[0] != 0 or a[-1] != N or any(x > y for x, y in zip(a, a[1:])):
            ctx.disagree('linspace thread blocks are not a monotone sequence 0..N of length T+1', {'N': N, 'T': T}, 'monotone 0..N', a)
        mb = [int(v) for v in o.split(',')]
        ctx.count('blocks:checked')
        if mb != a:
            ctx.count('blocks:float-linspace-differs-from-floor')
            if any(abs(x - y) > 1 for x, y in zip(a, mb)):
                ctx.disagree('linspace thread blocks differ from floor(i*N/T) by more than one', {'N': N, 'T': T}, mb, a)


def process_big(ctx, cases, fn, fn_py):
    """very many stripes: the list-based Lean model is quadratic in the stripe count, so these cases go to the oracle
    only (the property restated on the result); they exist for the machine-integer width of the stripe key, which the
    model (unbounded integers) cannot exhibit"""
    for k, c in enumerate(cases):
        ctx.case(c, nontrivial=c['N'] >= 2)
        ctx.count('style:' + c['style'])
        if fn_py is not None and c['nthread'] <= 2 and c['np'] <= 40000:
            rp = run_impl(c, fn_py)
            ctx.count('py_func runs')
            if not oracle(ctx, c, rp, 'py_func') or 'exc' in rp:
                continue
        oracle(ctx, c, run_impl(c, fn), 'compiled')


def process(ctx, cases, fn, fn_py):
    big = [c for c in cases if c.get('style') == 'bignp']
    if big:
        process_big(ctx, big, fn, fn_py)
        cases = [c for c in cases if c.get('style') != 'bignp']
    lines = []
    for c in cases:
        lines.append(model_line(c, real_blocks(c)))
        lines.append(model_line(c, 'auto'))
    outs = ctx.driver.query(lines)
    models = []
    for k, c in enumerate(cases):
        m = parse_model(outs[2 * k])
        m2 = parse_model(outs[2 * k + 1])
        models.append(m)
        if (m.get('starts'), m.get('order'), m.get('err')) != (m2.get('starts'), m2.get('order'), m2.get('err')):
            ctx.disagree('model result depends on the thread blocks', c, outs[2 * k][:300], outs[2 * k + 1][:300])
        ctx.case(c, nontrivial=c['N'] >= 2 and c['np'] >= 2)
        ctx.count('style:' + c['style'])
        ctx.count('N=%d' % c['N'] if c['N'] < 3 else ('N<=60' if c['N'] <= 60 else 'N<=200'))
        ctx.count('nthread>N' if c['nthread'] > c['N'] else 'nthread<=N')
        ctx.count('sort:%d weights:%d %s' % (c['sort'], c['w8'] is not None, c['dt']))
        if c.get('wmix'):
            ctx.count('weights in the other float type than the positions')
    # pass 1, Python level (py_func): an out-of-range access raises instead of corrupting memory
    faulted = False
    for k, c in enumerate(cases):
        if fn_py is not None and c['N'] <= 40 and (k % 6 == 0 or c['style'] == 'atbox' and k % 2 == 0):
            rp = run_impl(c, fn_py)
            ctx.count('py_func runs')
            oracle(ctx, c, rp, 'py_func')
            correspond(ctx, c, models[k], rp, 'py_func')
            faulted = faulted or 'exc' in rp
    if faulted:
        # reported above as a failing input; the compiled kernel is not run in this process, an
        # out-of-range store there would corrupt the heap instead of raising
        ctx.count('compiled runs skipped after a python-level fault', len(cases))
        return
    # pass 2, the compiled kernel as users run it
    for k, c in enumerate(cases):
        r = run_impl(c, fn)
        oracle(ctx, c, r, 'compiled')
        correspond(ctx, c, models[k], r, 'compiled')


def run(ctx):
    from abacusnbody.analysis.tsc import partition_parallel
    fn_py = pure(partition_parallel) if hasattr(partition_parallel, 'py_func') else None
    check_blocks(ctx)
    corpus = corpus_cases()
    ctx.count('corpus', len(corpus))
    process(ctx, corpus + gen_cases(ctx), partition_parallel, fn_py)
    ctx.extra['scope'] = 'N<=200, nthread 1..16, npartition 1..40 (plus 32767..131073 on a Box/2^20 lattice, float64), coord 0..2, f4/f8, weights, sort; lattice Box/1024'


def intensify(ctx):
    from abacusnbody.analysis.tsc import partition_parallel
    rng = ctx.rng
    cases = []
    for _ in range(6000):
        N = int(rng.integers(0, 80))
        cases.append(gen_case(rng, N, int(rng.integers(1, 17)), int(rng.integers(1, 41)), int(rng.integers(0, 3)),
                              str(rng.choice(['f4', 'f8'])), bool(rng.integers(0, 2)), bool(rng.integers(0, 2)),
                              str(rng.choice(STYLES[:7]))))
    if ctx.driver is not None and not ctx.driver.error:
        process(ctx, cases, partition_parallel, pure(partition_parallel) if hasattr(partition_parallel, 'py_func') else None)
    else:
        for c in cases:
            oracle(ctx, c, run_impl(c, partition_parallel), 'compiled')


def replay(ctx, doc):
    from abacusnbody.analysis.tsc import partition_parallel
    c = doc['failure']['case'] if 'failure' in doc else doc
    process(ctx, [c], partition_parallel, pure(partition_parallel) if hasattr(partition_parallel, 'py_func') else None)
