"""C20 — pipe_asdf emits count, width and the concatenated raw bytes per field (DESIGN.md §7 C20).

Real code driven: abacusnbody.data.pipe_asdf.unpack_to_pipe (in-process, from the working tree) writing to
a recording pipe object, over synthetic ASDF files this harness writes (uncompressed, and blsc through the
blosc stand-in); once per run also the command line entry point `python -m abacusnbody.data.pipe_asdf`
in a subprocess, stdout captured.
"""
import io
import json
import os
import struct
import subprocess

import numpy as np

THEOREMS = [
    'AbacusVerif.Pipe.emit_error_writes_nothing',
    'AbacusVerif.Pipe.emit_validation_complete',
    'AbacusVerif.Pipe.parse_emit',
    'AbacusVerif.Pipe.parse_unambiguous',
    'AbacusVerif.Pipe.emit_no_files',
    'AbacusVerif.Pipe.emit_zero_dim',
    'AbacusVerif.Pipe.cli_run',
    'AbacusVerif.Pipe.cli_error_writes_nothing',
    'AbacusVerif.Pipe.parseArgv_canonical',
]
DRIVER = 'drv_c20'
RULE = ('a case is one call unpack_to_pipe(files, fields, pipe) on freshly written synthetic ASDF files: 1-4 files '
        '(or a missing path / a directory in the k-th position), 1-4 requested fields (request order independent of '
        'the order in the files, repeats allowed, extra unrequested columns present), columns 1-D, (N,3), (N,5) with '
        'N in 0..40, item widths 1-8 (integers, floats, both byte orders, fixed-width strings, records), '
        'uncompressed and blsc; plus error cases (missing file, field missing in the k-th file, tty pipe) and '
        'mixed item widths across files (model vs real code only); non-trivial = at least one payload byte or an '
        'error; distinct = distinct (files, columns, bytes, fields, compression)')
TRUSTED = [
    'asdf 5.4 (writing the synthetic files, lazy loading, shape/dtype metadata) and the blosc stand-in for blsc files',
    'little-endian host: np.int64 / np.int32 scalars are written in native byte order',
]
ASSUMPTIONS = [
    'per requested field all files hold the same item width (the code reports the last file\'s); total count < 2^63, width < 2^31',
    'columns are at least 1-D (for a 0-d column np.prod(()) is a float: outside the property and the model)',
    'at least one input file (the command line enforces nargs="+")',
]

DTYPES = ['u1', 'i1', '?', 'S1', '<i2', '>i2', '<f2', 'S3', '<i4', '>u4', '<f4', 'S5', 'S6',
          [('a', '<i2'), ('b', 'u1')], [('a', '<f4'), ('b', '<i2')], 'S7', '<i8', '>f8', '<f8', 'c8', 'U2']
NAMES = ['pos', 'vel', 'pid', 'density', 'aux', 'N', 'x_com']
MAX_REPORTS = 30


class Enough(Exception):
    pass


class Pipe:
    """BytesIO-backed stand-in for sys.stdout.buffer: exactly the methods unpack_to_pipe uses"""

    def __init__(self, tty=False):
        self.buf = io.BytesIO()
        self.tty = tty
        self.closed_called = False
        self.writes_after_close = 0

    def isatty(self):
        return self.tty

    def write(self, data):
        if self.closed_called:
            self.writes_after_close += 1
        return self.buf.write(data)

    def flush(self):
        pass

    def close(self):
        self.closed_called = True

    def getvalue(self):
        return self.buf.getvalue()


# ----------------------------------------------------------------------------- case <-> files

def dt_key(dt):
    return json.dumps(dt)


def mk_array(col):
    d = np.dtype([tuple(x) for x in col['dtype']] if isinstance(col['dtype'], list) else col['dtype'])
    return np.frombuffer(bytes.fromhex(col['hex']), dtype=d).reshape(col['shape'])


def write_file(fn, cols, compression):
    import asdf
    tree = {'data': {c['name']: mk_array(c) for c in cols}, 'header': {'note': 'synthetic'}}
    af = asdf.AsdfFile(tree)
    if compression == 'blsc':
        from abacusnbody.data.asdf import BloscCompressor
        orig = BloscCompressor.compress

        def adapter(self, data, **kw):
            # asdf 5.4 hands compress an ndarray, which the real method rejects; give it the documented memoryview
            return orig(self, memoryview(np.ascontiguousarray(data)), **kw)

        BloscCompressor.compress = adapter
        try:
            af.write_to(fn, all_array_compression='blsc', compression_kwargs={'compression_block_size': 64})
        finally:
            BloscCompressor.compress = orig
    else:
        af.write_to(fn)


def materialise(ctx, case, k):
    """write the case's files; returns the path list handed to the real code"""
    d = os.path.join(ctx.tmpdir(), 'c%06d' % k)
    os.makedirs(d, exist_ok=True)
    paths = []
    for i, f in enumerate(case['files']):
        fn = os.path.join(d, 'f%d.asdf' % i)
        if f == 'missing':
            pass
        elif f == 'directory':
            os.makedirs(fn, exist_ok=True)
        else:
            write_file(fn, f, case['compression'])
        paths.append(fn)
    return paths


def model_line(case):
    toks = ['emit', '1' if case.get('tty') else '0', str(len(case['files']))]
    for f in case['files']:
        if f in ('missing', 'directory'):
            toks.append('!')
        elif not f:
            toks.append('+')
        else:
            cols = []
            for c in f:
                d = np.dtype([tuple(x) for x in c['dtype']] if isinstance(c['dtype'], list) else c['dtype'])
                shape = 'x'.join(str(s) for s in c['shape']) if c['shape'] else 's'
                cols.append('%s:%s:%d:%s' % (c['name'], shape, d.itemsize, c['hex'] or '-'))
            toks.append('+' + ';'.join(cols))
    toks.extend(case['fields'])
    return ' '.join(toks)


def parse_model(s):
    parts = dict(p.split('=', 1) for p in s.split(' '))
    return {'written': '' if parts['written'] == '-' else parts['written'], 'err': parts['err'],
            'closed': parts['closed'] == '1', 'parsed': parts['parsed']}


def run_impl(case, paths):
    from abacusnbody.data import pipe_asdf
    pipe = Pipe(tty=bool(case.get('tty')))
    err = 'none'
    try:
        pipe_asdf.unpack_to_pipe(list(paths), list(case['fields']), pipe=pipe, verbose=False)
    except FileNotFoundError as e:
        arg = e.args[0] if e.args else None
        err = 'missing-file:%s' % (paths.index(arg) if arg in paths else '?')
    except ValueError as e:
        msg = str(e)
        err = 'ValueError:' + msg[:80]
        if msg.startswith('Field "') and '" not found in "' in msg:
            field = msg[len('Field "'):msg.index('" not found in "')]
            uri = msg[msg.index('" not found in "') + len('" not found in "'):-1]
            idx = [i for i, p in enumerate(paths) if uri.endswith(os.path.basename(os.path.dirname(p)) + '/' + os.path.basename(p))]
            err = 'missing-field:%s:%s' % (idx[0] if len(idx) == 1 else '?', field)
    except RuntimeError as e:
        err = 'tty' if 'terminal' in str(e) else 'RuntimeError:' + str(e)[:80]
    except UnboundLocalError:
        err = 'unbound-width'
    except IndexError as e:
        err = 'index-error' if '0-dimensional' in str(e) else 'IndexError:' + str(e)[:80]
    except Exception as e:   # noqa: BLE001
        err = type(e).__name__ + ':' + str(e)[:80]
    finally:
        import gc
        gc.collect()
    return {'written': pipe.getvalue().hex(), 'err': err, 'closed': pipe.closed_called and pipe.writes_after_close == 0}


def spec(case):
    """the property in plain Python: what must be on the pipe.  Returns (bytes, error kind or None)."""
    if any(f in ('missing', 'directory') for f in case['files']):
        return b'', 'missing-file'
    trees = [{c['name']: mk_array(c) for c in f} for f in case['files']]
    if any(fld not in t for t in trees for fld in case['fields']):
        return b'', 'missing-field'
    out = b''
    for fld in case['fields']:
        arrs = [t[fld] for t in trees]
        if not arrs:
            return out, 'no-files'
        count = sum(int(np.prod(a.shape, dtype=np.int64)) for a in arrs)
        width = arrs[-1].dtype.itemsize
        out += struct.pack('<q', count) + struct.pack('<i', width)
        out += b''.join(a.tobytes() for a in arrs)
    return out, None


def client_parse(data, nfields):
    """the documented client: int64, int32, product, that many bytes; repeat; then EOF"""
    recs = []
    i = 0
    for _ in range(nfields):
        if len(data) - i < 12:
            return None
        count, = struct.unpack_from('<q', data, i)
        width, = struct.unpack_from('<i', data, i + 8)
        i += 12
        n = count * width
        if n < 0 or len(data) - i < n:
            return None
        recs.append((count, width, data[i:i + n]))
        i += n
    return recs if i == len(data) else None


def uniform_width(case):
    if any(f in ('missing', 'directory') for f in case['files']):
        return True
    for fld in case['fields']:
        ws = {dt_key(c['dtype']) for f in case['files'] for c in f if c['name'] == fld}
        sizes = {np.dtype([tuple(x) for x in json.loads(w)] if w.startswith('[') else json.loads(w)).itemsize for w in ws}
        if len(sizes) > 1:
            return False
    return True


def show_parsed(recs):
    if recs is None:
        return 'none'
    if not recs:
        return '.'
    return ','.join('%d:%d:%s' % (c, w, p.hex() or '-') for c, w, p in recs)


def check_case(ctx, case, paths, mres):
    r = run_impl(case, paths)
    m = parse_model(mres)
    exp, experr = spec(case)
    nontrivial = experr is not None or len(exp) > 12 * len(case['fields'])
    ctx.case(case, nontrivial=nontrivial)
    ctx.count('files=%d' % len(case['files']))
    ctx.count('fields=%d' % len(case['fields']))
    ctx.count('compression:' + case['compression'])
    ctx.count('outcome:' + (experr or ('tty' if case.get('tty') else 'ok')) if case['files'] else 'outcome:no-files')
    zero_d = any(f not in ('missing', 'directory') and any(not c['shape'] for c in f if c['name'] in case['fields'])
                 for f in case['files'])
    wellformed = uniform_width(case) and not case.get('tty') and len(case['files']) > 0 and not zero_d
    if zero_d:
        ctx.count('0-d column (model-vs-impl only)')
    if not case['files']:
        ctx.count('no input file (model-vs-impl only)')
    if not uniform_width(case):
        ctx.count('mixed-widths(model-vs-impl only)')
    # ---- oracle
    if wellformed:
        if experr is not None:
            if r['written'] != '' or not r['err'].startswith(experr) or r['closed']:
                ctx.fail('a missing file/field is not reported before any byte is written', case,
                         {'written': r['written'][:80], 'err': r['err'], 'closed': r['closed']},
                         {'written': '', 'err': experr}, key='pipe:error-writes')
        else:
            recs = client_parse(bytes.fromhex(r['written']), len(case['fields'])) if r['err'] == 'none' else None
            if r['err'] != 'none' or r['written'] != exp.hex() or not r['closed'] or recs is None:
                ctx.fail('pipe stream is not count, width, concatenated raw bytes per field', case,
                         {'written': r['written'][:120], 'err': r['err'], 'closed': r['closed']},
                         {'written': exp.hex()[:120], 'err': 'none', 'closed': True}, key='pipe:framing')
    elif case.get('tty'):
        if r['written'] != '' or r['err'] != 'tty':
            ctx.fail('terminal pipe not refused before writing', case, r, {'written': '', 'err': 'tty'}, key='pipe:tty')
    # ---- correspondence
    mobs = {'written': m['written'], 'err': m['err'], 'closed': m['closed']}
    if mobs != r:
        ctx.disagree('unpack_to_pipe bytes/error/close', case,
                     {k: str(v)[:200] for k, v in mobs.items()}, {k: str(v)[:200] for k, v in r.items()})
    elif r['err'] == 'none':
        # the model's client and the Python client read the same records from the real bytes
        recs = client_parse(bytes.fromhex(r['written']), len(case['fields']))
        if show_parsed(recs) != m['parsed']:
            ctx.disagree('client parse of the emitted bytes', case, m['parsed'][:200], show_parsed(recs)[:200])
    ctx.traces_validated += 1
    if len(ctx.failures) >= MAX_REPORTS or len(ctx.disagreements) >= 5 * MAX_REPORTS:
        raise Enough()


# ----------------------------------------------------------------------------- generators

def big_case(desc):
    """columns far larger than any small buffer (a chunked / buffered writer must still emit every element): the case is
    described by shapes and a seed only, the bytes are regenerated"""
    rng = np.random.default_rng([int(desc['seed']), 20])
    files = []
    for fcols in desc['files']:
        cols = []
        for name, dt, shape in fcols:
            d = np.dtype(dt)
            nbytes = int(np.prod(shape)) * d.itemsize
            cols.append({'name': name, 'dtype': dt, 'shape': list(shape), 'hex': bytes(rng.integers(0, 256, nbytes, dtype=np.uint8)).hex()})
        files.append(cols)
    return {'kind': 'big', 'files': files, 'fields': list(desc['fields']), 'compression': 'none', 'tty': False}


BIG_DESCS = [
    dict(kind='big', seed=1, fields=['pos', 'id'],
         files=[[('pos', '<f4', [100000, 3]), ('id', '<i8', [100000])], [('pos', '<f4', [50, 3]), ('id', '<i8', [50])]]),
    dict(kind='big', seed=2, fields=['w', 'q'],
         files=[[('w', '<f8', [400000]), ('q', '<i2', [200000, 5])], [('w', '<f8', [3]), ('q', '<i2', [70000, 5])]]),
]


def check_big(ctx, descs=BIG_DESCS):
    for k, desc in enumerate(descs):
        case = big_case(desc)
        paths = materialise(ctx, case, 900000 + k)
        r = run_impl(case, paths)
        exp, experr = spec(case)
        ctx.case(desc, nontrivial=True)
        ctx.count('big columns (oracle only)')
        got = bytes.fromhex(r['written'])
        if r['err'] != 'none' or got != exp:
            # locate the first difference instead of dumping megabytes
            n = min(len(got), len(exp))
            first = next((i for i in range(n) if got[i] != exp[i]), n)
            ctx.fail('unpack_to_pipe does not emit count, width and every byte of a large column', desc,
                     dict(err=r['err'], written_bytes=len(got), first_difference_at=first), dict(err='none', written_bytes=len(exp)),
                     key='pipe:big-column')


def gen_column(rng, name, dtype=None, n=None, ncomp=None):
    dt = dtype if dtype is not None else DTYPES[int(rng.integers(0, len(DTYPES)))]
    d = np.dtype([tuple(x) for x in dt] if isinstance(dt, list) else dt)
    if n is None:
        n = int(rng.choice([0, 0, 1, 2, 3, 7, 16, int(rng.integers(0, 41))]))
    if ncomp is None:
        ncomp = int(rng.choice([1, 1, 3, 5]))
    shape = [n] if ncomp == 1 else [n, ncomp]
    nbytes = int(np.prod(shape)) * d.itemsize
    dtj = [list(x) for x in dt] if isinstance(dt, list) else dt
    return {'name': name, 'dtype': dtj, 'shape': shape, 'hex': bytes(rng.integers(0, 256, nbytes, dtype=np.uint8)).hex()}


def gen_case(rng, kind):
    nfiles = int(rng.integers(1, 5))
    names = list(rng.permutation(NAMES)[:int(rng.integers(1, 6))])
    # per column: dtype and trailing dimension are shared by all files (same catalogue schema)
    schema = {}
    for nm in names:
        dt = DTYPES[int(rng.integers(0, len(DTYPES)))]
        schema[nm] = (dt, int(rng.choice([1, 1, 3, 5])))
    files = []
    for _ in range(nfiles):
        order = list(rng.permutation(names))
        allempty = rng.random() < 0.1
        files.append([gen_column(rng, nm, schema[nm][0], 0 if allempty else None, schema[nm][1]) for nm in order])
    nreq = int(rng.integers(1, 5))
    fields = [names[int(rng.integers(0, len(names)))] for _ in range(nreq)]
    if rng.random() < 0.7:
        # mostly distinct fields in a random order
        fields = list(rng.permutation(names)[:min(nreq, len(names))])
    case = {'kind': kind, 'files': files, 'fields': [str(f) for f in fields],
            'compression': 'blsc' if rng.random() < 0.3 else 'none', 'tty': False}
    if kind == 'missing-file':
        k = int(rng.integers(0, nfiles))
        case['files'][k] = 'missing' if rng.random() < 0.7 else 'directory'
        if rng.random() < 0.3 and nfiles > 1:
            case['files'][int(rng.integers(0, nfiles))] = 'missing'
    elif kind == 'missing-field':
        k = int(rng.integers(0, nfiles))
        victim = case['fields'][int(rng.integers(0, len(case['fields'])))]
        case['files'][k] = [c for c in case['files'][k] if c['name'] != victim]
        if rng.random() < 0.3:
            case['fields'].append('nonexistent')
    elif kind == 'mixed-width':
        k = int(rng.integers(0, nfiles))
        victim = case['fields'][0]
        for c in case['files'][k]:
            if c['name'] == victim:
                c.update(gen_column(rng, victim))
    elif kind == 'tty':
        case['tty'] = True
    elif kind == 'zero-d':
        # the victim field becomes a 0-d array in one or more files (outside the property; model vs code)
        victim = case['fields'][int(rng.integers(0, len(case['fields'])))]
        ks = set(int(x) for x in rng.integers(0, nfiles, int(rng.integers(1, 3))))
        for k in ks:
            for c in case['files'][k]:
                if c['name'] == victim:
                    d = np.dtype([tuple(x) for x in c['dtype']] if isinstance(c['dtype'], list) else c['dtype'])
                    c['shape'] = []
                    c['hex'] = bytes(rng.integers(0, 256, d.itemsize, dtype=np.uint8)).hex()
    elif kind == 'no-files':
        case['files'] = []
    return case


def corpus_cases():
    from vcommon import CORPUS
    out = []
    d = CORPUS / 'C20'
    if d.is_dir():
        for p in sorted(d.glob('*.json')):
            out.append(json.loads(p.read_text()))
    return out


def run_cases(ctx, cases, k0=0):
    outs = ctx.driver.query([model_line(c) for c in cases])
    for k, (c, mres) in enumerate(zip(cases, outs)):
        paths = materialise(ctx, c, k0 + k)
        check_case(ctx, c, paths, mres)


def fs_entry(name, cols):
    toks = []
    for c in cols:
        d = np.dtype([tuple(x) for x in c['dtype']] if isinstance(c['dtype'], list) else c['dtype'])
        shape = 'x'.join(str(x) for x in c['shape']) if c['shape'] else 's'
        toks.append('%s:%s:%d:%s' % (c['name'], shape, d.itemsize, c['hex'] or '-'))
    return '%s=+%s' % (name, ';'.join(toks))


def cli_argv(rng, fields, files, style):
    """argv for `pipe_asdf` in one of the spellings argparse accepts (or deliberately does not)"""
    def f_opt(f):
        form = int(rng.integers(0, 5)) if style != 'plain' else 0
        return [['-f', f], ['-f' + f], ['--field', f], ['--field=' + f], ['--fie', f]][form]

    fopts = [t for f in fields for t in f_opt(f)]
    nth = [[], ['--nthread', '2'], ['--nthread=1']][int(rng.integers(0, 3))] if style != 'plain' else []
    if style in ('plain', 'spellings'):
        return fopts + nth + files if rng.random() < 0.5 else nth + files + fopts
    if style == 'dashdash':
        return nth + fopts + ['--'] + files
    if style == 'split-positionals':          # usage error: two groups of positionals
        return files[:1] + fopts + files[1:] + (files[:1] if len(files) == 1 else [])
    if style == 'bad-nthread':
        return fopts + ['--nthread', 'x'] + files
    if style == 'no-field':                   # fields=None -> TypeError before any write
        return nth + files
    raise AssertionError(style)


def run_cli(ctx):
    """the console entry point (`pipe_asdf` = python -m abacusnbody.data.pipe_asdf): argv handling of `main`
    and the bytes on stdout / the exit status, against the model's `cli`"""
    import vcommon
    rng = ctx.rng
    plan = [('ok', 'plain', 'blsc'), ('ok', 'spellings', 'none'), ('ok', 'dashdash', 'none'),
            ('missing-field', 'spellings', 'none'), ('missing-file', 'plain', 'none'),
            ('ok', ['split-positionals', 'bad-nthread', 'no-field'][int(rng.integers(0, 3))], 'none')]
    if not ctx.quick:
        plan += [('ok', 'split-positionals', 'none'), ('ok', 'bad-nthread', 'none'), ('ok', 'no-field', 'none'),
                 ('zero-d', 'plain', 'none'), ('ok', 'spellings', 'blsc'), ('mixed-width', 'spellings', 'none')]
    for k, (kind, style, comp) in enumerate(plan):
        for _ in range(200):
            case = gen_case(rng, kind)
            if kind != 'ok':
                break
            # order-sensitive on purpose: the stream must change when files or fields are permuted
            rf = dict(case, files=case['files'][::-1])
            rq = dict(case, fields=case['fields'][::-1])
            if spec(rf)[0] != spec(case)[0] and spec(rq)[0] != spec(case)[0]:
                break
        case['compression'] = comp
        paths = materialise(ctx, case, 900000 + k)
        names = [os.path.basename(p) for p in paths]
        if len(names) > 1 and k % 2 == 0:
            # the documented order is the order of the ARGUMENTS: hand the files over in a non-lexicographic order
            # (f2 f0 f1 ...), so that a sorted() anywhere on the way is visible
            perm = list(range(len(names)))[::-1] if len(names) == 2 else [len(names) - 1] + list(range(len(names) - 1))
            names = [names[i] for i in perm]
            paths = [paths[i] for i in perm]
            case = dict(case, files=[case['files'][i] for i in perm])
        argv = cli_argv(rng, case['fields'], names, style)
        case = dict(case, cli=True, argv=argv, style=style)
        cmd = [vcommon.PY, '-B', '-m', 'abacusnbody.data.pipe_asdf'] + argv
        p = subprocess.run(cmd, env=vcommon.impl_env(), stdout=subprocess.PIPE, stderr=subprocess.PIPE, timeout=600,
                           cwd=os.path.dirname(paths[0]))
        fs = [fs_entry(nm, f) for nm, f in zip(names, case['files']) if f not in ('missing', 'directory')]
        mline = 'cli 0 %s @@ %s' % (' '.join(fs), ' '.join(argv))
        mres = dict(t.split('=', 1) for t in ctx.driver.query([mline])[0].split(' '))
        ctx.case(case, nontrivial=True)
        ctx.count('cli:%s/%s' % (kind, style))
        obs = {'stdout': p.stdout.hex() or '-', 'exit': str(p.returncode)}
        if obs != {'stdout': mres.get('stdout'), 'exit': mres.get('exit')}:
            ctx.disagree('pipe_asdf command line: stdout bytes / exit status', case, mres,
                         dict(obs, stderr=p.stderr.decode(errors='replace')[-300:]))
        # oracle: the property on the command line, when the invocation is a valid one
        exp, experr = spec(case)
        valid_argv = style in ('plain', 'spellings', 'dashdash')
        if valid_argv and kind in ('ok',):
            if p.returncode != 0 or p.stdout != exp:
                ctx.fail('pipe_asdf command line: stream is not count, width, raw bytes per field', case,
                         {'stdout': obs['stdout'][:120], 'rc': p.returncode, 'stderr': p.stderr.decode(errors='replace')[-300:]},
                         {'stdout': exp.hex()[:120], 'rc': 0}, key='pipe:cli-framing')
        elif (valid_argv and kind in ('missing-field', 'missing-file')) or style in ('split-positionals', 'bad-nthread', 'no-field'):
            if p.returncode == 0 or p.stdout != b'':
                ctx.fail('pipe_asdf command line: error not reported before any byte is written', case,
                         {'stdout': obs['stdout'][:120], 'rc': p.returncode}, {'stdout': '', 'rc': 'non-zero'},
                         key='pipe:cli-error-writes')
        if len(ctx.failures) >= MAX_REPORTS:
            raise Enough()


def run(ctx):
    from abacusnbody.data import pipe_asdf  # noqa: F401  (module under test)
    rng = ctx.rng
    try:
        corpus = corpus_cases()
        ctx.count('corpus', len(corpus))
        run_cases(ctx, corpus, 800000)
        n = ctx.pick(120, 900)
        kinds = ['ok'] * 6 + ['missing-file', 'missing-field', 'missing-field', 'mixed-width', 'zero-d']
        cases = [gen_case(rng, kinds[i % len(kinds)]) for i in range(n)]
        cases.append(gen_case(rng, 'tty'))
        cases.append(gen_case(rng, 'no-files'))
        cases.append(gen_case(rng, 'no-files'))
        # boundary: everything empty; one file one field; the same field requested twice; 4 files x 4 fields
        cases.append({'kind': 'boundary', 'files': [[gen_column(rng, 'pos', '<f4', 0, 3)]], 'fields': ['pos'],
                      'compression': 'none', 'tty': False})
        cases.append({'kind': 'boundary', 'files': [[gen_column(rng, 'pid', '<i8', 5, 1)]], 'fields': ['pid', 'pid'],
                      'compression': 'none', 'tty': False})
        cases.append({'kind': 'boundary', 'files': [[]], 'fields': ['pos'], 'compression': 'none', 'tty': False})
        for i in range(0, len(cases), 40):
            run_cases(ctx, cases[i:i + 40], i)
        check_big(ctx)
        run_cli(ctx)
    except Enough:
        ctx.count('stopped-early')


def intensify(ctx):
    if len(ctx.failures) >= MAX_REPORTS:
        return
    rng = ctx.rng
    try:
        cases = [gen_case(rng, ['ok', 'missing-file', 'missing-field'][i % 3]) for i in range(300)]
        if ctx.driver.error:
            for k, c in enumerate(cases):
                paths = materialise(ctx, c, 700000 + k)
                check_case(ctx, c, paths, 'written=- err=driver closed=0 parsed=none')
        else:
            run_cases(ctx, cases, 700000)
    except Enough:
        pass


def replay(ctx, doc):
    from abacusnbody.data import pipe_asdf  # noqa: F401
    c = doc['failure']['case'] if 'failure' in doc else doc
    if c.get('kind') == 'big':
        check_big(ctx, [c])
        return
    for k in ('cli', 'argv', 'style'):
        c.pop(k, None)
    try:
        run_cases(ctx, [c], 600000)
    except Enough:
        pass
