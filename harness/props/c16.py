"""C16 — read_asdf returns exactly the requested particle columns (DESIGN.md §7 C16).

Correspondence: compiled Lean model `drv_c16` (Model/C16.lean: detection, load resolution, table assembly,
row count, warning, SubsampleFraction) against the real `read_abacus.read_asdf` on small synthetic ASDF files
written by harness/partfiles.py — exhaustive over file type x load (None / every subset of the loadable columns)
x load_pos/load_vel in {None,True,False}^2 x float dtype x header style; an error stream over all 16 presence
patterns of the four known raw keys x explicit colname.  Oracle: the property restated (exact column set, one
row per particle in file order, meta == header, values equal to the direct decoding of the raw column whatever
else was requested).
"""
import io
import itertools
from fractions import Fraction
import json
import os
import warnings
from contextlib import redirect_stdout

import numpy as np

THEOREMS = [
    'AbacusVerif.ReadAsdf.detect_explicit',
    'AbacusVerif.ReadAsdf.detect_spec',
    'AbacusVerif.ReadAsdf.detect_error_iff',
    'AbacusVerif.ReadAsdf.resolve_load_wins',
    'AbacusVerif.ReadAsdf.resolve_defaults',
    'AbacusVerif.ReadAsdf.resolve_flags',
    'AbacusVerif.ReadAsdf.resolve_spec',
    'AbacusVerif.ReadAsdf.resolve_table',
    'AbacusVerif.ReadAsdf.columns_general',
    'AbacusVerif.ReadAsdf.columns_exact',
    'AbacusVerif.ReadAsdf.columns_default',
    'AbacusVerif.ReadAsdf.rows_spec',
    'AbacusVerif.ReadAsdf.read_spec',
    'AbacusVerif.ReadAsdf.values_are_direct_decoding',
    'AbacusVerif.ReadAsdf.values_independent_of_selection',
    'AbacusVerif.ReadAsdf.read_values_independent',
    'AbacusVerif.ReadAsdf.aux_passthrough',
    'AbacusVerif.ReadAsdf.subsample_rule',
    'AbacusVerif.ReadAsdf.values_shape',
]
LEAN_MODULES = ['AbacusVerif.Generated.BitConsts', 'AbacusVerif.Props.C16']
DRIVER = 'drv_c16'
RULE = ('exhaustive: file type (rvint, pack9, packedpid, pid) x load in {None} + all subsets of the loadable columns '
        '(pos, vel | pid, lagr_pos, tagged, density, lagr_idx, aux; list order shuffled) x load_pos x load_vel in '
        '{None,True,False} x dtype {f4,f8} x header style {snapshot, AbacusSummit light cone}; plus non-loadable/unknown '
        'names, other header styles, empty files, and an error stream: all 16 presence patterns of the four known raw '
        'keys x colname in {None, each known key, two non-standard names}; distinct = distinct call signatures; '
        'a case is non-trivial when the file has at least one record')
TRUSTED = ['model values (C04/C15 model decoders called by Model/C16Values.lean as read_asdf calls the real ones) against the real '
           'table: integers, raw words, rvint velocities and densities exactly; rvint positions within 2 ulp; lagr_pos within '
           '3 ulp of max(j*Box/ppd, Box/2); pack9 values within 6 ulp of the summed-term magnitude (the C04 / C15 bounds)',
           'asdf 5.4 (file round trip of the synthetic files; validate_on_read switched off for speed), astropy Table (add_column(copy=False), slicing, meta)',
           'oracle: column values are compared bit for bit with direct calls of bitpacked.unpack_rvint / unpack_pids and '
           'pack9.unpack_pack9 on the same raw arrays; those decoders are tied to Lean models by C04 and C15',
           'harness/partfiles.py writes exactly the arrays the harness keeps in memory (uncompressed ASDF)']
ASSUMPTIONS = ['the header has BoxSize (and VelZSpace_to_kms for pack9, ppd for PID files, SimSet and ParticleSubsampleA/B '
               'for light cones); `load` is None or a list/tuple of strings',
               'the deprecated-flag semantics the oracle uses is the one in _resolve_columns (there is no other documentation)']

LOADABLE = {'rvint': ['pos', 'vel'], 'pack9': ['pos', 'vel'],
            'packedpid': ['pid', 'lagr_pos', 'tagged', 'density', 'lagr_idx', 'aux'],
            'pid': ['pid', 'lagr_pos', 'tagged', 'density', 'lagr_idx', 'aux']}
DEFAULT = {'rvint': ['pos', 'vel'], 'pack9': ['pos', 'vel'], 'packedpid': ['pid'], 'pid': ['pid']}
KNOWN = ['rvint', 'pack9', 'packedpid', 'pid']
TRI = {'N': None, 'T': True, 'F': False}
DT = {'f4': np.float32, 'f8': np.float64}
FLOATCOLS = ('pos', 'vel', 'lagr_pos', 'density')


def extract(ctx):
    """the value model (Model/C16Values.lean) calls the C04 model decoders, which are stated over the constants
    regenerated from bitpacked.py: regenerate them here too"""
    from extract import bitconsts
    c, changed = bitconsts.regenerate()
    ctx.extra['generated_file_changed'] = changed


# ----------------------------------------------------------------------------- files

class PFile:
    def __init__(self, fn, header, cols, nparts, tag):
        self.fn, self.header, self.cols, self.nparts, self.tag = fn, header, cols, nparts, tag
        self._ref = {}

    def reference(self, key, dt):
        """direct decoding of the raw column `key`: {output column: array}"""
        k = (key, dt)
        if k in self._ref:
            return self._ref[k]
        from abacusnbody.data import bitpacked, pack9
        raw = self.cols[key]
        box = self.header['BoxSize']
        fd = DT[dt]
        if key == 'rvint':
            with warnings.catch_warnings():
                warnings.simplefilter('ignore')
                p, v = bitpacked.unpack_rvint(raw.copy(), box, float_dtype=fd)
            ref = {'pos': p, 'vel': v, 'aux': raw}
        elif key == 'pack9':
            p, v = pack9.unpack_pack9(raw.copy(), box, self.header['VelZSpace_to_kms'], float_dtype=fd)
            ref = {'pos': p, 'vel': v, 'aux': raw}
        else:
            ref = dict(bitpacked.unpack_pids(raw.copy(), box=box, ppd=int(round(self.header['ppd'])), float_dtype=fd,
                                             pid=True, lagr_pos=True, tagged=True, density=True, lagr_idx=True))
            ref['aux'] = raw
        self._ref[k] = ref
        return ref


def make_file(ctx, name, header, keys, n, extra=None):
    import partfiles as pf
    cols, nparts = {}, {}
    for k in keys:
        arr, npart = pf.gen_raw(ctx.rng, k, n, ppd=int(round(header.get('ppd', 64))))
        cols[k], nparts[k] = arr, npart
    for k in (extra or []):
        arr, npart = pf.gen_raw(ctx.rng, 'pid', n, ppd=int(round(header.get('ppd', 64))))
        cols[k], nparts[k] = arr, npart
    fn = os.path.join(ctx.tmpdir(), name + '.asdf')
    pf.write_particle_file(fn, header, cols)
    return PFile(fn, header, cols, nparts, name)


# ----------------------------------------------------------------------------- one call

def frac(x):
    return Fraction(*float(x).as_integer_ratio())


def fs(q):
    return '%d/%d' % (q.numerator, q.denominator) if q.denominator != 1 else '%d' % q.numerator


def value_key(pf_, c):
    """the raw key when this call can be sent to the value model: the file has exactly one known raw column, the
    call reads it, and (large files) the call is in the 1-in-7 sample"""
    known_present = [k for k in KNOWN if k in pf_.cols]
    if len(known_present) != 1 or c['colname'] not in (None, known_present[0]):
        return None
    if not {'BoxSize', 'VelZSpace_to_kms', 'ppd'} <= set(pf_.header):
        return None
    if len(pf_.cols[known_present[0]]) > 40 and c.get('seq', 0) % 7 != 0:
        return None
    return known_present[0]


def raw_text(key, arr):
    if len(arr) == 0:
        return '-'
    if key == 'rvint':
        return ','.join(str(int(v)) for v in arr.reshape(-1))
    if key == 'pack9':
        return arr.tobytes().hex()
    return ','.join(str(int(v)) for v in arr)


def model_line(pf_, c):
    key = value_key(pf_, c)
    if key is not None:
        h = pf_.header
        dt = DT[c['dtype']]
        box, velz, ppd = frac(h['BoxSize']), frac(h['VelZSpace_to_kms']), frac(h['ppd'])
        cbox, cvelz = frac(dt(h['BoxSize'])), frac(dt(h['VelZSpace_to_kms']))
        load = c['load']
        ls = '-' if load is None else ('[]' if len(load) == 0 else ','.join(load))
        return 'readv %s %s %s %s %s %s %d %d %s %s %s %s %s' % (
            key, fs(box), fs(velz), fs(ppd), fs(cbox), fs(cvelz),
            1 if h.get('OutputType') == 'LightCone' else 0, 1 if h.get('SimSet') == 'AbacusSummit' else 0,
            c['colname'] or '-', ls, c['lp'], c['lv'], raw_text(key, pf_.cols[key]))
    pres = ''.join('1' if k in pf_.cols else '0' for k in KNOWN)
    others = [k for k in pf_.cols if k not in KNOWN]
    cn = c['colname']
    if cn is None:
        cns = '-'
    elif cn in KNOWN:
        cns = cn
    else:
        cns = 'other:%d' % (1 if 'pid' in cn else 0)
    oth_present = 1 if (cn is not None and cn not in KNOWN and cn in pf_.cols) else 0
    lens = [len(pf_.cols[k]) if k in pf_.cols else 0 for k in KNOWN]
    lens.append(len(pf_.cols[cn]) if oth_present else 0)
    load = c['load']
    ls = '-' if load is None else ('[]' if len(load) == 0 else ','.join(load))
    lc = 1 if pf_.header.get('OutputType') == 'LightCone' else 0
    sm = 1 if pf_.header.get('SimSet') == 'AbacusSummit' else 0
    return 'read %s %d %s %d %d %d %s %s %s %s' % (pres, oth_present, ','.join(map(str, lens)), pf_.nparts.get('pack9', 0),
                                                   lc, sm, cns, ls, c['lp'], c['lv'])


def parse_model(s):
    if s.startswith('err '):
        return {'err': s[4:]}
    if not s.startswith('ok '):
        return {'err': 'protocol:' + s}
    d = dict(p.split('=', 1) for p in s.split(' ')[1:])
    if 'rows' not in d:      # value model: cols=<name>=<cell;cell;...>|<name>=...
        vals = []
        if d['cols'] != '-':
            for part in d['cols'].split('|'):
                name, cells = part.split('=', 1)
                vals.append((name, [] if cells == '-' else cells.split(';')))
        lens = {len(v) for _, v in vals}
        return {'colname': d['colname'], 'cols': [n for n, _ in vals], 'rows': (vals[0] and len(vals[0][1])) if vals else 0,
                'warn': d['warn'], 'subsample': int(d['subsample']), 'values': vals, 'ragged': len(lens) > 1}
    return {'colname': d['colname'], 'cols': [] if d['cols'] == '-' else d['cols'].split(','), 'rows': int(d['rows']),
            'warn': d['warn'], 'subsample': int(d['subsample'])}


def within(got, exact, tol):
    g = float(got)
    if np.isnan(g) or np.isinf(g):
        return False
    return abs(Fraction(g) - exact) <= Fraction(tol)


def cmp_values(pf_, key, c, vals, t):
    """the model's column values against the real table: integers and raw words exactly; floats within the C04 / C15
    bounds (rvint pos 2 ulp; rvint vel, density exact; lagr_pos 3 ulp of max(j*box/ppd, box/2); pack9 6 ulp of the
    summed-term magnitude).  `U` (never written, np.empty) matches anything."""
    dt = DT[c['dtype']]
    h = pf_.header
    box = frac(h['BoxSize'])
    mags = None
    if key == 'pack9':
        from props import c15
        recs = [list(r) for r in pf_.cols[key].tolist()]
        orc = c15.oracle_decode(recs, float(dt(h['BoxSize'])), float(dt(h['VelZSpace_to_kms'])))
        mags = {'pos': [p[2] for p in orc], 'vel': [p[3] for p in orc]}
    eps = float(np.finfo(dt).eps)
    n = 0
    for name, cells in vals:
        a = np.asarray(t[name])
        if len(a) != len(cells):
            return '%s: %d rows, model %d' % (name, len(a), len(cells))
        for i, cell in enumerate(cells):
            if cell == 'U':
                continue
            n += 1
            row = a[i]
            if name == 'aux':
                if key == 'pack9':
                    ok = bytes(bytearray(int(b) for b in row)).hex() == cell
                elif key == 'rvint':
                    ok = [int(x) for x in row] == [int(x) for x in cell.split(':')]
                else:
                    ok = int(row) == int(cell)
            elif name in ('pid', 'tagged'):
                ok = int(row) == int(cell)
            elif name == 'lagr_idx':
                ok = [int(x) for x in row] == [int(x) for x in cell.split(':')]
            elif name == 'density':
                ok = a.dtype == dt and Fraction(float(row)) == Fraction(cell)
            elif key == 'rvint' and name == 'vel':
                ok = a.dtype == dt and [Fraction(float(x)) for x in row] == [Fraction(x) for x in cell.split(':')]
            elif key == 'rvint' and name == 'pos':
                ex = [Fraction(x) for x in cell.split(':')]
                ok = a.dtype == dt and all(within(row[k], ex[k], 2 * float(np.spacing(dt(abs(float(ex[k])))))) for k in range(3))
            elif name == 'lagr_pos':
                ex = [Fraction(x) for x in cell.split(':')]
                ok = a.dtype == dt and all(
                    within(row[k], ex[k], 3 * float(np.spacing(dt(float(max(abs(ex[k] + box / 2), box / 2)))))) for k in range(3))
            elif key == 'pack9' and name in ('pos', 'vel'):
                ex = [None if x == 'nan' else Fraction(x) for x in cell.split(':')]
                mg = mags[name][i]
                ok = a.dtype == dt and all(
                    (np.isnan(row[k]) if ex[k] is None else within(row[k], ex[k], 6 * eps * float(mg[k]))) for k in range(3))
            else:
                return 'unexpected column %s' % name
            if not ok:
                return '%s[%d] = %s, model %s' % (name, i, np.asarray(row).tolist(), cell)
    return n


def call_impl(pf_, c):
    from abacusnbody.data.read_abacus import read_asdf
    kw = {}
    if c['load'] is not None:
        kw['load'] = tuple(c['load']) if c.get('as_tuple') else list(c['load'])
    if c['colname'] is not None:
        kw['colname'] = c['colname']
    if TRI[c['lp']] is not None:
        kw['load_pos'] = TRI[c['lp']]
    if TRI[c['lv']] is not None:
        kw['load_vel'] = TRI[c['lv']]
    out = io.StringIO()
    with warnings.catch_warnings(record=True) as wl:
        warnings.simplefilter('always')
        try:
            with redirect_stdout(out):
                t = read_asdf(pf_.fn, dtype=DT[c['dtype']], verbose=bool(c.get('verbose')), **kw)
        except ValueError as e:
            msg = str(e)
            return {'err': 'more-than-one' if msg.startswith('More than one') else
                    ('none-found' if msg.startswith('Could not find') else 'ValueError:' + msg[:80])}
        except KeyError:
            return {'err': 'key-error'}
        except UnboundLocalError:
            return {'err': 'unbound-nread'}
    cats = [w.category for w in wl]
    warn = 'future' if FutureWarning in cats else ('ignored' if UserWarning in cats else 'none')
    return {'table': t, 'warn': warn, 'stdout': out.getvalue()}


def requested_set(ftype, c):
    """the columns the caller asked for, per the documented parameters (None = defaults for the file type)"""
    lp, lv = TRI[c['lp']], TRI[c['lv']]
    if c['load'] is not None:
        return set(c['load'])
    if lp is None and lv is None:
        return set(DEFAULT[ftype])
    req = set()
    if lp or (lp is None and lv is False):
        req.add('pos')
    if lv or (lv is None and lp is False):
        req.add('vel')
    return req


def check_call(ctx, pf_, c, mres):
    m = parse_model(mres)
    r = call_impl(pf_, c)
    nrec = max([len(v) for v in pf_.cols.values()] + [0])
    ctx.case(dict(file=pf_.tag, **c), nontrivial=nrec > 0)
    ctx.count('stream:' + c['stream'])
    known_present = [k for k in KNOWN if k in pf_.cols]
    # ------------------------------------------------------------------ model vs implementation
    if 'err' in r or 'err' in m:
        if r.get('err') != m.get('err'):
            ctx.disagree('read_asdf outcome', dict(file=pf_.tag, **c), m.get('err', 'ok'), r.get('err', 'ok'))
    else:
        t = r['table']
        obs = {'cols': list(t.colnames), 'rows': len(t), 'warn': r['warn'],
               'subsample': int('SubsampleFraction' in t.meta and 'SubsampleFraction' not in pf_.header)}
        mod = {k: m[k] for k in ('cols', 'rows', 'warn', 'subsample')}
        if obs != mod:
            ctx.disagree('read_asdf columns/rows/warning/meta', dict(file=pf_.tag, **c), mod, obs)
        elif 'values' in m:
            res = 'model columns have different lengths' if m['ragged'] else cmp_values(pf_, value_key(pf_, c), c, m['values'], t)
            if isinstance(res, str):
                ctx.disagree('read_asdf column values (model decoders of C04/C15 on the raw column)',
                             dict(file=pf_.tag, **c), res, 'see case')
            else:
                ctx.count('calls-with-values-compared')
                ctx.count('cells-compared', res)
    ctx.count('outcome:' + (r['err'] if 'err' in r else 'ok'))
    # ------------------------------------------------------------------ oracle: the property itself
    case = dict(file=pf_.tag, keys=sorted(pf_.cols), **c)
    if c['colname'] is None and len(known_present) != 1:
        want = 'none-found' if not known_present else 'more-than-one'
        if r.get('err') != want:
            ctx.fail('read_asdf: %d known raw columns and no colname must raise' % len(known_present), case,
                     r.get('err', 'returned a table'), want, key='read_asdf:detect')
        return
    key = c['colname'] if c['colname'] is not None else known_present[0]
    if key not in pf_.cols or key not in KNOWN:
        return      # a column that is not there / a non-standard name: the property says nothing
    req = requested_set(key, c)
    if not req <= set(LOADABLE[key]):
        ctx.count('outside-loadable')
        return      # outside the property's quantifier (only the correspondence above applies)
    ctx.count('oracle-checked')
    if 'err' in r:
        ctx.fail('read_asdf raised on a valid request', case, r['err'], 'a table', key='read_asdf:raised')
        return
    t = r['table']
    if set(t.colnames) != req or len(set(t.colnames)) != len(t.colnames):
        ctx.fail('read_asdf: table columns are not exactly the requested ones', case, list(t.colnames), sorted(req),
                 key='read_asdf:columns')
        return
    npart = pf_.nparts[key]
    if req and len(t) != npart:
        ctx.fail('read_asdf: not one row per particle', case, len(t), npart, key='read_asdf:rows')
        return
    hdr = dict(pf_.header)
    if hdr.get('OutputType') == 'LightCone' and hdr.get('SimSet') == 'AbacusSummit':
        hdr['SubsampleFraction'] = hdr['ParticleSubsampleA'] + hdr['ParticleSubsampleB']
    if dict(t.meta) != hdr:
        ctx.fail('read_asdf: table meta is not the file header', case, dict(t.meta), hdr, key='read_asdf:meta')
    ref = pf_.reference(key, c['dtype'])
    for col in t.colnames:
        a = np.asarray(t[col])
        b = ref[col]
        if col in FLOATCOLS and a.dtype != DT[c['dtype']]:
            ctx.fail('read_asdf: float column has the wrong dtype', case, str(a.dtype), c['dtype'], key='read_asdf:dtype')
        if a.shape != b.shape or a.dtype != b.dtype or a.tobytes() != np.ascontiguousarray(b).tobytes():
            ctx.fail('read_asdf: column %s differs from the direct decoding of the raw column' % col, case,
                     a[:3].tolist(), b[:3].tolist(), key='read_asdf:values')
    ctx.traces_validated += 1
    if c.get('verbose') and 'SubsampleFraction' in hdr and 'A and B subsamples' not in r['stdout']:
        ctx.count('verbose-message-missing')


# ----------------------------------------------------------------------------- case streams

def subsets(names):
    for k in range(len(names) + 1):
        for s in itertools.combinations(names, k):
            yield list(s)


def gen_main(ctx, files):
    """exhaustive: ftype x load x flags x dtype x header style"""
    rng = ctx.rng
    out = []
    for (ftype, style), pf_ in files.items():
        loads = [None] + list(subsets(LOADABLE[ftype]))
        for load in loads:
            for lp in 'NTF':
                for lv in 'NTF':
                    for dt in ('f4', 'f8'):
                        l = None if load is None else [load[i] for i in rng.permutation(len(load))]
                        out.append((pf_, dict(stream='main', colname=None, load=l, lp=lp, lv=lv, dtype=dt,
                                              as_tuple=bool(rng.integers(0, 2)))))
    return out


def gen_extra(ctx, xfiles):
    """non-loadable / unknown names, duplicates, other header styles, empty files, verbose"""
    out = []
    allnames = ['pos', 'vel', 'pid', 'lagr_pos', 'tagged', 'density', 'lagr_idx', 'aux']
    rng = ctx.rng
    for pf_ in xfiles:
        key = [k for k in KNOWN if k in pf_.cols][0]
        picks = [None, [], ['pos'], ['vel', 'pos'], ['pid'], ['aux'], ['pos', 'aux'], ['bogus'], ['pos', 'bogus', 'pid'],
                 ['pos', 'pos'], ['pid', 'pid', 'density'], allnames]
        for _ in range(ctx.pick(6, 40)):
            k = int(rng.integers(1, 9))
            picks.append([allnames[i] for i in rng.permutation(8)[:k]])
        for load in picks:
            for lp, lv in (('N', 'N'), ('T', 'N'), ('F', 'F')):
                out.append((pf_, dict(stream='extra:' + key, colname=None, load=load, lp=lp, lv=lv,
                                      dtype=str(rng.choice(['f4', 'f8'])), verbose=bool(rng.integers(0, 2)))))
    return out


def gen_errors(ctx, efiles):
    out = []
    for pf_ in efiles:
        for cn in [None] + KNOWN + ['foo', 'mypid']:
            for load in (None, ['pos'], ['pid']):
                out.append((pf_, dict(stream='detect', colname=cn, load=load, lp='N', lv='N', dtype='f4')))
        out.append((pf_, dict(stream='detect', colname=None, load=None, lp='T', lv='F', dtype='f8')))
    return out


def build_files(ctx):
    import partfiles as pf
    n = 14
    files, xfiles, efiles = {}, [], []
    for ftype in KNOWN:
        files[(ftype, 'snapshot')] = make_file(ctx, '%s_snap' % ftype, pf.snapshot_header(box=2000.0, ppd=48.0), [ftype], n)
        files[(ftype, 'lightcone')] = make_file(ctx, '%s_lc' % ftype, pf.lightcone_header(box=500.0, ppd=100.0), [ftype], n + 3)
        if not ctx.quick:   # the same exhaustive call space on larger files with other scales
            files[(ftype, 'snapshot-big')] = make_file(ctx, '%s_snap_big' % ftype, pf.snapshot_header(box=750.25, ppd=1000.0),
                                                       [ftype], 257)
            files[(ftype, 'lightcone-big')] = make_file(ctx, '%s_lc_big' % ftype, pf.lightcone_header(box=1.0, ppd=6912.0),
                                                        [ftype], 100)
        xfiles.append(make_file(ctx, '%s_lc_other' % ftype, pf.lightcone_header(box=123.5, ppd=17.0, simset='Other'), [ftype], 9))
        xfiles.append(make_file(ctx, '%s_empty' % ftype, pf.snapshot_header(), [ftype], 0))
        xfiles.append(make_file(ctx, '%s_one' % ftype, pf.snapshot_header(box=1000.1), [ftype], 1))
    # ppd that is not an integer: int(round(63.5)) = 64 (half to even), truncation would give 63
    xfiles.append(make_file(ctx, 'pid_halfppd', pf.snapshot_header(box=640.0, ppd=63.5), ['pid'], 7))
    xfiles.append(make_file(ctx, 'packedpid_ppd_up', pf.lightcone_header(box=100.0, ppd=16.75), ['packedpid'], 7))
    bare = pf.bare_header()
    xfiles.append(make_file(ctx, 'rvint_bare', bare, ['rvint'], 5))
    for r in range(5):
        for pres in itertools.combinations(KNOWN, r):
            name = 'keys_' + ('_'.join(pres) or 'none')
            efiles.append(make_file(ctx, name, pf.snapshot_header(), list(pres), 6, extra=['foo', 'mypid']))
    efiles.append(make_file(ctx, 'keys_nothing', pf.snapshot_header(), [], 0))
    return files, xfiles, efiles


def run_cases(ctx, cases):
    for i, (p, c) in enumerate(cases):
        c.setdefault('seq', i)
    outs = ctx.driver.query([model_line(p, c) for p, c in cases])
    for (p, c), mres in zip(cases, outs):
        check_call(ctx, p, c, mres)


def corpus_cases(ctx, files, xfiles, efiles):
    from vcommon import CORPUS
    allf = {p.tag: p for p in list(files.values()) + xfiles + efiles}
    out = []
    d = CORPUS / 'C16'
    if d.is_dir():
        for p in sorted(d.glob('*.json')):
            c = json.loads(p.read_text())
            f = allf.get(c.pop('file', None))
            c.pop('keys', None)
            if f is not None:
                out.append((f, c))
    return out


def asdf_fast():
    """schema validation of the (harness-written) files on every open costs 20 ms per call and is no part of the
    property: switch it off in this process"""
    import asdf
    asdf.get_config().validate_on_read = False


def run(ctx):
    asdf_fast()
    files, xfiles, efiles = build_files(ctx)
    cases = corpus_cases(ctx, files, xfiles, efiles)
    ctx.count('corpus', len(cases))
    cases += gen_main(ctx, files) + gen_extra(ctx, xfiles) + gen_errors(ctx, efiles)
    run_cases(ctx, cases)
    ctx.exhaustive = True
    ctx.extra['scope'] = ('4 file types x (None + all subsets of loadable columns) x 9 deprecated-flag pairs x 2 dtypes x '
                          '2 header styles (x 2 file sizes in the thorough tier); 16 presence patterns x 7 colnames')


def intensify(ctx):
    """more files (other sizes, boxes), same exhaustive call space"""
    import partfiles as pf
    asdf_fast()
    for rep in range(3):
        files = {}
        for ftype in KNOWN:
            n = int(ctx.rng.integers(1, 60))
            files[(ftype, 's%d' % rep)] = make_file(ctx, '%s_int%d' % (ftype, rep),
                                                    pf.lightcone_header(box=float(ctx.rng.choice([1.0, 750.0, 2000.0])),
                                                                        ppd=float(ctx.rng.choice([8, 64, 1000]))), [ftype], n)
        cases = gen_main(ctx, files)
        if ctx.driver.error:
            outs = ['err driver'] * len(cases)
        else:
            outs = ctx.driver.query([model_line(p, c) for p, c in cases])
        for (p, c), mres in zip(cases, outs):
            check_call(ctx, p, c, mres)


def replay(ctx, doc):
    c = dict(doc['failure']['case'] if 'failure' in doc else doc)
    asdf_fast()
    files, xfiles, efiles = build_files(ctx)
    allf = {p.tag: p for p in list(files.values()) + xfiles + efiles}
    f = allf.get(c.pop('file', None))
    c.pop('keys', None)
    if f is None:
        print('unknown file tag in the replay document')
        return
    mres = ctx.driver.query([model_line(f, c)])[0]
    print('model:', mres)
    check_call(ctx, f, c, mres)
