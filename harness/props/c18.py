"""C18 — every eigenvector code decodes to a distinct orthonormal triad (DESIGN.md §7 C18).

Tie to /repo:
  * translator  harness/extract/eulerconsts.py  -> lean/AbacusVerif/Generated/EulerConsts.lean
  * correspondence, exhaustive: the real `_unpack_euler16` (float64) on every valid code against the
    compiled model driver `drv_c18` (Model/C18.lean instantiated with `Float`), componentwise;
    and the real `CompaSOHaloCatalog._load_halo_field` -> `eigvecs_loader` route into float32 halo columns.
Oracle (a direct restatement of the property on the implementation's output, independent of the model):
  unit norms, mutual orthogonality, handedness middle = minor x major, pairwise distinctness.
Measurements reported as *tests* (not proved, labelled as such in ctx.extra): minimum separations,
covering radius of the decoded major axes up to sign on a spherical Fibonacci grid.
"""
import json
import math

import numpy as np

THEOREMS = [
    'AbacusVerif.Euler16.split_bijective',
    'AbacusVerif.Euler16.triad_orthonormal',
    'AbacusVerif.Euler16.decode_orthonormal',
    'AbacusVerif.Euler16.major_injective_in_cap',
    'AbacusVerif.Euler16.caps_disjoint',
    'AbacusVerif.Euler16.minor_injective',
    'AbacusVerif.Euler16.decode_injective',
    'AbacusVerif.Euler16.norm_cap_edge',
    'AbacusVerif.Euler16.coverage_partial',
    'AbacusVerif.Euler16.coverage',
    'AbacusVerif.Euler16.coverage_degrees',
    # the catalogue columns: decided over the loader table regenerated from /repo (symbolic execution of the closures)
    'AbacusVerif.EulerLoaders.eigvec_columns_are_decoded_axes',
    'AbacusVerif.EulerLoaders.eigvec_groups_are_own_triads',
    'AbacusVerif.EulerLoaders.only_eigvec_columns_use_euler',
]
DRIVER = 'drv_c18'
LEAN_MODULES = ['AbacusVerif.Props.C18', 'AbacusVerif.Props.C18Loaders']
RULE = ('exhaustive: every valid code 0 <= code < 12*TBIN^2*ABIN (= 65340) is decoded by the real '
        '_unpack_euler16 (uint16 input as stored in the catalogs) and by the model driver and compared '
        'componentwise; every code is also routed through _load_halo_field/eigvecs_loader into float32 '
        'columns for each of the six sigma{r,n,v}_eigenvecs*_{com,L2com} groups; every code counts as '
        'non-trivial; distinct = distinct code')
TRUSTED = [
    'harness/extract/eulerconsts.py reads EULER_ABIN/EULER_TBIN/EULER_NORM from the imported module',
    'IEEE double sqrt/cos/sin of numpy and of Lean `Float` (libm) agree to a few ulp; the model/implementation '
    'comparison uses an absolute bound of 1e-12 on components of unit vectors',
    'np.floor(np.sqrt(uint16)) (a float32 square root) is modelled by Nat.sqrt; checked on every code by the '
    'correspondence',
    'scipy.spatial.cKDTree for the nearest-neighbour (minimum separation) measurements',
]
ASSUMPTIONS = [
    'theorems are about the model over the real numbers (exact sqrt, cos, sin, pi); rounding of the float64 '
    'implementation is covered only by the exhaustive numerical oracle (1e-12) on all 65340 codes',
    'only valid codes (< 65340) are in scope; codes 65340..65535 decode to NaN in the implementation and '
    'are reported, not judged',
]

TOL_MODEL = 1e-12     # model (Lean Float) vs implementation (numpy float64), per component
TOL_F64 = 1e-12       # oracle on the float64 function
TOL_F32 = 1e-6        # oracle on float32 halo columns
COVER_FAIL_DEG = 4.5  # see run(): the coverage clause says "about 4 degrees"
GROUPS = [(rnv, com) for rnv in ('sigmar', 'sigman', 'sigmav') for com in ('_com', '_L2com')]


# --------------------------------------------------------------------------- translator

def extract(ctx):
    from extract import eulerconsts
    from vcommon import LEAN
    try:
        # Generated/Loaders.lean (shared with C02 / C05): the eigenvector loader entries are what
        # Props/C18Loaders.lean decides over
        from extract import loaders
        loaders.extract(ctx)
    except Exception as e:   # noqa: BLE001
        ctx.tie('loader-table', '%s: %s' % (type(e).__name__, str(e)[:300]))
    try:
        consts, changed = eulerconsts.generate(LEAN)
    except eulerconsts.ExtractError as e:
        ctx.tie('eulerconsts', str(e))
        return
    ctx.extra['generated'] = {'file': 'lean/AbacusVerif/Generated/EulerConsts.lean', 'rewritten': bool(changed),
                              'EULER_ABIN': consts['EULER_ABIN'], 'EULER_TBIN': consts['EULER_TBIN'],
                              'EULER_NORM': float(consts['EULER_NORM']).hex()}
    ncode = 12 * consts['EULER_TBIN'] ** 2 * consts['EULER_ABIN']
    if ncode > 65536:
        ctx.tie('eulerconsts', '12*TBIN^2*ABIN = %d does not fit the 16-bit code' % ncode)


def n_valid():
    from abacusnbody.data import compaso_halo_catalog as chc
    return 12 * chc.EULER_TBIN * chc.EULER_TBIN * chc.EULER_ABIN


# --------------------------------------------------------------------------- model side

def model_decode(ctx, codes):
    """-> (split int array (n,4), triad float64 array (n,3,3) in the order minor, middle, major)"""
    outs = ctx.driver.query(['decode %d' % int(c) for c in codes])
    n = len(codes)
    sp = np.zeros((n, 4), dtype=np.int64)
    bits = np.zeros((n, 9), dtype=np.uint64)
    for i, line in enumerate(outs):
        tk = line.split(' ')
        if tk[0] != 'ok' or len(tk) != 14:
            raise RuntimeError('driver answered %r for code %d' % (line, int(codes[i])))
        sp[i] = [int(x) for x in tk[1:5]]
        bits[i] = [int(x) for x in tk[5:14]]
    return sp, bits.view(np.float64).reshape(n, 3, 3)


# --------------------------------------------------------------------------- implementation side

def impl_decode(codes_u16):
    from abacusnbody.data import compaso_halo_catalog as chc
    with np.errstate(all='ignore'):
        minor, middle, major = chc._unpack_euler16(codes_u16)
    return minor, middle, major


def make_catalog_stub():
    """a CompaSOHaloCatalog whose loaders are the real ones, without reading any file"""
    from abacusnbody.data import compaso_halo_catalog as chc
    cat = object.__new__(chc.CompaSOHaloCatalog)
    cat.convert_units = False
    cat.header = {}
    cat._setup_halo_field_loaders()
    return cat, chc


def load_through_loader(cat, chc, rnv, com, codes_u16, which):
    """the real `_load_halo_field` filling float32 halo columns of dtype user_dt; `which` = columns present"""
    from astropy.table import Table
    n = len(codes_u16)
    halos = Table()
    for w in which:
        name = '%s_eigenvecs%s%s' % (rnv, w, com)
        halos[name] = np.full((n,) + chc.user_dt[name].shape, np.nan, dtype=chc.user_dt[name].base)
    raw = Table()
    raw['%s_eigenvecs%s_u16' % (rnv, com)] = codes_u16
    field = '%s_eigenvecs%s%s' % (rnv, which[0], com)
    cat._load_halo_field(halos, raw, field)
    return {w: np.asarray(halos['%s_eigenvecs%s%s' % (rnv, w, com)]) for w in which}


# --------------------------------------------------------------------------- oracle

def oracle_triads(ctx, codes, minor, middle, major, tol, label):
    """the property, restated on the implementation's output"""
    minor = np.asarray(minor, dtype=np.float64)
    middle = np.asarray(middle, dtype=np.float64)
    major = np.asarray(major, dtype=np.float64)
    checks = {
        '|minor|=1': np.abs(np.einsum('ij,ij->i', minor, minor) - 1),
        '|middle|=1': np.abs(np.einsum('ij,ij->i', middle, middle) - 1),
        '|major|=1': np.abs(np.einsum('ij,ij->i', major, major) - 1),
        'minor.major=0': np.abs(np.einsum('ij,ij->i', minor, major)),
        'minor.middle=0': np.abs(np.einsum('ij,ij->i', minor, middle)),
        'middle.major=0': np.abs(np.einsum('ij,ij->i', middle, major)),
        'middle=minor x major': np.max(np.abs(middle - np.cross(minor, major)), axis=1),
    }
    worst = {}
    for name, dev in checks.items():
        bad = ~(dev <= tol)          # NaN counts as a failure
        worst[name] = float(np.nanmax(dev)) if len(dev) else 0.0
        if bad.any():
            i = int(np.flatnonzero(bad)[0])
            ctx.fail('%s: decoded triad breaks %s' % (label, name),
                     {'code': int(codes[i]), 'route': label, 'n_bad': int(bad.sum())},
                     {'deviation': float(dev[i]), 'minor': minor[i].tolist(), 'middle': middle[i].tolist(),
                      'major': major[i].tolist()},
                     'deviation <= %g' % tol, key='euler16:%s' % name)
    return worst


def nearest_sep(points):
    """minimum distance between two distinct rows, and the pair"""
    from scipy.spatial import cKDTree
    tree = cKDTree(points)
    d, j = tree.query(points, k=2)
    i = int(np.argmin(d[:, 1]))
    other = int(j[i, 1]) if int(j[i, 1]) != i else int(j[i, 0])   # exact duplicates may come back in either order
    return float(d[i, 1]), i, other


def oracle_distinct(ctx, codes, minor, middle, major):
    n = len(codes)
    tri = np.concatenate([minor, middle, major], axis=1)
    if not np.isfinite(tri).all():
        return     # already reported by oracle_triads
    dmin, i, j = nearest_sep(tri)
    ctx.extra['TEST_min_separation_triads_9d'] = {'value': dmin, 'codes': [int(codes[i]), int(codes[j])]}
    if not dmin > 1e-6:
        ctx.fail('two distinct codes decode to the same triad', {'codes': [int(codes[i]), int(codes[j])]},
                 {'separation': dmin, 'triad_a': tri[i].tolist(), 'triad_b': tri[j].tolist()},
                 'distinct triads', key='euler16:distinct-triads')
    # major axes: as decoded directions (each shared by the ABIN codes that differ only in the azimuth)
    umaj, inv = np.unique(major, axis=0, return_inverse=True)
    inv = np.asarray(inv).reshape(-1)
    ctx.extra['TEST_distinct_major_axes'] = int(len(umaj))
    d2, a, b = nearest_sep(np.concatenate([umaj, -umaj], axis=0))
    ang = 2 * math.degrees(math.asin(min(1.0, d2 / 2)))
    ctx.extra['TEST_min_angle_between_distinct_major_axes_up_to_sign_deg'] = ang
    # codes sharing a major axis must have pairwise distinct minor axes
    order = np.argsort(inv, kind='stable')
    worst = np.inf
    worst_pair = None
    start = 0
    counts = np.bincount(inv)
    for k, cnt in enumerate(counts):
        idx = order[start:start + cnt]
        start += cnt
        if cnt > 1:
            mm = minor[idx]
            dd = np.linalg.norm(mm[:, None, :] - mm[None, :, :], axis=2)
            dd[np.arange(cnt), np.arange(cnt)] = np.inf
            p = np.unravel_index(np.argmin(dd), dd.shape)
            if dd[p] < worst:
                worst = float(dd[p])
                worst_pair = [int(codes[idx[p[0]]]), int(codes[idx[p[1]]])]
    ctx.extra['TEST_min_minor_separation_within_a_major'] = {'value': worst, 'codes': worst_pair}
    ctx.extra['TEST_codes_per_major_axis'] = {'min': int(counts.min()), 'max': int(counts.max())}
    if not worst > 1e-6:
        ctx.fail('two codes with the same major axis decode to the same minor axis', {'codes': worst_pair},
                 {'separation': worst}, 'distinct minor axes', key='euler16:distinct-minor')
    if n == n_valid() and len(umaj) * counts.max() != n:
        # fewer distinct majors than cells x caps means two cells collapsed onto one direction
        ctx.fail('distinct (cap, cell) pairs decode to the same major axis',
                 {'n_codes': n, 'distinct_majors': int(len(umaj)), 'max_codes_per_major': int(counts.max())},
                 int(len(umaj)), 'n_codes / ABIN distinct major axes', key='euler16:distinct-major')
    return umaj


def fibonacci_sphere(n):
    k = np.arange(n) + 0.5
    z = 1 - 2 * k / n
    phi = k * (math.pi * (3 - math.sqrt(5)))
    s = np.sqrt(np.maximum(0, 1 - z * z))
    return np.stack([s * np.cos(phi), s * np.sin(phi), z], axis=1)


def covering_radius(umaj, ngrid):
    """max over grid directions of the angle to the nearest decoded major axis, up to sign"""
    g = fibonacci_sphere(ngrid)
    g = g[g[:, 2] >= 0]            # up to sign: a hemisphere is enough
    best = np.zeros(len(g))
    mt = np.ascontiguousarray(umaj.T)
    for s in range(0, len(g), 8192):
        best[s:s + 8192] = np.max(np.abs(g[s:s + 8192] @ mt), axis=1)
    i = int(np.argmin(best))
    return math.degrees(math.acos(min(1.0, best[i]))), g[i].tolist(), len(g)


# --------------------------------------------------------------------------- run

def corpus_codes():
    from vcommon import CORPUS
    out = []
    d = CORPUS / 'C18'
    if d.is_dir():
        for p in sorted(d.glob('*.json')):
            out.extend(int(c) for c in json.loads(p.read_text())['codes'])
    return out


def compare_model_impl(ctx, codes, impl, model, tol, what):
    """componentwise; impl/model arrays of shape (n,3,3)"""
    diff = np.abs(impl - model)
    bad = ~(diff <= tol)
    if bad.any():
        rows = np.flatnonzero(bad.reshape(len(codes), -1).any(axis=1))
        for i in rows[:3]:
            ctx.disagree(what, {'code': int(codes[i]), 'n_codes_differing': int(len(rows))},
                         model[i].tolist(), impl[i].tolist())
        if len(rows) > 3:
            ctx.disagreements.extend({'what': what, 'case': {'code': int(codes[i])}, 'model': model[i].tolist(),
                                      'impl': impl[i].tolist()} for i in rows[3:20])
    return float(np.nanmax(diff)) if diff.size else 0.0


def run(ctx):
    from abacusnbody.data import compaso_halo_catalog as chc
    nv = n_valid()
    if nv > 65536:
        ctx.tie('constants', '12*TBIN^2*ABIN = %d exceeds the 16-bit code space' % nv)
        return

    # ---- corpus (boundary codes), run first
    cc = [c for c in corpus_codes() if c < nv]
    ctx.count('corpus', len(cc))
    if cc:
        ccu = np.array(cc, dtype=np.uint16)
        sp, mt = model_decode(ctx, ccu)
        mi, md, mj = impl_decode(ccu)
        compare_model_impl(ctx, ccu, np.stack([mi, md, mj], axis=1), mt, TOL_MODEL, '_unpack_euler16 vs model (corpus)')
        oracle_triads(ctx, ccu, mi, md, mj, TOL_F64, '_unpack_euler16[corpus]')

    # ---- exhaustive: all valid codes, float64 function
    codes = np.arange(nv, dtype=np.uint16)
    minor, middle, major = impl_decode(codes)
    for nm, a in (('minor', minor), ('middle', middle), ('major', major)):
        if a.dtype != np.float64 or a.shape != (nv, 3):
            ctx.tie('_unpack_euler16 return type', '%s: dtype %s shape %s' % (nm, a.dtype, a.shape))
            return
    sp, mtri = model_decode(ctx, codes)
    itri = np.stack([minor, middle, major], axis=1)
    maxdiff = compare_model_impl(ctx, codes, itri, mtri, TOL_MODEL, '_unpack_euler16 vs model')
    ctx.extra['max_abs_component_difference_model_vs_impl'] = maxdiff
    for c, s in zip(codes.tolist(), sp.tolist()):
        ctx.case({'code': c}, nontrivial=True)
    for k, v in zip(*np.unique(sp[:, 0], return_counts=True)):
        ctx.count('cap=%d' % k, int(v))
    for k, v in zip(*np.unique(sp[:, 1], return_counts=True)):
        ctx.count('it=%d' % k, int(v))
    ctx.count('ir=0', int((sp[:, 2] == 0).sum()))
    ctx.count('ir=2it', int((sp[:, 2] == 2 * sp[:, 1]).sum()))
    ctx.exhaustive = True

    # ---- oracle on the implementation's float64 output
    worst = oracle_triads(ctx, codes, minor, middle, major, TOL_F64, '_unpack_euler16')
    ctx.extra['worst_deviation_float64'] = worst
    umaj = oracle_distinct(ctx, codes, minor, middle, major)

    # ---- loader route: float32 halo columns, all six groups, rows permuted
    cat, chc_mod = make_catalog_stub()
    worst32 = {}
    maxdiff32 = 0.0
    for gi, (rnv, com) in enumerate(GROUPS):
        perm = ctx.rng.permutation(nv)
        pc = codes[perm]
        which_sets = [('Min', 'Mid', 'Maj')]
        # the loader fills only the columns that exist in the halo table; exercise the other subsets too
        which_sets.append([('Maj',), ('Mid', 'Min'), ('Min',), ('Maj', 'Min'), ('Mid',), ('Mid', 'Maj')][gi])
        for which in which_sets:
            sub = pc if len(which) == 3 else pc[:ctx.pick(4096, nv)]
            cols = load_through_loader(cat, chc_mod, rnv, com, sub, which)
            ctx.count('loader:%s%s:%s' % (rnv, com, '+'.join(which)), len(sub))
            ref = {'Min': 0, 'Mid': 1, 'Maj': 2}
            for w in which:
                col = cols[w]
                if col.dtype != np.float32 or col.shape != (len(sub), 3):
                    ctx.tie('halo column dtype', '%s%s %s: %s %s' % (rnv, com, w, col.dtype, col.shape))
                    continue
                # oracle (independent of the model): the column named w must hold axis w of the implementation's
                # own decode of the same codes, whatever subset of Min/Mid/Maj was requested
                impl_axis = (minor, middle, major)[ref[w]][perm[:len(sub)]].astype(np.float32)
                wrong = ~np.all(col == impl_axis, axis=1)
                if wrong.any():
                    i = int(np.flatnonzero(wrong)[0])
                    held = [n for n, a in (('Min', minor), ('Mid', middle), ('Maj', major))
                            if np.array_equal(col[i], a[perm[i]].astype(np.float32))]
                    ctx.fail('halo column %s_eigenvecs%s%s does not hold the decoded %s axis when %s is requested'
                             % (rnv, w, com, w, '+'.join(which)),
                             {'code': int(sub[i]), 'column': '%s_eigenvecs%s%s' % (rnv, w, com), 'requested': list(which),
                              'n_rows_wrong': int(wrong.sum())},
                             {'column_value': col[i].tolist(), 'holds_axis': held},
                             {'expected_axis_%s' % w: impl_axis[i].tolist()},
                             key='loader-column-axis:%s' % '+'.join(which))
                m32 = mtri[perm[:len(sub)], ref[w], :].astype(np.float32)
                d = np.abs(col.astype(np.float64) - m32.astype(np.float64))
                maxdiff32 = max(maxdiff32, float(np.nanmax(d)))
                bad = ~(d <= TOL_F32)
                if bad.any():
                    i = int(np.flatnonzero(bad.any(axis=1))[0])
                    ctx.disagree('halo column %s_eigenvecs%s%s vs model' % (rnv, w, com),
                                 {'code': int(sub[i]), 'row': i, 'n_rows_differing': int(bad.any(axis=1).sum())},
                                 m32[i].tolist(), col[i].tolist())
            if len(which) == 3:
                w32 = oracle_triads(ctx, sub, cols['Min'], cols['Mid'], cols['Maj'], TOL_F32,
                                    'halo columns %s_eigenvecs*%s' % (rnv, com))
                for k, v in w32.items():
                    worst32[k] = max(worst32.get(k, 0.0), v)
    ctx.extra['worst_deviation_float32_columns'] = worst32
    ctx.extra['max_abs_component_difference_model_vs_float32_columns'] = maxdiff32

    # ---- coverage clause: measured, reported as a test
    if umaj is not None:
        ngrid = ctx.pick(200_000, 2_000_000)
        rad, where, nhemi = covering_radius(umaj, ngrid)
        spacing = math.degrees(math.sqrt(4 * math.pi / ngrid))
        ctx.extra['TEST_covering_radius_major_axes_up_to_sign_deg'] = {
            'label': 'measurement on the implementation (a test, not a proof)',
            'value_deg': rad, 'at_direction': where, 'grid': 'spherical Fibonacci, %d points (%d on the hemisphere)' % (ngrid, nhemi),
            'grid_spacing_deg': spacing,
            'note': 'a lower bound of the true covering radius, short of it by at most about the grid spacing',
            'proved_upper_bound_deg': 'Lean theorem coverage: 1-(v.m)^2 <= 0.00665, i.e. <= 4.678 degrees (coverage_degrees: <= 4.7)',
            'asserted_threshold_deg': COVER_FAIL_DEG}
        if not rad <= COVER_FAIL_DEG:
            # "about 4 degrees": a grid direction further than 4.5 degrees from every decoded major axis
            # (up to sign) contradicts every reading of that figure; anything below is reported only
            ctx.fail('a direction is further than the cell size from every decoded major axis',
                     {'direction': where, 'grid_points': ngrid},
                     {'angle_to_nearest_major_axis_deg': rad}, 'at most about 4 degrees (asserted: <= %.1f)' % COVER_FAIL_DEG,
                     key='euler16:coverage')

    # ---- out of scope, reported only: the 16-bit values that are not valid codes
    if nv < 65536:
        inv = np.arange(nv, 65536, dtype=np.uint16)
        a, b, c = impl_decode(inv)
        allnan = bool(np.isnan(a).all() and np.isnan(b).all())
        ctx.extra['out_of_scope_invalid_codes'] = {
            'range': [nv, 65535], 'count': int(len(inv)),
            'implementation': 'minor and middle are NaN, major is zero' if allnan and not c.any() else 'mixed',
            'judged': False}


def intensify(ctx):
    """the run is already exhaustive over the code space; look at the same codes presented in the other
    integer dtypes a caller could hand to `_unpack_euler16` and at a tighter scan of every cap boundary"""
    nv = n_valid()
    for dt in (np.int64, np.int32, np.uint32):
        codes = np.arange(min(nv, 65536)).astype(dt)
        try:
            mi, md, mj = impl_decode(codes)
        except Exception as e:   # noqa: BLE001
            ctx.count('intensify:%s raised %s' % (np.dtype(dt).name, type(e).__name__))
            continue
        oracle_triads(ctx, codes, mi, md, mj, TOL_F64, '_unpack_euler16[%s]' % np.dtype(dt).name)
        oracle_distinct(ctx, codes, mi, md, mj)


def replay(ctx, doc):
    c = doc['failure']['case'] if 'failure' in doc else doc
    codes = c.get('codes') or [c['code']]
    cu = np.array(codes, dtype=np.uint16)
    sp, mt = model_decode(ctx, cu)
    mi, md, mj = impl_decode(cu)
    for k in range(len(cu)):
        print('code', int(cu[k]), 'split', sp[k].tolist())
        print(' model:', mt[k].tolist())
        print(' impl :', [mi[k].tolist(), md[k].tolist(), mj[k].tolist()])
    compare_model_impl(ctx, cu, np.stack([mi, md, mj], axis=1), mt, TOL_MODEL, '_unpack_euler16 vs model (replay)')
    oracle_triads(ctx, cu, mi, md, mj, TOL_F64, '_unpack_euler16')
    if len(cu) > 1:
        tri = np.concatenate([mi, md, mj], axis=1)
        for a in range(len(cu)):
            for b in range(a + 1, len(cu)):
                if cu[a] != cu[b] and not np.linalg.norm(tri[a] - tri[b]) > 1e-6:
                    ctx.fail('two distinct codes decode to the same triad', {'codes': [int(cu[a]), int(cu[b])]},
                             float(np.linalg.norm(tri[a] - tri[b])), 'distinct', key='euler16:distinct-triads')
