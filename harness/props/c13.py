"""C13 — the power-spectrum estimate has the symmetries of the estimator (DESIGN.md §7 C13).

Claimed *partial*: the theorems (Props/C13.lean) are about the exact-arithmetic estimator over the
complex numbers on the index set (ZMod n)^3; IEEE rounding and scipy's FFT are assumed.  This module
is the tie to /repo:

  stage-wise correspondence against the compiled model driver (`drv_c13`, Model/C13.lean, binary64)
    A  normalize_field / _normalize            exactly on dyadic data (+ a generic stream, 1 ulp)
    F  scipy.fft.rfftn                          vs the driver's defining finite sum (naive DFT)
    B  get_field_fft (interlaced or not, compensated or not, TSC/CIC) on meshes <= 6^3, starting from
       the real-space grids the real get_field returned for the same particles
    C  get_W_compensated                        vs the driver's window formulas
    R  get_raw_power                            vs |F|^2 / Re(conj F . G)
  metamorphic relations on the real calc_power (these relations *are* the property; they are the oracle)
    permutation of the particles, translation by whole cells with periodic wrap, nthread in {1,2,5,16},
    pos2 = pos (cross equals auto), and independence of N_mode / k and mu ranges / table shape from the
    particles.
"""
import os

os.environ['NUMBA_NUM_THREADS'] = '16'   # nthread=16 must be accepted by numba.set_num_threads; precedes numba import

import gc  # noqa: E402
import json  # noqa: E402
import warnings  # noqa: E402

import numpy as np  # noqa: E402

THEOREMS = [
    'AbacusVerif.Power.dft_shift',
    'AbacusVerif.Power.dft_const',
    'AbacusVerif.Power.dft_const_zero',
    'AbacusVerif.Power.dft_kernel_int',
    'AbacusVerif.Power.deposit_perm_invariant',
    'AbacusVerif.Power.fourierField_translate',
    'AbacusVerif.Power.power_translation_invariant',
    'AbacusVerif.Power.cross_power_translation_invariant',
    'AbacusVerif.Power.table_translation_invariant',
    'AbacusVerif.Power.power_perm_invariant',
    'AbacusVerif.Power.cross_eq_auto',
    'AbacusVerif.Power.cross_table_eq_auto',
    'AbacusVerif.Power.nmode_particle_free',
    'AbacusVerif.Power.thread_independent',
    'AbacusVerif.Power.codedPhase_unit',
    'AbacusVerif.Power.codedW_pos',
    'AbacusVerif.Power.calc_power_symmetries',
    # Props/C13Link.lean: the deposit hypotheses discharged from the C06 theorems
    'AbacusVerif.Power.c06Deposit_eq_scatter',
    'AbacusVerif.Power.c06_isDeposit',
    'AbacusVerif.Power.cubic_of_nonneg',
    'AbacusVerif.Power.calc_power_symmetries_c06',
    # Props/C13LinkC08.lean: the abstract Binning instantiated with the C08 model of bin_kmu
    'AbacusVerif.Power.binKmuR_eq_binning',
    'AbacusVerif.Power.nmode_particle_free_c08',
    'AbacusVerif.Power.table_translation_invariant_c08',
    'AbacusVerif.Power.calc_power_symmetries_c08',
    'AbacusVerif.Power.thread_independent_c08',
    'AbacusVerif.Power.dft3_conj_symm',
    'AbacusVerif.Power.autoPower_conj_symm',
    'AbacusVerif.Power.halfmesh_eq_fullmesh',
    'AbacusVerif.Power.c08_wsum_full_mesh',
    # Props/C13LinkAll.lean: C06 deposit + C08 binning, no hypothesis left
    'AbacusVerif.Power.calc_power_symmetries_c06_c08',
]
LEAN_MODULES = ['AbacusVerif.Props.C13', 'AbacusVerif.Props.C13Link', 'AbacusVerif.Props.C13LinkC08',
                'AbacusVerif.Props.C13LinkAll']
DRIVER = 'drv_c13'

# ---- stated bounds -------------------------------------------------------------------------------
# metamorphic relations (float32 pipeline end to end): |a - b| <= RTOL_META * scale, where scale is the
# largest magnitude in the column (for power/poles: at least the shot-noise level L^3 sum(w^2)/N^2, so a
# column that is identically ~0 is compared absolutely)
RTOL_META = 5e-5
# get_field_fft vs the binary64 naive-DFT pipeline fed with the same real-space grids:
RTOL_FFT32 = 5e-5          # complex64 pipeline (float32 grid, float32 phase/window); relative to max |F|
RTOL_FFT64 = 1e-12         # dtype=float64, not compensated
RTOL_FFT64_W = 2e-6        # dtype=float64, compensated (the window itself is float32 in the real code)
RTOL_OFFSET = 1e-4       # offset deposit vs deposit of displaced particles (float32 positions), of max|grid|
ATOL_W = 2e-6              # get_W_compensated (float32 wavenumbers), W <= 1
RTOL_RFFTN = 1e-12         # scipy rfftn (binary64) vs defining sum (binary64), relative to max |F|

RULE = ('stage-wise: normalize_field/_normalize on dyadic grids (exact) and generic grids (1 ulp), scipy rfftn vs '
        'the defining sum, get_field_fft vs the model pipeline for meshes 2..6 x TSC/CIC x interlaced x compensated x '
        'float32/float64, get_W_compensated for every nmesh 1..16; metamorphic: random configurations '
        '(nmesh 4..16 x TSC/CIC x compensated x interlaced x lin/log k bins x mu bins x pole subsets x weights) with '
        'particles on a dyadic lattice (1/64 cell, box = nmesh * 2^j) so that a whole-cell translation is exact in '
        'float32; a configuration is non-trivial when it has >= 2 particles, a non-identity permutation and a '
        'non-zero shift; distinct = distinct (configuration, particle set)')
TRUSTED = [
    'float32/float64 rounding inside numba (fastmath) and scipy.fft.rfftn: compared under the stated bounds '
    '(RTOL_META=5e-5 of the column scale for calc_power outputs; 5e-5 / 1e-12 / 2e-6 of max|F| for get_field_fft)',
    'scipy.fft.rfftn computes the DFT (spot-checked on every run against the defining finite sum on meshes <= 6^3)',
    'the deposit (tsc_parallel / cic_serial) is additive over particles and roll-equivariant: hypotheses '
    '(IsDeposit) of the general theorems, discharged in Props/C13Link.lean from the C06 theorems '
    '(deposit_superposition, roll_equivariant) for cubic meshes with n >= 2; the C06 model is tied to the code '
    'by the C06 check',
    'the (k, mu) binning: the abstract Binning of the general theorems is instantiated with the C08 model of bin_kmu '
    '(Props/C13LinkC08.lean: half-mesh modes, Hermitian multiplicity, clsKmu on the squared edges); the real-valued '
    'per-mode power is accumulated over the contribution lists of C08\'s model of the loops; C08\'s model is tied to '
    'the code by the C08 check',
]
ASSUMPTIONS = [
    'exact-arithmetic model over the complex numbers: the theorems say the estimator has the symmetries; the '
    'correspondence says the code computes that estimator on the explored inputs and has the symmetries to rounding',
    'numba.prange reductions in bin_kmu use per-thread accumulators (get_thread_id) summed afterwards',
]

SUB = 64          # particle lattice: multiples of 1/64 of a cell
EXACT_COLS = ('k_min', 'k_max', 'k_mid', 'N_mode', 'N_mode_poles', 'mu_min', 'mu_max', 'mu_mid')
APPROX_COLS = ('power', 'poles', 'k_avg')
THREADS = (2, 5, 16)


# --------------------------------------------------------------------------- driver encoding

def enc(arr):
    a = np.ascontiguousarray(np.asarray(arr, dtype=np.float64)).ravel()
    if a.size == 0:
        return '-'
    return ','.join(map(str, a.view(np.uint64).tolist()))


def enc_c(arr):
    a = np.ascontiguousarray(np.asarray(arr, dtype=np.complex128)).ravel()
    return enc(a.view(np.float64))


def dec(s):
    if s in ('-', ''):
        return np.zeros(0)
    if not (s[0].isdigit()):
        raise ValueError('driver said: ' + s[:80])
    return np.array([int(t) for t in s.split(',')], dtype=np.uint64).view(np.float64)


def dec_c(s):
    v = dec(s)
    return v[0::2] + 1j * v[1::2]


def quiet(fn, *a, **k):
    with warnings.catch_warnings():
        warnings.simplefilter('ignore')
        return fn(*a, **k)


# --------------------------------------------------------------------------- stage A: normalisations

def stage_normalize(ctx, ps):
    rng = ctx.rng
    reqs, metas = [], []
    ntrial = ctx.pick(24, 160)
    for t in range(ntrial):
        n = int(rng.integers(2, 7))
        size = n ** 3
        dt = np.float32 if (t % 3 or ctx.quick) else np.float64   # float64 specialisations: thorough tier only
        dyadic = t % 4 != 3
        mode = ('tot', 'sum')[int(rng.integers(0, 2))]
        inplace = bool(rng.integers(0, 2))
        nthread = int(rng.choice([1, 3]))
        if dyadic:
            m = int(rng.integers(-2, 3))
            vals = rng.integers(0, 64, size).astype(np.float64) / 16
            tot = size * 2.0 ** m
            if mode == 'sum':
                vals[-1] = tot - vals[:-1].sum()
            else:
                if tot != int(tot):
                    tot, m = float(size), 0
        else:
            vals = rng.random(size) * 3
            tot = float(rng.integers(1, 500)) if mode == 'tot' else None
        field = vals.astype(dt).reshape(n, n, n)
        before = field.copy()
        if mode == 'tot':
            tw = int(tot)            # get_field passes len(pos): a Python int
            out = ps.normalize_field(field, tot_weight=tw, inplace=inplace, nthread=nthread)
            norm = dt(size / tw)
        else:
            out = ps.normalize_field(field, inplace=inplace, nthread=nthread)
            norm = dt(size / before.sum(dtype=np.float64)) if dyadic else dt(size / before.sum())
        case = dict(stage='normalize_field', n=n, dtype=dt.__name__, dyadic=dyadic, mode=mode, inplace=inplace,
                    nthread=nthread, norm=float(norm))
        reqs.append('normfield %s %s' % (enc([norm]), enc(before)))
        metas.append((case, before, field, out, dt, dyadic, inplace, norm))
    outs = ctx.driver.query(reqs)
    for (case, before, field, out, dt, dyadic, inplace, norm), line in zip(metas, outs):
        model = dec(line).reshape(before.shape)
        ctx.case(case, nontrivial=True)
        ctx.count('A:normalize_field:' + ('dyadic' if dyadic else 'generic'))
        if out.dtype != dt or out.shape != before.shape:
            ctx.disagree('normalize_field dtype/shape', case, [str(dt), before.shape], [str(out.dtype), out.shape])
            continue
        if inplace and not np.array_equal(field, out):
            ctx.disagree('normalize_field(inplace=True) did not normalise its argument', case, None, None)
        if not inplace and not np.array_equal(field, before):
            ctx.disagree('normalize_field(inplace=False) modified its argument', case, None, None)
        if dyadic:
            ok = np.array_equal(model, out.astype(np.float64))
        else:
            # one rounding (fused) or two (product, then difference): within one ulp of the larger operand;
            # in 'sum' mode the float32 reduction order of field.sum() adds a relative 1e-5 on the norm
            prod = np.abs(before.astype(np.float64) * float(norm))
            ulp = 2.0 ** (-23 if dt is np.float32 else -52)
            slack = (1e-5 if dt is np.float32 else 1e-13) * prod if case['mode'] == 'sum' else 0
            ok = bool(np.all(np.abs(model - out.astype(np.float64)) <= 2 * ulp * np.maximum(1.0, prod) + slack))
        if not ok:
            k = int(np.argmax(np.abs(model - out.astype(np.float64))))
            ctx.disagree('normalize_field value', dict(case, cell=k, x=float(before.ravel()[k])),
                         float(model.ravel()[k]), float(out.ravel()[k]))
    # _normalize (complex field times a real scalar)
    reqs, metas = [], []
    for t in range(ctx.pick(12, 80)):
        n = int(rng.integers(2, 7))
        shape = (n, n, n // 2 + 1)
        cdt, fdt = (np.complex64, np.float32) if (t % 3 or ctx.quick) else (np.complex128, np.float64)
        dyadic = t % 2 == 0
        if dyadic:
            z = (rng.integers(-64, 64, shape) + 1j * rng.integers(-64, 64, shape)) / 8
            a = fdt(2.0 ** int(rng.integers(-8, 3)))
        else:
            z = rng.standard_normal(shape) + 1j * rng.standard_normal(shape)
            a = fdt(1 / n ** 3)
        field = z.astype(cdt)
        before = field.copy()
        nthread = int(rng.choice([1, 3]))
        ps._normalize(field, a, nthread=nthread)
        case = dict(stage='_normalize', n=n, dtype=cdt.__name__, dyadic=dyadic, a=float(a), nthread=nthread)
        reqs.append('scale %s %s' % (enc([a]), enc_c(before)))
        metas.append((case, field, cdt))
    outs = ctx.driver.query(reqs)
    for (case, field, cdt), line in zip(metas, outs):
        model = dec_c(line).reshape(field.shape)
        ctx.case(case, nontrivial=True)
        ctx.count('A:_normalize')
        # a float32 product computed in binary64 is exact, so rounding the model to the field dtype is
        # the correctly rounded product the real code must produce
        if not np.array_equal(model.astype(cdt), field):
            k = int(np.argmax(np.abs(model.astype(cdt) - field)))
            ctx.disagree('_normalize value', dict(case, cell=k), str(model.ravel()[k]), str(field.ravel()[k]))


# --------------------------------------------------------------------------- stage F: rfftn is the DFT

def stage_rfftn(ctx):
    from scipy.fft import rfftn
    rng = ctx.rng
    reqs, metas = [], []
    for n in range(1, 7):
        for rep in range(ctx.pick(1, 4)):
            g = rng.standard_normal((n, n, n))
            if rep == 1:
                g = np.zeros((n, n, n))
                g[tuple(rng.integers(0, n, 3))] = 1.0        # a delta: every mode is a pure phase
            reqs.append('rfftn %d %s' % (n, enc(g)))
            metas.append((n, g))
    outs = ctx.driver.query(reqs)
    for (n, g), line in zip(metas, outs):
        M = dec_c(line).reshape(n, n, n // 2 + 1)
        F = rfftn(g)
        case = dict(stage='rfftn', n=n)
        ctx.case(case, nontrivial=n > 1, key=dict(case, h=float(g.sum())))
        ctx.count('F:rfftn')
        scale = max(np.abs(M).max(), 1e-300)
        if F.shape != M.shape or np.abs(F - M).max() > RTOL_RFFTN * scale * n:
            ctx.disagree('scipy.fft.rfftn is not the defining sum', case, 'max|M|=%g' % scale,
                         'max diff %g' % np.abs(F - M).max())


# --------------------------------------------------------------------------- stage B: get_field_fft

def stage_fieldfft(ctx, ps):
    rng = ctx.rng
    reqs, metas = [], []
    ntrial = ctx.pick(32, 320)
    for t in range(ntrial):
        n = int(rng.integers(2, 7))
        paste = ('TSC', 'CIC')[t % 2]
        interlaced = bool((t // 2) % 2)
        compensated = bool((t // 4) % 2)
        # the interlaced path is float32 only; float64 specialisations cost ~30 s of compilation: thorough only
        f64 = (not interlaced) and bool((t // 8) % 2) and not ctx.quick
        dt = np.float64 if f64 else np.float32
        dyadic_box = bool(rng.integers(0, 2))
        L = float(n * 2.0 ** int(rng.integers(-1, 4))) if dyadic_box else float(np.float32(rng.uniform(5, 500)))
        N = int(rng.choice([1, 2, 7, 40]))
        pos = (rng.random((N, 3)) * L).astype(np.float32)
        pos[pos >= np.float32(L)] = 0.0
        if t % 5 == 0:       # on cell centres / cell edges / the origin
            pos = (rng.integers(0, 2 * n, (N, 3)) * (L / (2 * n))).astype(np.float32)
            pos[pos >= np.float32(L)] = 0.0
        w = None if rng.integers(0, 2) else (rng.integers(1, 17, N) / 4).astype(np.float32)
        nthread = int(rng.choice([1, 2, 16]))
        case = dict(stage='get_field_fft', n=n, L=L, paste=paste, interlaced=interlaced, compensated=compensated,
                    dtype=dt.__name__, N=N, weighted=w is not None, nthread=nthread,
                    pos=pos.tolist() if N <= 7 else None, w=None if w is None else w.tolist())
        cp = (lambda a: None if a is None else a.copy())
        try:
            if interlaced:
                # exactly the two calls get_interlaced_field_fft is documented to make
                g = quiet(ps.get_field, pos.copy(), L, n, paste, cp(w))
                gs = quiet(ps.get_field, pos.copy(), L, n, paste, cp(w), d=0.5 * (L / n))
                # ... and the second one must be the field of the same particles displaced by half a cell
                # (this is what makes it roll-equivariant): deposit the displaced, re-wrapped particles with d = 0
                p2 = pos + np.float32(0.5 * (L / n))
                p2 = np.where(p2 >= np.float32(L), p2 - np.float32(L), p2).astype(np.float32)
                gref = quiet(ps.get_field, p2, L, n, paste, cp(w))
                ctx.count('B:offset-field-is-displaced-field')
                odev = float(np.abs(gref.astype(np.float64) - gs).max() / max(np.abs(gs).max(), 1.0))
                wo = ctx.extra.setdefault('observed_max_rel_dev', {})
                wo['B:offset'] = max(wo.get('B:offset', 0.0), odev)
                if not odev <= RTOL_OFFSET:
                    ctx.disagree('get_field(d = half a cell) is not the field of the particles displaced by half a cell',
                                 case, 'max %g' % np.abs(gref).max(), 'max diff %g' % np.abs(gref.astype(np.float64) - gs).max())
            else:
                g = quiet(ps.get_field, pos.copy(), L, n, paste, cp(w), nthread=nthread, dtype=dt)
                gs = np.zeros(0)
            W = ps.get_W_compensated(L, n, paste, interlaced) if compensated else None
            F = quiet(ps.get_field_fft, pos.copy(), L, n, paste, cp(w), W, compensated, interlaced,
                      nthread=nthread, dtype=dt)
        except Exception as e:    # the real code rejected a well-formed request
            ctx.disagree('get_field_fft raised', case, 'ok', repr(e)[:300])
            continue
        reqs.append('fieldfft %d %s %s %d %d %s %s' % (n, enc([L]), paste, interlaced, compensated, enc(g), enc(gs)))
        metas.append((case, F, g, f64))
    outs = ctx.driver.query(reqs)
    worst = ctx.extra.setdefault('observed_max_rel_dev', {})
    for (case, F, g, f64), line in zip(metas, outs):
        n = case['n']
        ctx.case(case, nontrivial=case['N'] >= 2 and n >= 3)
        ctx.count('B:get_field_fft:%s:%s%s' % (case['paste'], 'I' if case['interlaced'] else '-',
                                               'C' if case['compensated'] else '-'))
        try:
            M = dec_c(line).reshape(n, n, n // 2 + 1)
        except ValueError as e:
            ctx.disagree('model rejected get_field_fft request', case, str(e), 'shape %s' % (F.shape,))
            continue
        want_dt = np.complex128 if f64 else np.complex64
        if F.shape != M.shape or F.dtype != want_dt:
            ctx.disagree('get_field_fft shape/dtype', case, [M.shape, str(want_dt)], [F.shape, str(F.dtype)])
            continue
        tol = (RTOL_FFT64_W if case['compensated'] else RTOL_FFT64) if f64 else RTOL_FFT32
        # scale: the largest mode, but at least the rounding floor of the grid that was transformed
        scale = max(np.abs(M).max(), np.abs(g).max() / n ** 1.5 if g.size else 0, 1e-30)
        dev = float(np.abs(F.astype(np.complex128) - M).max() / scale)
        lab = 'B:%s' % ('f64' + ('W' if case['compensated'] else '') if f64 else 'f32')
        worst[lab] = max(worst.get(lab, 0.0), dev)
        if not (dev <= tol):
            k = int(np.argmax(np.abs(F.astype(np.complex128) - M)))
            ctx.disagree('get_field_fft differs from the model pipeline', dict(case, mode=k, rel_dev=dev, bound=tol),
                         str(M.ravel()[k]), str(F.ravel()[k]))


# --------------------------------------------------------------------------- stage C: window

def stage_window(ctx, ps):
    rng = ctx.rng
    reqs, metas = [], []
    for n in range(1, ctx.pick(17, 41)):
        for paste in ('TSC', 'CIC'):
            for interlaced in (False, True):
                for L in (float(n), 1000.0, float(np.float32(rng.uniform(1, 3000)))):
                    reqs.append('W %s %d %s %d' % (enc([L]), n, paste, interlaced))
                    metas.append(dict(stage='get_W_compensated', n=n, paste=paste, interlaced=interlaced, L=L))
    outs = ctx.driver.query(reqs)
    for case, line in zip(metas, outs):
        M = dec(line)
        W = ps.get_W_compensated(case['L'], case['n'], case['paste'], case['interlaced'])
        ctx.case(case, nontrivial=case['n'] >= 2)
        ctx.count('C:get_W_compensated')
        if W.shape != M.shape or not np.all(np.abs(W.astype(np.float64) - M) <= ATOL_W):
            ctx.disagree('get_W_compensated', case, M.tolist(), np.asarray(W).tolist())
    try:
        ps.get_W_compensated(100.0, 8, 'NGP', True)
        ctx.disagree('get_W_compensated accepted an unknown pasting method', dict(paste='NGP'), 'rejected', 'ok')
    except ValueError:
        ctx.count('C:unknown-paste-rejected')


# --------------------------------------------------------------------------- stage R: raw power

def stage_rawpower(ctx, ps):
    rng = ctx.rng
    reqs, metas = [], []
    for t in range(ctx.pick(8, 40)):
        n = int(rng.integers(2, 7))
        shape = (n, n, n // 2 + 1)
        cdt = np.complex64 if (t % 2 or ctx.quick) else np.complex128
        a = (rng.standard_normal(shape) + 1j * rng.standard_normal(shape)).astype(cdt)
        b = (rng.standard_normal(shape) + 1j * rng.standard_normal(shape)).astype(cdt)
        kind = ('auto', 'cross', 'self')[t % 3]
        second = None if kind == 'auto' else (b if kind == 'cross' else a.copy())
        P = ps.get_raw_power(a, second)
        reqs.append('rawpower %s %s' % (enc_c(a), '-' if second is None else enc_c(second)))
        metas.append((dict(stage='get_raw_power', n=n, dtype=cdt.__name__, kind=kind), P, a, second))
    outs = ctx.driver.query(reqs)
    for (case, P, a, second), line in zip(metas, outs):
        M = dec(line).reshape(a.shape)
        ctx.case(case, nontrivial=True, key=dict(case, h=float(np.abs(a).sum())))
        ctx.count('R:get_raw_power:' + case['kind'])
        eps = 2.0 ** (-22 if a.dtype == np.complex64 else -51)
        mag = np.abs(a.astype(np.complex128)) * np.abs((a if second is None else second).astype(np.complex128))
        if P.shape != a.shape or np.iscomplexobj(P) or not np.all(np.abs(P - M) <= 4 * eps * mag + 1e-300):
            ctx.disagree('get_raw_power', case, 'max %g' % np.abs(M).max(), 'max diff %g' % np.abs(P - M).max())


# --------------------------------------------------------------------------- metamorphic relations

POLE_SETS = (None, [], [0], [2], [4], [0, 2], [0, 4], [2, 4], [0, 2, 4])


def gen_lattice(rng, n, N, kind):
    """integer lattice coordinates in [0, n*SUB)^3"""
    M = n * SUB
    if kind == 'uniform':
        I = rng.integers(0, M, (N, 3))
    elif kind == 'clumps':
        nc = int(rng.integers(1, 4))
        c = rng.integers(0, M, (nc, 3))
        I = (c[rng.integers(0, nc, N)] + np.rint(rng.standard_normal((N, 3)) * SUB * 0.8).astype(np.int64)) % M
    elif kind == 'edges':      # cell centres, half-cell edges (rounding ties), the origin, the last lattice point
        I = rng.integers(0, 2 * n, (N, 3)) * (SUB // 2)
        I[rng.random((N, 3)) < 0.1] = M - 1
        I[rng.random((N, 3)) < 0.1] = 0
    else:
        raise ValueError(kind)
    return I.astype(np.int64)


def gen_case(rng, force=None):
    n = int(rng.integers(4, 17))
    cfg = dict(
        nmesh=n,
        paste=('TSC', 'CIC')[int(rng.integers(0, 2))],
        compensated=bool(rng.integers(0, 2)),
        interlaced=bool(rng.integers(0, 2)),
        logk=bool(rng.integers(0, 2)),
        kbins=[None, int(rng.integers(1, n + 1)), int(rng.integers(1, 6))][int(rng.integers(0, 3))],
        mubins=[None, 1, 2, 3, 4][int(rng.integers(0, 5))],
        poles=POLE_SETS[int(rng.integers(0, len(POLE_SETS)))],
        kmax_fac=[None, 0.75, 1.0, 1.5][int(rng.integers(0, 4))],
        squeeze=bool(rng.integers(0, 4) != 0),
        cellexp=int(rng.integers(-1, 4)),
    )
    if force:
        cfg.update(force)
        n = cfg['nmesh']
    N = int(rng.choice([1, 2, 3, 5, 17, 64, 200]))
    NB = int(rng.choice([1, 4, 33, 150]))
    kind = ('uniform', 'clumps', 'edges')[int(rng.integers(0, 3))]
    weighted = bool(rng.integers(0, 3) == 0)
    case = dict(cfg=cfg, kind=kind,
                I=gen_lattice(rng, n, N, kind).tolist(),
                IB=gen_lattice(rng, n, NB, 'uniform').tolist(),
                w4=[int(v) for v in rng.integers(1, 17, N)] if weighted else None,
                wB4=[int(v) for v in rng.integers(1, 17, NB)] if weighted else None,
                perm=[int(v) for v in rng.permutation(N)],
                shift=[int(v) for v in rng.integers(0, n, 3)],
                do_cross=bool(rng.integers(0, 3) == 0))
    if N >= 2 and case['shift'] == [0, 0, 0]:
        case['shift'] = [1, 0, n - 1]
    return case


def positions(case, I):
    cell = 2.0 ** case['cfg']['cellexp']
    p = (np.asarray(I, dtype=np.int64).reshape(-1, 3) * (cell / SUB)).astype(np.float32)
    # exactness of the lattice in float32 is what makes the translation exact
    assert np.array_equal(p.astype(np.float64) * (SUB / cell), np.asarray(I, dtype=np.float64).reshape(-1, 3))
    return p


def weights(w4):
    return None if w4 is None else (np.asarray(w4, dtype=np.float64) / 4).astype(np.float32)


def call_power(ps, case, I, w4, nthread, I2=None, w24=None, same_object=False):
    cfg = case['cfg']
    n = cfg['nmesh']
    L = float(n * 2.0 ** cfg['cellexp'])
    kw = dict(kbins=cfg['kbins'], mubins=cfg['mubins'], logk=cfg['logk'], paste=cfg['paste'], nmesh=n,
              compensated=cfg['compensated'], interlaced=cfg['interlaced'], poles=cfg['poles'],
              squeeze_mu_axis=cfg['squeeze'], nthread=nthread, w=weights(w4))
    if cfg['kmax_fac'] is not None:
        kw['k_max'] = cfg['kmax_fac'] * np.pi * n / L
    if I2 is not None:
        kw['pos2'] = positions(case, I2)
        kw['w2'] = weights(w24)
    pos = positions(case, I)
    if same_object:
        # the most natural way to ask for "the same particles as the second field": the very same arrays
        kw['pos2'] = pos
        kw['w2'] = kw['w']
    with warnings.catch_warnings():
        warnings.simplefilter('ignore')
        return ps.calc_power(pos, L, **kw)


def table_cols(t):
    return {c: np.asarray(t[c]) for c in t.colnames}


def shot_scale(case, w4, N):
    cfg = case['cfg']
    L = float(cfg['nmesh'] * 2.0 ** cfg['cellexp'])
    w = np.ones(N) if w4 is None else np.asarray(w4, dtype=np.float64) / 4
    return L ** 3 * float((w ** 2).sum()) / N ** 2


def compare(a, b, shot, approx=True):
    """list of (column, what, observed, expected) where table b differs from table a"""
    A, B = table_cols(a), table_cols(b)
    bad = []
    if list(A) != list(B):
        return [('<columns>', 'column names', list(B), list(A))]
    if len(a) != len(b):
        return [('<rows>', 'number of rows', len(b), len(a))]
    dev = {}
    for c in A:
        if A[c].shape != B[c].shape or A[c].dtype != B[c].dtype:
            bad.append((c, 'shape/dtype', [B[c].shape, str(B[c].dtype)], [A[c].shape, str(A[c].dtype)]))
            continue
        if c in EXACT_COLS:
            if not np.array_equal(A[c], B[c]):
                bad.append((c, 'must be exactly equal', B[c].tolist(), A[c].tolist()))
        elif c in APPROX_COLS:
            if not approx:
                continue
            x, y = A[c].astype(np.float64), B[c].astype(np.float64)
            if not (np.all(np.isfinite(x)) and np.all(np.isfinite(y))):
                if not np.array_equal(np.isfinite(x), np.isfinite(y)):
                    bad.append((c, 'non-finite entries differ', y.tolist(), x.tolist()))
                continue
            scale = max(float(np.abs(x).max()) if x.size else 0.0, shot if c != 'k_avg' else 0.0)
            d = float(np.abs(x - y).max()) if x.size else 0.0
            if scale > 0:
                dev[c] = d / scale
            if d > RTOL_META * scale:
                bad.append((c, 'differs by %.3g of the column scale %.6g (bound %.0e)' % (d / scale if scale else np.inf, scale, RTOL_META),
                            y.tolist(), x.tolist()))
        else:
            bad.append((c, 'unexpected column', None, None))
    compare.last_dev = dev
    return bad


compare.last_dev = {}


def check_case(ctx, ps, case):
    cfg = case['cfg']
    n = cfg['nmesh']
    I = np.asarray(case['I'], dtype=np.int64).reshape(-1, 3)
    IB = np.asarray(case['IB'], dtype=np.int64).reshape(-1, 3)
    N = len(I)
    w4, wB4 = case['w4'], case['wB4']
    perm = np.asarray(case['perm'], dtype=np.int64)
    s = np.asarray(case['shift'], dtype=np.int64)
    M = n * SUB
    shot = shot_scale(case, w4, N)
    worst = ctx.extra.setdefault('observed_max_rel_dev', {})
    brief = dict(cfg=cfg, kind=case['kind'], N=N, shift=case['shift'], weighted=w4 is not None)

    def report(rel, key, got):
        for (col, what, obs, exp) in got[:3]:
            ctx.fail('calc_power %s: column %s %s' % (rel, col, what), case, obs, exp, key=key)

    def track(rel):
        for c, d in compare.last_dev.items():
            worst['%s:%s' % (rel, c)] = max(worst.get('%s:%s' % (rel, c), 0.0), d)

    base = call_power(ps, case, I, w4, 1)
    ncol = len(base.colnames)
    # table shape as documented
    nk = len(base)
    exp_cols = ['k_min', 'k_max', 'k_mid', 'k_avg', 'power', 'N_mode']
    if cfg['poles']:
        exp_cols += ['poles', 'N_mode_poles']
    if cfg['mubins'] is not None:
        exp_cols += ['mu_min', 'mu_max', 'mu_mid']
    nk_exp = cfg['kbins'] if cfg['kbins'] is not None else n
    if base.colnames != exp_cols or nk != nk_exp:
        ctx.fail('calc_power table layout', case, [base.colnames, nk], [exp_cols, nk_exp], key='c13:layout')

    # 1. permutation of the particles (weights travel with their particle)
    Ip = I[perm]
    wp = None if w4 is None else [w4[i] for i in perm]
    r = compare(base, call_power(ps, case, Ip, wp, 1), shot)
    track('perm')
    report('changes under a permutation of the particles', 'c13:perm', r)
    ctx.count('rel:perm')

    # 2. translation by whole cells with periodic wrap (exact on the lattice)
    It = (I + s * SUB) % M
    r = compare(base, call_power(ps, case, It, w4, 1), shot)
    track('translate')
    report('changes under a whole-cell translation %s' % case['shift'], 'c13:translate', r)
    ctx.count('rel:translate')

    # 3. thread count
    for nt in THREADS:
        r = compare(base, call_power(ps, case, I, w4, nt), shot)
        track('nthread')
        report('depends on nthread (1 vs %d)' % nt, 'c13:nthread', r)
        ctx.count('rel:nthread=%d' % nt)

    # 3b. all three at once
    r = compare(base, call_power(ps, case, It[perm], wp, 5), shot)
    track('combined')
    report('changes under permutation + translation + nthread=5', 'c13:combined', r)
    ctx.count('rel:combined')

    # 4. cross power of a field with itself equals the auto power
    r = compare(base, call_power(ps, case, I, w4, 1, I2=I.copy(), w24=w4), shot)
    track('cross=auto')
    report('with pos2 = pos differs from the auto power', 'c13:cross-auto', r)
    ctx.count('rel:cross=auto')
    r = compare(base, call_power(ps, case, I, w4, 1, same_object=True), shot)
    track('cross=auto(same array)')
    report('with pos2 being the same array object as pos differs from the auto power', 'c13:cross-auto-same-object', r)
    ctx.count('rel:cross=auto(same array)')

    # 5. mode counts, k and mu ranges, table shape do not depend on the particles
    other = call_power(ps, case, IB, wB4, 1)
    r = compare(base, other, shot, approx=False)
    report('of another particle set (N_mode / ranges / shape must be particle independent)', 'c13:particle-free', r)
    ctx.count('rel:particle-free')
    meta_a = {k: v for k, v in base.meta.items() if k not in ('N_pos',)}
    meta_b = {k: v for k, v in other.meta.items() if k not in ('N_pos',)}
    if meta_a != meta_b:
        ctx.fail('calc_power meta depends on the particles', case, str(meta_b), str(meta_a), key='c13:particle-free')

    # 6. genuine cross power: translation of both fields, permutation of the second
    if case['do_cross']:
        cb = call_power(ps, case, I, w4, 1, I2=IB, w24=wB4)
        shot_x = max(shot, shot_scale(case, wB4, len(IB)))
        IBt = (IB + s * SUB) % M
        pb = np.arange(len(IB))[::-1]
        wBp = None if wB4 is None else [wB4[i] for i in pb]
        r = compare(cb, call_power(ps, case, It, w4, 2, I2=IBt[pb], w24=wBp), shot_x)
        track('cross-translate')
        report('(cross power) changes when both fields are translated by %s' % case['shift'], 'c13:translate', r)
        r = compare(base, cb, shot, approx=False)
        report('(cross power) N_mode / ranges / shape differ from the auto table', 'c13:particle-free', r)
        ctx.count('rel:cross-translate')

    nontrivial = N >= 2 and case['shift'] != [0, 0, 0] and not np.array_equal(perm, np.arange(N))
    ctx.case(brief, nontrivial=nontrivial, key=case)
    ctx.count('cfg:%s:%s%s' % (cfg['paste'], 'I' if cfg['interlaced'] else '-', 'C' if cfg['compensated'] else '-'))
    ctx.count('mesh:%s' % ('odd' if n % 2 else 'even'))
    ctx.count('ncol=%d' % ncol)


def load_corpus():
    from vcommon import CORPUS
    out = []
    d = CORPUS / 'C13'
    if d.is_dir():
        for p in sorted(d.glob('*.json')):
            doc = json.loads(p.read_text())
            if 'I' not in doc:   # compact form: configuration + generator seed
                rng = np.random.default_rng(int(doc.get('gen_seed', 0)))
                doc = gen_case(rng, force=doc['cfg'])
            out.append(doc)
    return out


def warm_up(ps):
    """compile every specialisation once, then freeze the GC generations: the real code calls
    gc.collect() three times per interlaced field, which costs 0.1 s each on a heap full of numba objects"""
    gc.collect()
    gc.freeze()


def stage_metamorphic(ctx, ps, ncases):
    rng = ctx.rng
    cases = load_corpus()
    ctx.count('corpus', len(cases))
    # every (paste, interlaced, compensated) combination and both parities are guaranteed to occur
    forced = []
    for paste in ('TSC', 'CIC'):
        for inter in (False, True):
            for comp in (False, True):
                forced.append(dict(paste=paste, interlaced=inter, compensated=comp))
    for k in range(ncases):
        force = dict(forced[k % len(forced)]) if k < 2 * len(forced) else None
        if force is not None:
            force['nmesh'] = int(rng.integers(2, 8)) * 2 + (k // len(forced)) % 2   # even, then odd
        cases.append(gen_case(rng, force=force))
    for i, case in enumerate(cases):
        check_case(ctx, ps, case)
        if i == 0:
            warm_up(ps)


def run(ctx):
    from abacusnbody.analysis import power_spectrum as ps
    import time
    from vcommon import log
    t0 = time.time()
    stages = {}

    def done(name):
        stages[name] = round(time.time() - t0, 1)
    stage_rfftn(ctx)
    done('rfftn')
    stage_normalize(ctx, ps)
    done('normalize')
    stage_window(ctx, ps)
    done('window')
    stage_rawpower(ctx, ps)
    done('rawpower')
    stage_fieldfft(ctx, ps)
    done('fieldfft')
    warm_up(ps)
    done('warm-up')
    stage_metamorphic(ctx, ps, ctx.pick(20, 320))
    done('metamorphic')
    ctx.extra['cumulative_stage_seconds'] = stages
    log('[c13] cumulative stage seconds', stages)
    ctx.extra['bounds'] = dict(RTOL_META=RTOL_META, RTOL_FFT32=RTOL_FFT32, RTOL_FFT64=RTOL_FFT64,
                               RTOL_FFT64_W=RTOL_FFT64_W, ATOL_W=ATOL_W, RTOL_RFFTN=RTOL_RFFTN, RTOL_OFFSET=RTOL_OFFSET)
    ctx.extra['scope'] = ('calc_power: nmesh 4..16 (odd and even), TSC/CIC, compensated, interlaced, lin/log k bins, '
                          'k_max below/at/above Nyquist, mu bins None/1..4, pole subsets of {0,2,4}, weights, '
                          'nthread 1/2/5/16; get_field_fft: nmesh 2..6')


def intensify(ctx):
    """a proof or a stage-wise correspondence broke: search harder for an input on which the real
    calc_power breaks one of the symmetries"""
    from abacusnbody.analysis import power_spectrum as ps
    stage_metamorphic(ctx, ps, 200)


def replay(ctx, doc):
    from abacusnbody.analysis import power_spectrum as ps
    case = doc['failure']['case'] if 'failure' in doc else doc
    if 'I' not in case:
        if 'cfg' not in case:
            print(json.dumps(case, indent=1)[:4000])
            return
        case = gen_case(np.random.default_rng(int(case.get('gen_seed', 0))), force=case['cfg'])
    check_case(ctx, ps, case)
