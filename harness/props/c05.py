"""C05 — halo statistics are unpacked into consistent physical units (DESIGN.md §7 C05).

extract : harness/extract/loaders.py regenerates Generated/Loaders.lean + Generated/Dtypes.lean by running
          the real loader closures on symbolic operands, and validates the extracted trees against the
          real closures in Python.
run     : (1) translator/rendering/Lean evaluator validated through the compiled driver (exact rationals)
              against the real closures on random float64 raw tables;
          (2) end-to-end on the real CompaSOHaloCatalog over catgen trees (snapshot cleaned / uncleaned,
              light cone; dyadic and generic values; random BoxSize != VelZSpace_to_kms), each loaded with
              convert_units=True and False:
                * model (driver `loaded`, exact rationals) vs loaded columns          -> disagree
                * oracle, independent of model and extractor: every column recomputed from catgen's
                  in-memory raw arrays with the documented formula of its kind; converted / unconverted
                  = the factor of its kind (exactly on dyadic inputs); ratio columns; dispersion
                  identity; integer / dimensionless columns unchanged                 -> fail
"""
import json
import re
import warnings
from fractions import Fraction

import numpy as np

THEOREMS = [
    'AbacusVerif.Units.homog_sound',
    'AbacusVerif.Units.units_table',
    'AbacusVerif.Units.units_loaded',
    'AbacusVerif.Units.ratio_columns',
    'AbacusVerif.Units.sigman_columns',
    'AbacusVerif.Units.dispersion_identity',
]
LEAN_MODULES = ['AbacusVerif.Props.C05']
DRIVER = 'drv_c05'
RULE = ('one case = (catalog layout, dyadic/generic values, cleaned, convert_units pair, column): the column of a '
        'synthetic catalog loaded by the real class with convert_units on and off, compared with the documented '
        'formula of its kind on the raw arrays, with each other (factor test) and with the model; a case is '
        'non-trivial when the catalog has at least one halo; distinct = distinct (layout, value class, cleaned, '
        'BoxSize, VelZSpace_to_kms, catalog seed, column)')
TRUSTED = ['float32 products: exact comparison only on dyadic inputs (values k/16, power-of-two BoxSize and '
           'VelZSpace_to_kms), otherwise relative 1e-6 (columns) / 1e-5 (dispersion identity)',
           'harness/catgen.py defines the raw records (schema transcribed from the HaloStat struct)',
           '_unpack_euler16 (C18) is used as given for the eigenvector columns']
ASSUMPTIONS = ['IEEE float32 arithmetic of numpy is within 1e-6 relative of the exact rational value of the loader '
               'expressions on the generated inputs']

INT16SCALE = 32000.0     # the documented scale ("scaled to 32000 to store as int16s"), NOT read from the module
COM = r'_(?:L2)?com'


# --------------------------------------------------------------------------- oracle: kinds and formulas
# written from the property statement and the HaloStat comments; independent of the loaders

def py_kind(name):
    if re.fullmatch(r'(x|r100|r\d\d|rvcirc_max|sigmar|sigman)' + COM, name):
        return 'length'
    if re.fullmatch(r'SO(_L2max)?_(radius|central_particle)', name):
        return 'length'
    if re.fullmatch(r'(v|sigmav3d|meanSpeed|sigmav3d_r50|meanSpeed_r50|vcirc_max|sigmavMin|sigmavMid|sigmavMaj|'
                    r'sigmavrad|sigmavtan)' + COM, name):
        return 'velocity'
    return 'unchanged'


def bc(a, like):
    a = np.asarray(a)
    return a[:, None] if (a.ndim == 1 and np.ndim(like) == 2) else a


def stored_value(name, raw, clean, lc, euler):
    """the stored (unit-box / unit-velocity) value of a column, float64 (None: defined through the identity)"""
    m = re.fullmatch(r'(r\d\d|rvcirc_max|sigmar)(' + COM + ')', name)
    if m:
        i16 = raw[name + '_i16'].astype(np.float64)
        return i16 / INT16SCALE * bc(raw['r100' + m[2]].astype(np.float64), i16)
    m = re.fullmatch(r'sigmav(Min|Maj|rad|tan)(' + COM + ')', name)
    if m:
        stem = {'Min': 'Min', 'Maj': 'Max', 'rad': 'rad', 'tan': 'tan'}[m[1]]
        i16 = raw['sigmav%s_to_sigmav3d%s_i16' % (stem, m[2])].astype(np.float64)
        return i16 / INT16SCALE * raw['sigmav3d' + m[2]].astype(np.float64)
    m = re.fullmatch(r'sigman(' + COM + ')', name)
    if m:
        return raw[name + '_i16'].astype(np.float64) / INT16SCALE
    m = re.fullmatch(r'sigmavMid(' + COM + ')', name)
    if m:
        return None
    m = re.fullmatch(r'sigma([rnv])_eigenvecs(Min|Mid|Maj)(' + COM + ')', name)
    if m:
        return euler(raw['sigma%s_eigenvecs%s_u16' % (m[1], m[3])])[('Min', 'Mid', 'Maj').index(m[2])]
    if lc:
        if name in ('pos_interp', 'vel_interp'):
            avail = np.any(raw['pos_avg'] != 0, axis=1)[:, None]
            return np.where(avail, raw[name.replace('interp', 'avg')], raw[name])
        if name == 'origin':
            return raw['origin'] % 3
    if clean is not None:
        if name == 'N':
            return clean['N_total']
        if name in clean:
            return clean[name]
    return raw[name]


def close(a, b, rel):
    a, b = np.asarray(a, dtype=np.float64), np.asarray(b, dtype=np.float64)
    if a.shape != b.shape:
        return False
    both_nan = np.isnan(a) & np.isnan(b)
    with np.errstate(invalid='ignore'):
        ok = np.abs(a - b) <= rel * np.maximum(np.abs(a), np.abs(b)) + 1e-30
    return bool(np.all(ok | both_nan))


# --------------------------------------------------------------------------- catalogs

def draw_config(rng, layout, dyadic, cleaned):
    if dyadic:
        kb = int(rng.integers(3, 11))
        kv = int(rng.choice([k for k in range(3, 12) if k != kb]))
        box, velz = float(2 ** kb), float(2 ** kv)
    else:
        box = float(np.round(rng.uniform(100, 3000), 3))
        velz = float(np.round(rng.uniform(300, 4000), 3))
        if velz == box:
            velz += 1.0
    return dict(layout=layout, dyadic=bool(dyadic), cleaned=bool(cleaned), box=box, velz=velz,
                catseed=int(rng.integers(0, 2 ** 31)))


def build(ctx, cfg, tag):
    import catgen
    import os
    root = os.path.join(ctx.tmpdir(), tag)
    crng = np.random.default_rng(cfg['catseed'])
    if cfg['layout'] == 'lc':
        return catgen.make_lc_catalog(root, crng, nhalo=int(crng.integers(5, 12)), box=cfg['box'], velz=cfg['velz'],
                                      dyadic=cfg['dyadic'])
    return catgen.make_catalog(root, crng, nslabs=2, nhalos=(3, 8), cleaned=cfg['cleaned'], box=cfg['box'],
                               velz=cfg['velz'], dyadic=cfg['dyadic'])


def truth_tables(cat, cleaned):
    raw = {k: np.concatenate([s.raw[k] for s in cat.slabs]) for k in cat.slabs[0].raw}
    clean = None
    if cleaned and cat.slabs[0].clean:
        clean = {k: np.concatenate([s.clean[k] for s in cat.slabs]) for k in cat.slabs[0].clean}
    return raw, clean


def load(cat, cfg, convert_units, fields='all'):
    import catgen
    kw = dict(fields=fields, convert_units=convert_units)
    if cfg['layout'] != 'lc':
        kw['cleaned'] = cfg['cleaned']
    return catgen.load(cat, **kw)


# --------------------------------------------------------------------------- model queries

def rat(x):
    f = Fraction(*float(x).as_integer_ratio())
    return str(f.numerator) if f.denominator == 1 else '%d/%d' % (f.numerator, f.denominator)


def env_str(tables, names, row):
    items = []
    for n in names:
        v = None
        for t in tables:
            if t is not None and n in t:
                v = t[n][row]
                break
        if v is None:
            continue
        items.append('%s=%s' % (n, '|'.join(rat(x) for x in np.atleast_1d(v))))
    return ';'.join(items) if items else '-'


def parse_model(s):
    """-> (kind, value as float) ; kind in plain/sqrt/euler/err"""
    p = s.split(' ')
    if p[0] != 'ok':
        return ('err', s)
    if p[1] == 'sqrt':
        return ('sqrt', float(Fraction(p[2])))
    if p[1] == 'euler':
        return ('euler', (int(p[2]), float(Fraction(p[3]))))
    return ('plain', float(Fraction(p[1])))


def model_needed_raws(byname, name):
    e = byname[name]
    from extract import loaders
    need = list(loaders.refs(e['expr'], 'raw'))
    for h in loaders.refs(e['expr'], 'halo'):
        for r in loaders.refs(byname[h]['expr'], 'raw'):
            if r not in need:
                need.append(r)
    return need


# --------------------------------------------------------------------------- (1) translator through the driver

def validate_driver(ctx):
    from extract import loaders
    dts, entries = ctx.loader_table
    mod = loaders.module()
    rng = np.random.default_rng(777 + ctx.seed)
    box, vel = 96.0, 40.0
    cat = loaders.make_stub(mod, box, vel, True)
    byname = {e['name']: e for e in entries}
    names = [e['name'] for e in entries]
    cols = ctx.driver.query(['columns'])[0].split(',')
    if cols != names:
        ctx.tie('driver table differs from the table extracted in this run (stale build?)', [cols[:5], names[:5]])
        return
    n = 5
    raw = loaders.random_raw(rng, loaders.raw_widths(entries), n)
    # keep the radicand of sigmavMid positive: |ratios| <= 12000/32000

    class T(dict):
        colnames = names
    real = T()

    def compute(name):
        if name in real:
            return
        for h in byname[name]['haloAll']:
            compute(h)
        m, fn = loaders.find_loader(cat, name)
        res = fn(m, raw, real)
        res = res[name] if isinstance(res, dict) else res
        real[name] = np.asarray(res, dtype=np.float64)
    for name in names:
        compute(name)
    lines, meta = [], []
    for name in names:
        e = byname[name]
        hdeps = loaders.refs(e['expr'], 'halo')
        for row in range(n):
            for k in range(e['width']):
                renv = env_str([raw], loaders.refs(e['expr'], 'raw'), row)
                henv = env_str([real], hdeps, row)
                lines.append('eval %s %d %s %s %s %s' % (name, k, rat(box), rat(vel), renv, henv))
                meta.append((name, row, k, 'eval'))
                if hdeps:
                    lines.append('loaded %s %d %s %s %s' % (name, k, rat(box), rat(vel),
                                                           env_str([raw], model_needed_raws(byname, name), row)))
                    meta.append((name, row, k, 'loaded'))
    outs = ctx.driver.query(lines)
    bad = set()
    for (name, row, k, what), s in zip(meta, outs):
        kind, v = parse_model(s)
        r = real[name][row] if real[name].ndim == 1 else real[name][row, k]
        if kind == 'err':
            ok = False
        elif kind == 'sqrt':
            ok = close(r * r, v, 1e-9)
        elif kind == 'euler':
            w, code = v
            ok = close(r, mod._unpack_euler16(np.array([code]))[w][0, k], 1e-12)
        else:
            ok = close(r, v, 1e-9)
        ctx.count('translator:driver-validated')
        if not ok and name not in bad:
            bad.add(name)
            ctx.tie('loaders:driver-validate:%s' % name, {'request': what, 'row': row, 'component': k,
                                                          'closure': float(r), 'model': s})


ORDERED_REQUESTS = [
    ['r50_com', 'r100_com'], ['r100_com', 'r50_com'], ['sigmar_L2com', 'r100_L2com'], ['rvcirc_max_com', 'r100_com'],
    ['rvcirc_max_L2com', 'r98_L2com', 'r100_L2com'], ['sigmavMaj_com', 'sigmav3d_com'], ['sigmav3d_com', 'sigmavMaj_com'],
    ['sigmavMid_L2com', 'sigmav3d_L2com'], ['sigmavMin_com', 'sigmavMid_com', 'sigmav3d_com'],
    ['N', 'x_com', 'r98_com', 'r100_com'], ['sigmavrad_L2com', 'sigmavtan_L2com', 'sigmav3d_L2com'], ['v_com', 'vcirc_max_com'],
]


def check_ordered_requests(ctx, cfg, cat, conv):
    """the unit of a column must not depend on what else was requested or in which order: explicit request lists that
    name a derived column before (and after) the column it is derived from, compared bytewise with the `all` load"""
    have = set(conv.halos.colnames)
    for req in ORDERED_REQUESTS:
        if not all(n in have for n in req):
            continue
        case = dict(cfg, request=req)
        ctx.case(case, nontrivial=len(conv.halos) > 0)
        ctx.count('ordered-request')
        try:
            c = load(cat, cfg, True, fields=list(req))
        except Exception as ex:   # noqa: BLE001
            ctx.fail('loading an ordered request list raised %s' % type(ex).__name__, case, repr(ex)[:300], 'a catalog', key='c05:ordered-request')
            continue
        for name in req:
            if name not in c.halos.colnames:
                ctx.fail('requested column missing from an ordered request', dict(case, column=name), list(c.halos.colnames), name, key='c05:ordered-request')
                continue
            a, b = np.asarray(c.halos[name]), np.asarray(conv.halos[name])
            if a.dtype != b.dtype or a.shape != b.shape or not np.array_equal(a, b, equal_nan=True):
                with np.errstate(all='ignore'):
                    ratio = (a.astype(np.float64).ravel()[:3] / b.astype(np.float64).ravel()[:3]).tolist() if a.shape == b.shape else None
                ctx.fail('the values (units) of a column depend on the request list / its order', dict(case, column=name),
                         {'first values': a.ravel()[:3].tolist(), 'ratio to the all-load': ratio}, {'first values': b.ravel()[:3].tolist()},
                         key='c05:ordered-request')


# --------------------------------------------------------------------------- (2) end to end

def check_catalog(ctx, cfg, tag):
    from extract import loaders
    mod = loaders.module()
    dts, entries = ctx.loader_table
    byname = {e['name']: e for e in entries}
    cat = build(ctx, cfg, tag)
    lc = cfg['layout'] == 'lc'
    raw, clean = truth_tables(cat, cfg['cleaned'] and not lc)
    box, velz = cfg['box'], cfg['velz']
    try:
        conv = load(cat, cfg, True)
        unconv = load(cat, cfg, False)
    except Exception as ex:
        ctx.fail('loading fields="all" raised %s' % type(ex).__name__, cfg, repr(ex)[:300], 'a catalog', key='c05:load-raises')
        return
    ctx.count('loads', 2)
    check_ordered_requests(ctx, cfg, cat, conv)
    nh = len(conv.halos)
    if conv.halos.colnames != unconv.halos.colnames:
        ctx.fail('convert_units changes the set of columns', cfg, unconv.halos.colnames, conv.halos.colnames, key='c05:colnames')
        return
    nrows = len(next(iter(raw.values())))
    if nh != nrows:
        ctx.fail('number of halos loaded', cfg, nh, nrows, key='c05:nhalo')
        return
    rel = 1e-6
    lines, meta = [], []
    for name in conv.halos.colnames:
        case = dict(cfg, column=name)
        ctx.case(case, nontrivial=nh > 0)
        kind = py_kind(name)
        ctx.count('kind:' + kind)
        factor = {'length': box, 'velocity': velz, 'unchanged': 1.0}[kind]
        a, b = np.asarray(conv.halos[name]), np.asarray(unconv.halos[name])
        if a.dtype != b.dtype or a.shape != b.shape:
            ctx.fail('column dtype/shape depends on convert_units', case, [str(a.dtype), a.shape], [str(b.dtype), b.shape],
                     key='c05:dtype:%s' % name)
            continue
        # --- (a) the two loads differ by exactly the factor of the column's kind
        with np.errstate(invalid='ignore', over='ignore'):
            if kind == 'unchanged':
                same = np.array_equal(a, b, equal_nan=a.dtype.kind == 'f')
            elif cfg['dyadic']:
                same = np.array_equal(a, b * np.float32(factor), equal_nan=True)
            elif name.startswith('sigmavMid'):
                # a square root of a difference: float32 cancellation amplifies the relative error of the root
                # when the radicand is small against sigmav3d^2, so the squares are compared against that scale
                # (rows whose radicand is within 1e-4 of zero may be NaN in one load only)
                com = name[len('sigmavMid'):]
                S = (raw['sigmav3d' + com].astype(np.float64) * factor) ** 2
                a2, b2 = a.astype(np.float64) ** 2, (b.astype(np.float64) * factor) ** 2
                near0 = np.nan_to_num(np.minimum(a2, b2), nan=0.0) <= 1e-4 * S
                same = bool(np.all((np.abs(a2 - b2) <= 1e-5 * S) | (np.isnan(a2) & np.isnan(b2)) |
                                   (near0 & (np.isnan(a2) | np.isnan(b2)))))
            else:
                same = close(a, b.astype(np.float64) * factor, rel)
        if not same:
            ctx.fail('%s column: convert_units on/off do not differ by %s' % (
                kind, {'length': 'BoxSize', 'velocity': 'VelZSpace_to_kms', 'unchanged': '1'}[kind]),
                case, {'converted': a[:2].tolist(), 'unconverted': b[:2].tolist()}, 'converted = unconverted * %r' % factor,
                key='c05:factor:%s' % re.sub(r'_(L2)?com$', '', name))
        # --- (b) the documented formula on the raw arrays
        with np.errstate(invalid='ignore'):
            st = stored_value(name, raw, clean, lc, mod._unpack_euler16)
        if st is not None:
            for tab, f, lab in ((a, factor, 'converted'), (b, 1.0, 'stored-units')):
                if kind == 'unchanged' and tab.dtype.kind in 'ui':
                    good = np.array_equal(tab, st) and tab.shape == np.shape(st)
                else:
                    good = close(tab, np.asarray(st, dtype=np.float64) * f, rel)
                if not good:
                    ctx.fail('%s column (%s) differs from its documented formula on the raw records' % (kind, lab), case,
                             np.asarray(tab)[:2].tolist(), (np.asarray(st, dtype=np.float64) * f)[:2].tolist(),
                             key='c05:formula:%s' % re.sub(r'_(L2)?com$', '', name))
                    break
        # --- (c) the model (exact rationals) on a few rows
        if name in byname or (name == 'N' and clean is not None):
            mname = 'N_total' if (name == 'N' and clean is not None) else name
            need = model_needed_raws(byname, mname)
            for row in range(min(nh, ctx.pick(2, 4))):
                width = 1 if a.ndim == 1 else a.shape[1]
                for k in range(width):
                    for tab, bx, vl in ((a, box, velz), (b, 1.0, 1.0)):
                        lines.append('loaded %s %d %s %s %s' % (mname, k, rat(bx), rat(vl), env_str([clean, raw], need, row)))
                        meta.append((case, row, k, float(tab[row] if tab.ndim == 1 else tab[row, k]), vl))
    # --- (d) dispersion identity on the loaded columns, in both unit systems
    for com in ('_com', '_L2com'):
        cols = ['sigmavMin' + com, 'sigmavMid' + com, 'sigmavMaj' + com, 'sigmav3d' + com]
        if not all(c in conv.halos.colnames for c in cols):
            continue
        s3 = raw['sigmav3d' + com].astype(np.float64)
        rmin = raw['sigmavMin_to_sigmav3d%s_i16' % com].astype(np.float64) / INT16SCALE
        rmax = raw['sigmavMax_to_sigmav3d%s_i16' % com].astype(np.float64) / INT16SCALE
        radic = 1.0 - rmin ** 2 - rmax ** 2          # radicand / sigmav3d^2
        for tabs, lab, f in ((conv, 'converted', velz), (unconv, 'stored-units', 1.0)):
            mn, md, mj, tot = (np.asarray(tabs.halos[c], dtype=np.float64) for c in cols)
            case = dict(cfg, column='sigmavMid' + com, units=lab)
            ok_rows = radic > 1e-4
            neg_rows = radic < -1e-4
            ctx.count('dispersion:rows-radicand>=0', int(ok_rows.sum()))
            ctx.count('dispersion:rows-radicand<0', int(neg_rows.sum()))
            lhs = mn ** 2 + md ** 2 + mj ** 2
            rhs = tot ** 2
            with np.errstate(invalid='ignore'):
                bad = ok_rows & ~(np.abs(lhs - rhs) <= 1e-5 * rhs)
            if bad.any():
                i = int(np.flatnonzero(bad)[0])
                ctx.fail('dispersion identity sigmavMin^2+sigmavMid^2+sigmavMaj^2 = sigmav3d^2 fails (%s)' % lab, dict(case, row=i),
                         {'Min': mn[i], 'Mid': md[i], 'Maj': mj[i], 'lhs': lhs[i]}, {'sigmav3d': tot[i], 'rhs': rhs[i]},
                         key='c05:dispersion')
            # documented value of Mid through the identity
            with np.errstate(invalid='ignore'):
                exp_mid = np.sqrt(radic) * s3 * f
            if not close(md[ok_rows], exp_mid[ok_rows], 1e-3 if not cfg['dyadic'] else 1e-3):
                ctx.fail('sigmavMid differs from sqrt(sigmav3d^2 - Maj^2 - Min^2) of the stored ratios (%s)' % lab, case,
                         md[ok_rows][:3].tolist(), exp_mid[ok_rows][:3].tolist(), key='c05:formula:sigmavMid')
            if not np.all(np.isnan(md[neg_rows])):
                ctx.fail('sigmavMid is not NaN for a negative radicand (%s)' % lab, case, md[neg_rows][:3].tolist(), 'nan',
                         key='c05:sigmavMid-negative')
    # model answers
    if ctx.driver is not None and not ctx.driver.error and lines:
        outs = ctx.driver.query(lines)
        seen = set()
        for (case, row, k, impl, vl), s in zip(meta, outs):
            kind, v = parse_model(s)
            ctx.count('model-evaluations')
            if kind == 'err':
                ok = False
            elif kind == 'sqrt':
                # v = exact radicand; S = (sigmav3d * VelZSpace_to_kms)^2 bounds every term of it
                S = impl_scale(case, raw, row, vl)
                if v < -1e-4 * S:
                    ok = bool(np.isnan(impl))
                elif v > 1e-4 * S:
                    ok = abs(impl * impl - v) <= 1e-5 * S
                else:
                    ok = True
            elif kind == 'euler':
                w, code = v
                ok = close(impl, np.float32(mod._unpack_euler16(np.array([code]))[w][0, k]), 1e-6)
            else:
                ok = close(impl, v, 2e-6)
            if not ok and case['column'] not in seen:
                seen.add(case['column'])
                ctx.disagree('loaded column vs model', dict(case, row=row, component=k), s, impl)
    ctx.count('catalogs:%s:%s:%s' % (cfg['layout'], 'dyadic' if cfg['dyadic'] else 'generic',
                                    'cleaned' if cfg['cleaned'] else 'uncleaned'))


def impl_scale(case, raw, row, vl):
    com = '_L2com' if case['column'].endswith('_L2com') else '_com'
    return (float(raw['sigmav3d' + com][row]) * vl) ** 2


def configs(ctx, n_extra):
    rng = ctx.rng
    out = []
    base = [('snap', True, True), ('snap', True, False), ('snap', False, True), ('snap', False, False),
            ('lc', True, True), ('lc', False, True)]
    for layout, dy, cl in base:
        out.append(draw_config(rng, layout, dy, cl))
    for _ in range(n_extra):
        layout, dy, cl = base[int(rng.integers(0, len(base)))]
        out.append(draw_config(rng, layout, dy, cl))
    return out


def corpus_cases():
    from vcommon import CORPUS
    out = []
    d = CORPUS / 'C05'
    if d.is_dir():
        for p in sorted(d.glob('*.json')):
            out.append(json.loads(p.read_text()))
    return out


def extract(ctx):
    from extract import loaders
    loaders.extract(ctx)


def _ensure_table(ctx):
    if not hasattr(ctx, 'loader_table'):
        from extract import loaders
        loaders.extract(ctx)


def run(ctx):
    warnings.simplefilter('ignore')
    _ensure_table(ctx)
    if ctx.driver is not None and not ctx.driver.error:
        validate_driver(ctx)
    for i, cfg in enumerate(corpus_cases()):
        ctx.count('corpus')
        check_catalog(ctx, cfg, 'corpus%d' % i)
    for i, cfg in enumerate(configs(ctx, ctx.pick(4, 40))):
        check_catalog(ctx, cfg, 'cat%d' % i)


def intensify(ctx):
    warnings.simplefilter('ignore')
    _ensure_table(ctx)
    for i, cfg in enumerate(configs(ctx, 30)):
        check_catalog(ctx, cfg, 'int%d' % i)


def replay(ctx, doc):
    warnings.simplefilter('ignore')
    _ensure_table(ctx)
    c = doc['failure']['case'] if 'failure' in doc else doc
    cfg = {k: c[k] for k in ('layout', 'dyadic', 'cleaned', 'box', 'velz', 'catseed')}
    check_catalog(ctx, cfg, 'replay')
