"""C03 — superslab concatenation and filter_func commute with loading (DESIGN.md §7 C03)."""
import json
import os
import warnings

os.environ['NUMBA_BOUNDSCHECK'] = '1'   # must precede the first numba import: a stray index becomes IndexError
from pathlib import Path

import numpy as np

import catexpect as cx

THEOREMS = [
    'AbacusVerif.Catalog.load_append',
    'AbacusVerif.Catalog.load_append_nofilter',
    'AbacusVerif.Catalog.load_filter',
    'AbacusVerif.Catalog.load_filter_none',
    'AbacusVerif.Catalog.load_filter_nothing',
    'AbacusVerif.Catalog.specRes_append',
    'AbacusVerif.Catalog.specRes_masked',
    'AbacusVerif.Catalog.filter_sees_N',
    'AbacusVerif.Catalog.paths_spec',
    'AbacusVerif.Catalog.paths_mixed_first',
]
DRIVER = 'drv_c03'
RULE = ('one evaluation = one experiment on the real CompaSOHaloCatalog: (glue) a load of a subset/order of superslab '
        'files against the per-file loads glued by the harness; (mask) a load with a per-superslab filter function '
        'against the unfiltered load masked and re-indexed by the harness; every combined/filtered load is also '
        'checked by the C01 truth oracle and against the Lean model; (paths) one call of _setup_file_paths on a '
        'file list against the decision model and the expected accept/reject; non-trivial = the combined/filtered '
        'load keeps at least one halo with particles, resp. a list of >= 2 paths; distinct = distinct experiment '
        'descriptions')
TRUSTED = ['catgen.py arrays define the raw records; asdf / astropy Table I/O',
           'glue and mask are applied by the harness to observable outputs (ids, index columns, every subsample '
           'column word for word), independently of the Lean definitions `glue` / `applyMask`, which are ALSO driven '
           '(driver requests glue / applymask) and compared with both the harness result and the real load',
           'int() of a file-name token is modelled for plain decimal tokens only']
ASSUMPTIONS = ['filter functions are pure functions of the table they receive (and of the call count for the '
               'per-superslab dispatch)']

SUBCOLS = set(cx.PID_COLS) | {'pos', 'vel', 'rvint'}


def slices(obs, X):
    st, no = obs['npstart' + X], obs['npout' + X]
    return [(st[r], st[r] + no[r]) for r in range(len(st))]


def glue_obs(parts, ab):
    """harness-side glue of per-file observations: rows appended, A blocks before B blocks, contiguous"""
    g = {'id': [i for o in parts for i in o['id']], 'sub': {}}
    for X in ab:
        g['npout' + X] = [n for o in parts for n in o['npout' + X]]
    off = 0
    for X in ab:
        st = []
        for n in g['npout' + X]:
            st.append(off)
            off += n
        g['npstart' + X] = st
    g['nsub'] = off
    cols = set(parts[0]['sub_cols']) & SUBCOLS if parts else set()
    for col in cols:
        blocks = []
        for X in ab:
            for o in parts:
                a = sum(o['npoutA']) if 'A' in ab else 0
                lo, hi = (0, a) if X == 'A' else (a, a + sum(o['npoutB']))
                blocks.append(o['sub'][col][lo:hi])
        g['sub'][col] = np.concatenate(blocks) if blocks else None
    return g


def mask_obs(u, keep, ab):
    """harness-side mask of an unfiltered observation: kept rows, their slices re-indexed contiguously"""
    rows = [r for r in range(u['n']) if keep[r]]
    g = {'id': [u['id'][r] for r in rows], 'sub': {}}
    off = 0
    for X in ab:
        g['npout' + X] = [u['npout' + X][r] for r in rows]
        st = []
        for n in g['npout' + X]:
            st.append(off)
            off += n
        g['npstart' + X] = st
    g['nsub'] = off
    for col in set(u['sub_cols']) & SUBCOLS:
        blocks = [u['sub'][col][u['npstart' + X][r]:u['npstart' + X][r] + u['npout' + X][r]] for X in ab for r in rows]
        g['sub'][col] = np.concatenate(blocks) if blocks else u['sub'][col][:0]
    return g


def same_obs(ctx, what, key, case, real, exp, ab):
    good = True
    if real['id'] != exp['id']:
        ctx.fail(what + ': rows', case, real['id'], exp['id'], key=key)
        return False
    for X in ab:
        for k in ('npstart' + X, 'npout' + X):
            if real[k] != exp[k]:
                ctx.fail(what + ': ' + k, case, real[k], exp[k], key=key)
                good = False
    if real['nsub'] != exp['nsub']:
        ctx.fail(what + ': len(subsamples)', case, real['nsub'], exp['nsub'], key=key)
        return False
    for col, e in exp['sub'].items():
        if e is None:
            continue
        got = real['sub'][col]
        if got.shape != e.shape or not np.array_equal(got, e):
            ctx.fail(what + ': subsample column ' + col, case, got.tolist()[:12], e.tolist()[:12], key=key)
            good = False
    return good


def checked_load(ctx, pool, case, label):
    """real load + C01 truth oracle + model correspondence; returns obs or None"""
    truth = pool.get(case['cat'])
    status, obs, record = cx.real_load(truth, case)
    ctx.count('real-loads')
    good = cx.oracle(ctx, truth, case, status, obs, record, pid='C03')
    if status != 'ok':
        return None, record
    masks = cx.masks_from_record(case, record)
    line = cx.model_line(truth, case, masks)
    obs['_model_line'] = line
    m = cx.parse_model(ctx.driver.query([line])[0])
    ctx.traces_validated += 1
    cx.compare_model(ctx, truth, case, obs, m)
    # which N does the model say the filter sees?  (`filterView` through the driver)
    if case['filt']['kind'] != 'none':
        opts = case['opts']
        for s, rec in zip(case['files'], record):
            if rec['N'] is None:
                continue
            sl = truth.cat.slabs[s]
            H = cx._flat([(0, 0, 0, 0, sl.raw['N'][j]) for j in range(sl.nhalo)])
            C = cx._flat([(0, 0, 0, 0, sl.clean['N_total'][j]) for j in range(sl.nhalo)]) if opts['cleaned'] else '-'
            ans = ctx.driver.query(['view %d %d %s %s' % (opts['cleaned'], opts['passthrough'], H, C)])[0]
            mN = ans.split(' ')[1].split('=', 1)[1] if ans.startswith('ok ') else ans
            rN = ','.join(str(v) for v in rec['N'])
            if sl.nhalo and mN != rN:
                ctx.disagree('the N column the filter sees', case, mN, rN)
            ctx.count('filter-view-checked')
    return obs, record


def exp_glue(ctx, rng, pool, recipe):
    truth = pool.get(recipe)
    opts = cx.draw_opts(rng, truth)
    if not cx.resolve_subsamples(opts)[0] and rng.random() < 0.7:
        opts['subsamples'] = True
    path, files = cx.draw_files(rng, truth, path=str(rng.choice(['list', 'list', 'tuple', 'dir'])))
    r = rng.random()
    if r < 0.5:
        filt = {'kind': 'none'}
    elif r < 0.75:
        filt = cx.draw_filter(rng, opts, kind=str(rng.choice(['random', 'parity', 'Nthr', 'nothing'])))
    else:
        filt = cx.draw_mixed_filter(rng, opts, len(files))
    case = {'exp': 'glue', 'cat': recipe, 'opts': opts, 'files': files, 'path': path, 'filt': filt}
    run_glue(ctx, pool, case)


def run_glue(ctx, pool, case):
    truth = pool.get(case['cat'])
    ab, _ = cx.resolve_subsamples(case['opts'])
    ctx.case(case, nontrivial=cx.nontrivial(truth, case))
    ctx.count('exp:glue')
    ctx.count('glue-nfiles:%d' % len(case['files']))
    ctx.count('glue-filter:' + case['filt']['kind'])
    whole, _ = checked_load(ctx, pool, case, 'combined')
    parts = []
    for pos, s in enumerate(case['files']):
        f = case['filt']
        if f['kind'] == 'mixed':
            f = f['subs'][pos]
        c1 = dict(case, files=[s], path='file', filt=f)
        o, _ = checked_load(ctx, pool, c1, 'single')
        parts.append(o)
    if whole is None or any(p is None for p in parts):
        return False
    g = glue_obs(parts, ab)
    good = same_obs(ctx, 'a load of several files differs from the per-file loads glued together', 'glue', case, whole, g, ab)
    # the Lean `glue` (the definition `load_append` is about), folded over the model's per-file loads, against the
    # real combined load and against the harness's own glue of the real per-file loads
    ans = ctx.driver.query(['glue ' + ' | '.join(p['_model_line'] for p in parts)])[0]
    mg = cx.parse_model(ans)
    ctx.count('lean-glue-driven')
    good &= cx.compare_model(ctx, truth, case, whole, mg, what='Lean glue vs real combined load: ', check_widx=False)
    gobs = dict(whole)
    gobs.update({k: v for k, v in g.items() if k != 'sub'})
    gobs['sub'] = dict(whole['sub'])
    gobs['sub'].update({k: v for k, v in g['sub'].items() if v is not None})
    good &= cx.compare_model(ctx, truth, case, gobs, mg, what='Lean glue vs harness glue of real per-file loads: ', check_widx=False)
    if 'err' not in mg and mg['nper'] != [len(p['id']) for p in parts]:
        ctx.disagree('Lean glue: per-file counts', case, mg['nper'], [len(p['id']) for p in parts])
        good = False
    return good


def exp_mask(ctx, rng, pool, recipe):
    truth = pool.get(recipe)
    opts = cx.draw_opts(rng, truth)
    if not cx.resolve_subsamples(opts)[0] and rng.random() < 0.7:
        opts['subsamples'] = True
    path, files = cx.draw_files(rng, truth)
    if rng.random() < 0.4 and len(files) > 1:
        filt = cx.draw_mixed_filter(rng, opts, len(files))
    else:
        filt = cx.draw_filter(rng, opts, kind=str(rng.choice(['all', 'nothing', 'random', 'random', 'parity', 'Nthr', 'Nthr'])))
    case = {'exp': 'mask', 'cat': recipe, 'opts': opts, 'files': files, 'path': path, 'filt': filt}
    run_mask(ctx, pool, case)


def run_mask(ctx, pool, case):
    truth = pool.get(case['cat'])
    ab, _ = cx.resolve_subsamples(case['opts'])
    ctx.case(case, nontrivial=cx.nontrivial(truth, case))
    ctx.count('exp:mask')
    kinds = [f['kind'] for f in case['filt']['subs']] if case['filt']['kind'] == 'mixed' else [case['filt']['kind']]
    for k in kinds:
        ctx.count('mask-filter:' + k)
    filtered, record = checked_load(ctx, pool, case, 'filtered')
    unf, _ = checked_load(ctx, pool, dict(case, filt={'kind': 'none'}), 'unfiltered')
    if filtered is None or unf is None:
        return False
    # the mask as a function of the unfiltered rows: what the real filter returned, superslab by superslab
    keep = [b for rec in record for b in rec['mask']]
    if len(keep) != unf['n']:
        ctx.fail('filter masks do not cover the unfiltered rows', case, len(keep), unf['n'], key='mask')
        return False
    ctx.count('mask-keeps:%s' % ('nothing' if not any(keep) else 'all' if all(keep) else 'some'))
    g = mask_obs(unf, keep, ab)
    good = same_obs(ctx, 'a filtered load differs from the masked unfiltered load', 'mask', case, filtered, g, ab)
    # the Lean `applyMask` (the definition `load_filter` is about) of the model's unfiltered load, against the real
    # filtered load and against the harness's own masking of the real unfiltered load
    bits = ''.join('1' if b else '0' for b in keep) or '-'
    ans = ctx.driver.query(['applymask %s %s' % (bits, unf['_model_line'])])[0]
    mm = cx.parse_model(ans)
    ctx.count('lean-applyMask-driven')
    good &= cx.compare_model(ctx, truth, case, filtered, mm, what='Lean applyMask vs real filtered load: ', check_widx=False)
    gobs = dict(filtered)
    gobs.update({k: v for k, v in g.items() if k != 'sub'})
    gobs['sub'] = dict(filtered['sub'])
    gobs['sub'].update(g['sub'])
    good &= cx.compare_model(ctx, truth, case, gobs, mm, what='Lean applyMask vs harness mask of the real unfiltered load: ', check_widx=False)
    exp_nper = [sum(rec['mask']) for rec in record]
    if 'err' not in mm and mm['nper'] != exp_nper:
        ctx.disagree('Lean applyMask: per-file kept counts', case, mm['nper'], exp_nper)
        good = False
    return good


# ------------------------------------------------------------------------------------------------ file lists

def exp_paths(ctx, rng, root, k):
    """_setup_file_paths on a list of (empty) files in two fake catalogs, against the decision model"""
    from abacusnbody.data.compaso_halo_catalog import CompaSOHaloCatalog
    groups = [root / ('pcat%d' % k) / 'SimA' / 'halos' / 'z0.100', root / ('pcat%d' % k) / 'SimB' / 'halos' / 'z0.100']
    names = []
    n = int(rng.integers(1, 5))
    mode = str(rng.choice(['ok', 'ok', 'dup', 'foreign', 'badname', 'dup+foreign']))
    pool = []
    for _ in range(n):
        idx = int(rng.integers(0, 1000))
        style = str(rng.choice(['%03d', '%03d', '%d', '%05d']))
        stem = str(rng.choice(['halo_info_', 'halo_info_', 'x_', 'a_b_'])) + (style % idx)
        pool.append((0, stem, idx))
    pool = list({(g, s): (g, s, i) for g, s, i in pool}.values())
    if 'foreign' in mode:
        pool.insert(int(rng.integers(0, len(pool) + 1)), (1, 'halo_info_%03d' % int(rng.integers(0, 50)), 0))
    if 'dup' in mode:
        d = pool[int(rng.integers(0, len(pool)))]
        pool.insert(int(rng.integers(0, len(pool) + 1)), d)
    if mode == 'badname':
        pool.insert(int(rng.integers(0, len(pool) + 1)), (0, str(rng.choice(['halo_info_abc', 'halo_info_', 'haloinfo12x'])), None))
    paths = []
    for g, stem, _ in pool:
        p = groups[g] / 'halo_info' / (stem + '.asdf')
        p.parent.mkdir(parents=True, exist_ok=True)
        p.touch()
        paths.append(p)
    case = {'exp': 'paths', 'list': [(g, stem) for g, stem, _ in pool]}
    ctx.case(case, nontrivial=len(pool) >= 2)
    ctx.count('exp:paths')
    # expectation straight from the statement
    grp0 = pool[0][0]
    foreign = any(g != grp0 for g, _, _ in pool)
    dup = len({(g, s) for g, s, _ in pool}) < len(pool)
    bad = any(i is None for _, _, i in pool)
    try:
        # a bare instance, not None: the method may be split into helper methods of the class
        res = CompaSOHaloCatalog._setup_file_paths(CompaSOHaloCatalog.__new__(CompaSOHaloCatalog), [str(p) for p in paths], cleaned=False)
        real = ('ok', [int(v) for v in res[3]], [str(f) for f in res[4]])
    except ValueError as e:
        msg = str(e)
        kind = 'mixed' if "mix" in msg else 'duplicate' if 'uplicate' in msg else 'bad-index' if 'invalid literal' in msg else 'other:' + msg[:60]
        real = ('err', kind)
    except Exception as e:      # noqa: BLE001 - anything else is an observation, not a harness failure
        real = ('err', 'other:%s:%s' % (type(e).__name__, str(e)[:60]))
    ctx.count('paths:' + (real[1] if real[0] == 'err' else 'ok'))
    if foreign or dup:
        if real[0] != 'err':
            ctx.fail('a file list with %s was accepted' % ('a foreign-catalog file' if foreign else 'a duplicate'),
                     case, real, 'ValueError', key='paths-accepts-bad-list')
    elif not bad:
        exp = ('ok', [i for _, _, i in pool], [str(p) for p in paths])
        if real != exp:
            ctx.fail('file list: superslab indices / file order', case, real, exp, key='paths-index')
    ans = ctx.driver.query(['paths ' + ' '.join('%d/%s' % (g, s) for g, s, _ in pool)])[0]
    mreal = 'ok ' + cx._lst(real[1]) if real[0] == 'ok' else 'err ' + real[1]
    if ans != mreal:
        ctx.disagree('_setup_file_paths decision', case, ans, mreal)


def exp_bad_lists(ctx, rng, pool, recipes):
    """duplicate and foreign-catalog lists through the constructor: ValueError expected"""
    from abacusnbody.data.compaso_halo_catalog import CompaSOHaloCatalog
    multi = [r for r in recipes if r['kind'] == 'snap' and len(r['nhalos']) >= 1]
    if len(multi) < 2:
        return
    for k in range(6):
        a, b = [multi[int(i)] for i in rng.choice(len(multi), 2, replace=False)]
        ta, tb = pool.get(a), pool.get(b)
        fa = [str(f) for f in ta.cat.halo_info_files]
        fb = [str(f) for f in tb.cat.halo_info_files]
        if k % 2 == 0:
            lst = fa + [fa[int(rng.integers(0, len(fa)))]]
            what = 'duplicate'
        else:
            lst = fa + [fb[0]]
            what = 'foreign'
        lst = [lst[int(i)] for i in rng.permutation(len(lst))]
        case = {'exp': 'bad-list', 'what': what, 'n': len(lst)}
        ctx.case(case, nontrivial=True, key={'exp': 'bad-list', 'what': what, 'list': lst[-3:], 'k': k})
        ctx.count('exp:bad-list-' + what)
        try:
            with warnings.catch_warnings():
                warnings.simplefilter('ignore')
                CompaSOHaloCatalog(lst, cleaned=False, fields=['id'])
            ctx.fail('a %s file list was loaded' % what, case, 'loaded', 'ValueError', key='paths-accepts-bad-list')
        except ValueError:
            pass


# --------------------------------------------------------------------------- every halo column, filtered vs masked

ALLCOL_KEY = 'c03:filter-column'
ALLCOL_FIELDS = ['all', 'DEFAULT_FIELDS',
                 ['id', 'N', 'x_com', 'N_mainprog', 'vcirc_max_L2com_mainprog', 'sigmav3d_L2com_mainprog'],
                 ['id', 'sigmavMid_com', 'x_L2com', 'r25_com'], ['id', 'N', 'sigman_com', 'sigmar_eigenvecsMaj_com']]
ALLCOL_FILTERS = ['odd-id', 'N>=200', 'x>0', 'none-on-first', 'all-on-last-odd-before', 'keep-all', 'keep-none']


def _allcol_keep(name, h, slab_pos, nslab):
    import numpy as np
    ids = np.asarray(h['id'])
    if name == 'odd-id':
        return ids % 2 == 1
    if name == 'N>=200':
        # the filter sees the loaded columns only: without N in the request, fall back to a rule on the ids
        return np.asarray(h['N']) >= 200 if 'N' in h.colnames else ids % 3 != 0
    if name == 'x>0':
        return np.asarray(h['x_com'])[:, 0] > 0 if 'x_com' in h.colnames else ids % 3 == 0
    if name == 'none-on-first':
        return np.zeros(len(h), bool) if slab_pos == 0 else ids % 2 == 0
    if name == 'all-on-last-odd-before':
        return np.ones(len(h), bool) if slab_pos == nslab - 1 else ids % 2 == 1
    if name == 'keep-all':
        return np.ones(len(h), bool)
    return np.zeros(len(h), bool)


def check_filter_all_columns(ctx, n=None):
    """C03 speaks about ROWS: every halo column of the filtered load (scalars, (N,3) vectors, the (N,P) main-progenitor
    columns of cleaned catalogs, derived columns that need temporaries) must be the same mask of the unfiltered load."""
    import numpy as np
    import warnings
    import catgen
    from abacusnbody.data.compaso_halo_catalog import CompaSOHaloCatalog
    rng = np.random.default_rng([ctx.seed, 303])
    combos = [(cl, f, flt) for cl in (True, False) for f in range(len(ALLCOL_FIELDS)) for flt in ALLCOL_FILTERS]
    order = rng.permutation(len(combos))
    n = n if n is not None else ctx.pick(24, len(combos))
    root = Path(ctx.tmpdir()) / 'allcol'
    cats = {}
    for k in order[:n]:
        cleaned, fi, flt = combos[int(k)]
        fields = ALLCOL_FIELDS[fi]
        if not cleaned and isinstance(fields, list):
            fields = [f for f in fields if not f.endswith('_mainprog')]
        if cleaned not in cats:
            d = root / ('c%d' % int(cleaned))
            cats[cleaned] = catgen.make_catalog(d, np.random.default_rng([ctx.seed, 304, int(cleaned)]), nslabs=3, nhalos=[5, 0, 6], cleaned=cleaned)
        cat = cats[cleaned]
        case = dict(kind='filter-all-columns', cleaned=cleaned, fields=fields, filt=flt)
        ctx.case(case, nontrivial=True)
        ctx.count('filter-all-columns')
        state = {'pos': 0}

        def ff(h, _flt=flt, _state=state):
            m = _allcol_keep(_flt, h, _state['pos'], 3)
            _state['pos'] += 1
            return m
        try:
            with warnings.catch_warnings():
                warnings.simplefilter('ignore')
                unf = CompaSOHaloCatalog(cat.groupdir, cleaned=cleaned, fields=fields if isinstance(fields, str) else list(fields), subsamples=False)
                fil = CompaSOHaloCatalog(cat.groupdir, cleaned=cleaned, fields=fields if isinstance(fields, str) else list(fields), subsamples=False, filter_func=ff)
        except Exception as e:   # noqa: BLE001
            ctx.fail('a filtered / unfiltered load of a valid request raised', case, '%s: %s' % (type(e).__name__, str(e)[:200]), 'two catalogs', key=ALLCOL_KEY)
            continue
        # the mask of the unfiltered table: evaluate the same rule per superslab on the unfiltered rows
        uh, fh = unf.halos, fil.halos
        bounds = np.concatenate([[0], np.cumsum([s.nhalo for s in cat.slabs])])
        mask = np.zeros(len(uh), bool)
        for sp in range(3):
            seg = uh[bounds[sp]:bounds[sp + 1]]
            mask[bounds[sp]:bounds[sp + 1]] = _allcol_keep(flt, seg, sp, 3)
        if list(fh.colnames) != list(uh.colnames) or len(fh) != int(mask.sum()):
            ctx.fail('filtered load: wrong columns or row count', case, dict(cols=list(fh.colnames), n=len(fh)), dict(cols=list(uh.colnames), n=int(mask.sum())), key=ALLCOL_KEY)
            continue
        for col in uh.colnames:
            a, b = np.asarray(fh[col]), np.asarray(uh[col])[mask]
            if a.dtype != b.dtype or a.shape != b.shape or a.tobytes() != b.tobytes():
                rows = [] if a.shape != b.shape else [int(i) for i in np.nonzero(np.any((a != b).reshape(len(a), -1), axis=1))[0][:5]]
                ctx.fail('filtered load: a halo column is not the mask of the unfiltered column', dict(case, column=col),
                         dict(dtype=str(a.dtype), shape=list(a.shape), differing_rows=rows), dict(dtype=str(b.dtype), shape=list(b.shape)), key=ALLCOL_KEY)
                break


def corpus_cases():
    from vcommon import CORPUS
    out = []
    d = CORPUS / 'C03'
    if d.is_dir():
        for p in sorted(d.glob('*.json')):
            out.append(json.loads(p.read_text()))
    return out


def run_case(ctx, pool, c):
    if c.get('exp') == 'glue':
        return run_glue(ctx, pool, c)
    if c.get('exp') == 'mask':
        return run_mask(ctx, pool, c)
    truth = pool.get(c['cat'])
    if truth.lc:
        status, obs, record = cx.lc_real_load(truth, c)
        ans = ctx.driver.query([cx.lc_model_line(truth, record, c)])[0] if status == 'ok' else None
        ctx.case(c, nontrivial=True)
        ctx.count('exp:lc-filter')
        return cx.lc_oracle_and_model(ctx, truth, c, status, obs, record, ans)
    ctx.case(c, nontrivial=cx.nontrivial(truth, c))
    obs, _ = checked_load(ctx, pool, c, 'corpus')
    return obs is not None


def boundary_cases():
    cat = {'kind': 'snap', 'seed': 31, 'nhalos': [4, 0, 3], 'inds': [2, 5, 9], 'cleaned': True, 'away': 0.25}
    o = {'cleaned': True, 'passthrough': False, 'subsamples': True, 'unpack_bits': False, 'fields': ['id', 'N']}
    pt = dict(o, passthrough=True, fields='all')
    unc = dict(o, cleaned=False)
    out = []
    for opts in (o, pt, unc):
        out.append({'exp': 'mask', 'cat': cat, 'opts': opts, 'files': [0, 1, 2], 'path': 'dir', 'filt': {'kind': 'nothing'}})
        out.append({'exp': 'mask', 'cat': cat, 'opts': opts, 'files': [2, 0], 'path': 'list', 'filt': {'kind': 'Nthr', 'thr': 250}})
    out.append({'exp': 'mask', 'cat': cat, 'opts': o, 'files': [0, 1, 2], 'path': 'dir', 'filt': {'kind': 'all'}})
    out.append({'exp': 'glue', 'cat': cat, 'opts': o, 'files': [2, 1, 0], 'path': 'list', 'filt': {'kind': 'none'}})
    out.append({'exp': 'glue', 'cat': cat, 'opts': pt, 'files': [1, 2], 'path': 'tuple',
                'filt': {'kind': 'mixed', 'subs': [{'kind': 'all'}, {'kind': 'nothing'}]}})
    return out


def run(ctx):
    rng = ctx.rng
    pool = cx.Pool(ctx)
    root = Path(ctx.tmpdir())
    for c in corpus_cases():
        ctx.count('corpus')
        run_case(ctx, pool, c)
    for c in boundary_cases():
        ctx.count('boundary')
        run_case(ctx, pool, c)
    for k in range(ctx.pick(150, 1000)):
        exp_paths(ctx, rng, root, k % 7)
    ncat = ctx.pick(5, 38)
    recipes = []
    for k in range(ncat):
        recipe = cx.draw_cat_recipe(rng, shape=None if k % 3 else 'random')
        if len(recipe['nhalos']) == 1 and rng.random() < 0.7:
            recipe['nhalos'] = recipe['nhalos'] + [int(rng.integers(0, 7))]
            recipe['inds'] = recipe['inds'] + [recipe['inds'][-1] + int(rng.integers(1, 4))]
        recipes.append(recipe)
        for _ in range(ctx.pick(2, 3)):
            exp_glue(ctx, rng, pool, recipe)
        for _ in range(ctx.pick(4, 5)):
            exp_mask(ctx, rng, pool, recipe)
    exp_bad_lists(ctx, rng, pool, recipes)
    check_filter_all_columns(ctx)
    for k in range(ctx.pick(2, 8)):
        recipe = cx.draw_cat_recipe(rng, shape='lc')
        for _ in range(3):
            c = cx.draw_lc_case(rng, recipe)
            if c['filt']['kind'] == 'none':
                c['filt'] = {'kind': 'parity', 'p': int(rng.integers(0, 2))}
            run_case(ctx, pool, c)
    ctx.extra['scope'] = '%d catalogs, glue over subsets/orders of 1-4 files, masks per superslab' % ncat


def intensify(ctx):
    rng = ctx.rng
    pool = cx.Pool(ctx)
    for k in range(15):
        recipe = cx.draw_cat_recipe(rng)
        for _ in range(4):
            exp_glue(ctx, rng, pool, recipe)
        for _ in range(6):
            exp_mask(ctx, rng, pool, recipe)


def replay(ctx, doc):
    _c = doc['failure']['case'] if 'failure' in doc else doc
    if _c.get('kind') == 'filter-all-columns':
        check_filter_all_columns(ctx, n=10 ** 6)
        return
    c = doc['failure']['case'] if 'failure' in doc else doc
    pool = cx.Pool(ctx)
    if c.get('exp') in ('paths', 'bad-list'):
        print('path experiments are regenerated from the seed; re-run ./check C03')
        return
    print('held' if run_case(ctx, pool, c) else 'FAILED')
