"""C12 — HOD staging keeps every per-halo attribute on the same row (DESIGN.md §7 C12).

Tie in two forms:
  * translator `extract(ctx)`: parses `AbacusHOD.staging` / `_searchsorted_parallel` of /repo's working tree with
    `ast` and regenerates lean/AbacusVerif/Generated/StagingCols.lean (per-halo arrays allocated / filled per slab /
    returned in `halo_data`, each with its guarding `want_*` flag, and the arrays the sort block permutes by
    `sortind`).  The property theorems are stated over those lists and the model driver runs with them.
  * correspondence + independent oracle on the real `AbacusHOD(...)` object's staging output for synthetic
    subsample file sets (harness/stagegen.py) in which every attribute encodes its halo's id injectively.
"""
import ast
import gc
import itertools
import json
import logging
import os
import shutil
import tempfile
from fractions import Fraction

import numpy as np

import stagegen as sg
import vcommon

THEOREMS = [
    'AbacusVerif.Staging.returned_cols_permuted',
    'AbacusVerif.Staging.returned_cols_filled',
    'AbacusVerif.Staging.argsort_is_perm',
    'AbacusVerif.Staging.sort_rows_aligned',
    'AbacusVerif.Staging.staging_rows_aligned',
    'AbacusVerif.Staging.ids_sorted',
    'AbacusVerif.Staging.pinds_points_to_host',
    'AbacusVerif.Staging.staged_pinds_point_to_host',
    'AbacusVerif.Staging.already_sorted_noop',
    'AbacusVerif.Staging.concat_rows',
]
LEAN_MODULES = ['AbacusVerif.Generated.StagingCols', 'AbacusVerif.Props.C12']
DRIVER = 'drv_c12'
RULE = ('synthetic subsample file sets read by the real AbacusHOD.__init__/staging: exhaustive id arrangements '
        '(all permutations of 2..3 (4 thorough) ids x all splits into two slab files x want_AB/want_shear) plus seeded '
        'random sets (1-4 slab files, empty slabs, chunk/n_chunks settings, ids increasing / decreasing / slab-wise '
        'decreasing / interleaved / shuffled, small and 2^20-range ids, particles incl. orphans, want_AB/shear/ranks/expvel, '
        'MT file naming via ELG/QSO/force_mt, secondary redshift, light cone, 1-D velocity deviates, optional rank fields); '
        'a case is non-trivial when at least 2 halos are loaded; distinct = distinct case dicts')
TRUSTED = ['harness/stagegen.py: the synthetic h5/asdf writer and the injective dyadic id encodings (the files define what '
           '"the halo\'s attributes" are); the mapping file field -> returned array used for the model input is the documented one '
           '(x_L2com->hpos, v_L2com->hvel, N*Mpart->hmass, multi_halos, randoms, randoms_gaus_vrms|randoms_exp->hveldev, '
           'sigmav3d_L2com, r98/r25->hc, r98->hrvir, deltac_rank, fenv_rank, shear_rank)',
           'the ast translator of staging() in harness/props/c12.py (strict: any statement of the sort block it does not recognise breaks the tie)',
           'h5py, asdf; numpy argsort / searchsorted / fancy indexing / slice assignment modelled by specification',
           'halo ids are duplicate-free (numpy argsort is not stable; the property quantifies over duplicate-free ids)']
ASSUMPTIONS = ['ids and particle serials < 2^20 so that every float32 field of the synthetic files is exact',
               'most cases call the real __init__ with staging() intercepted right after it returns (the remainder of __init__ '
               'builds two 100^3 / 100^4-bin histograms, 4.5 s and 0.8 GB); a few cases per run go through the complete constructor']

SRC = 'abacusnbody/hod/abacus_hod.py'
GEN = vcommon.LEAN / 'AbacusVerif' / 'Generated' / 'StagingCols.lean'

HALO_KEYS_BASE = ['hpos', 'hvel', 'hmass', 'hid', 'hmultis', 'hrandoms', 'hveldev', 'hsigma3d', 'hc', 'hrvir']
ALL_HALO_COLS = ['hpos', 'hvel', 'hmass', 'hmultis', 'hrandoms', 'hveldev', 'hsigma3d', 'hc', 'hrvir',
                 'hdeltac', 'hfenv', 'hshear']


# =========================================================================== translator

class TieError(Exception):
    pass


def _is_self_flag(test):
    return (isinstance(test, ast.Attribute) and isinstance(test.value, ast.Name) and test.value.id == 'self'
            and test.attr.startswith('want_'))


def _names_in(node):
    return {n.id for n in ast.walk(node) if isinstance(n, ast.Name)}


SORT_TEST = 'not np.all(hid[:-1] <= hid[1:])'
SORT_ASSERT = 'np.all(hid[:-1] <= hid[1:])'


def extract_tables(src_text):
    """parse staging(); returns dict of tables; raises TieError when the source has a shape it cannot interpret"""
    tree = ast.parse(src_text)
    cls = next((n for n in tree.body if isinstance(n, ast.ClassDef) and n.name == 'AbacusHOD'), None)
    if cls is None:
        raise TieError('class AbacusHOD not found')
    fn = next((n for n in cls.body if isinstance(n, ast.FunctionDef) and n.name == 'staging'), None)
    if fn is None:
        raise TieError('AbacusHOD.staging not found')
    T = dict(allocated=[], filled=[], part_allocated=[], part_filled=[], returned=[], permuted=[], part_returned=[])
    state = dict(sort_blocks=0, assert_after=False, pinds=None, sort_seen=False, rebinds=[])

    def sort_block(stmts, cond, st):
        for s in stmts:
            if isinstance(s, ast.Expr) and isinstance(s.value, ast.Call) and ast.unparse(s.value.func).startswith('self.logger.'):
                continue
            if isinstance(s, ast.If) and _is_self_flag(s.test) and not s.orelse:
                if cond is not None:
                    raise TieError('nested flag conditions in the sort block')
                sort_block(s.body, s.test.attr, st)
                continue
            if isinstance(s, ast.Assign) and len(s.targets) == 1 and isinstance(s.targets[0], ast.Name):
                tgt = s.targets[0].id
                val = ast.unparse(s.value)
                if tgt == 'sortind':
                    if st['sortind'] is not None or T['permuted']:
                        raise TieError('sortind assigned twice or after a permutation: ' + ast.unparse(s))
                    st['sortind'] = val
                    continue
                if val == '%s[sortind]' % tgt and st['sortind'] is not None:
                    T['permuted'].append((tgt, cond))
                    continue
            raise TieError('statement of the sort block not understood: ' + ast.unparse(s)[:200])

    def walk(stmts, cond):
        for s in stmts:
            if isinstance(s, ast.If):
                if ast.unparse(s.test) == SORT_TEST:
                    if cond is not None or s.orelse:
                        raise TieError('sort block under a flag / with else')
                    st = {'sortind': None}
                    sort_block(s.body, None, st)
                    if st['sortind'] != 'np.argsort(hid)':
                        raise TieError('sort index is %r, expected np.argsort(hid)' % (st['sortind'],))
                    state['sort_blocks'] += 1
                    state['sort_seen'] = True
                    continue
                if _is_self_flag(s.test):
                    if cond is not None and cond != s.test.attr:
                        raise TieError('nested flag conditions %s / %s' % (cond, s.test.attr))
                    walk(s.body, s.test.attr)
                    walk(s.orelse, 'not ' + s.test.attr)
                else:
                    walk(s.body, cond)
                    walk(s.orelse, cond)
                continue
            if isinstance(s, (ast.For, ast.While, ast.With)):
                walk(s.body, cond)
                continue
            if isinstance(s, ast.Assert):
                if ast.unparse(s.test) == SORT_ASSERT and state['sort_seen']:
                    state['assert_after'] = True
                continue
            if not isinstance(s, ast.Assign) or len(s.targets) != 1:
                continue
            tgt, val = s.targets[0], s.value
            if isinstance(tgt, ast.Name):
                if isinstance(val, ast.Call) and ast.unparse(val.func) == 'np.empty' and val.args:
                    nm = _names_in(val.args[0])
                    if 'Nhalos_tot' in nm:
                        T['allocated'].append((tgt.id, cond))
                        continue
                    if 'Nparts_tot' in nm:
                        T['part_allocated'].append((tgt.id, cond))
                        continue
                if tgt.id == 'halo_data':
                    if not isinstance(val, ast.Dict):
                        raise TieError('halo_data is not a dict literal')
                    for k, v in zip(val.keys, val.values):
                        if not (isinstance(k, ast.Constant) and isinstance(v, ast.Name)):
                            raise TieError('halo_data entry not `key: array`: ' + ast.unparse(val)[:200])
                        T['returned'].append((k.value, v.id, cond))
                    continue
                if tgt.id == 'particle_data':
                    if isinstance(val, ast.Dict):
                        for k, v in zip(val.keys, val.values):
                            if isinstance(k, ast.Constant) and isinstance(v, ast.Name):
                                T['part_returned'].append((k.value, v.id, cond))
                    continue
                if tgt.id == 'pinds':
                    state['pinds'] = ast.unparse(val)
                    continue
                state['rebinds'].append((tgt.id, ast.unparse(s)[:120], state['sort_seen']))
                continue
            if isinstance(tgt, ast.Subscript) and isinstance(tgt.value, ast.Name):
                base = tgt.value.id
                if base == 'halo_data':
                    if not (isinstance(tgt.slice, ast.Constant) and isinstance(val, ast.Name)):
                        raise TieError('halo_data[...] assignment not understood: ' + ast.unparse(s)[:200])
                    T['returned'].append((tgt.slice.value, val.id, cond))
                    continue
                if base == 'particle_data':
                    if isinstance(tgt.slice, ast.Constant) and isinstance(val, ast.Name):
                        T['part_returned'].append((tgt.slice.value, val.id, cond))
                    continue
                if isinstance(tgt.slice, ast.Slice) and tgt.slice.lower is not None:
                    lo = ast.unparse(tgt.slice.lower)
                    hi = ast.unparse(tgt.slice.upper) if tgt.slice.upper is not None else ''
                    if lo == 'halo_ticker':
                        if hi != 'halo_ticker + Nhalos[eslab - start]':
                            raise TieError('slab fill of %s with upper bound %r' % (base, hi))
                        T['filled'].append((base, cond))
                        continue
                    if lo == 'parts_ticker':
                        if hi != 'parts_ticker + Nparts[eslab - start]':
                            raise TieError('particle fill of %s with upper bound %r' % (base, hi))
                        T['part_filled'].append((base, cond))
                        continue

    walk(fn.body, None)
    if state['sort_blocks'] != 1:
        raise TieError('expected exactly one sort block `if %s:`, found %d' % (SORT_TEST, state['sort_blocks']))
    if not state['assert_after']:
        raise TieError('`assert %s` after the sort block not found' % SORT_ASSERT)
    if state['pinds'] != '_searchsorted_parallel(hid, phid)':
        raise TieError('pinds = %r' % (state['pinds'],))
    # ticker increments
    incs = [ast.unparse(n) for n in ast.walk(fn) if isinstance(n, ast.AugAssign)]
    for want in ('halo_ticker += Nhalos[eslab - start]', 'parts_ticker += Nparts[eslab - start]'):
        if incs.count(want) != 1:
            raise TieError('ticker increment %r found %d times (all: %s)' % (want, incs.count(want), incs))
    # a returned array may only be bound by its allocation and by the sort block
    ret_vars = {v for (_, v, _) in T['returned']}
    for (name, text, _after) in state['rebinds']:
        if name in ret_vars:
            raise TieError('returned per-halo array rebound outside allocation / sort block: ' + text)
    # _searchsorted_parallel
    ss = next((n for n in tree.body if isinstance(n, ast.FunctionDef) and n.name == '_searchsorted_parallel'), None)
    if ss is None:
        raise TieError('_searchsorted_parallel not found')
    calls = [c for c in ast.walk(ss) if isinstance(c, ast.Call) and ast.unparse(c.func) == 'np.searchsorted']
    if len(calls) != 1:
        raise TieError('expected one np.searchsorted call')
    c = calls[0]
    argn = [a.arg for a in ss.args.args]
    if len(argn) != 2 or [ast.unparse(a) for a in c.args] != [argn[0], '%s[i]' % argn[1]]:
        raise TieError('np.searchsorted arguments: ' + ast.unparse(c))
    side = 'left'
    for kw in c.keywords:
        if kw.arg == 'side' and isinstance(kw.value, ast.Constant):
            side = kw.value.value
        else:
            raise TieError('np.searchsorted keyword: ' + ast.unparse(c))
    T['search_side'] = side
    T['sort_key'] = 'hid'
    flags = []
    for tab in ('allocated', 'filled', 'returned', 'permuted', 'part_filled'):
        for e in T[tab]:
            c = e[-1]
            if tab == 'part_filled' and c == 'want_ranks':
                continue   # the rank arrays are modelled apart (defaults when the flag is off / a field is missing)
            if c is not None:
                if c.startswith('not '):
                    raise TieError('%s entry %r under a negated flag' % (tab, e))
                if c not in flags:
                    flags.append(c)
    T['flags'] = flags
    return T


def _lean_str(s):
    return '"' + s.replace('\\', '\\\\').replace('"', '\\"') + '"'


def _lean_opt(c):
    return 'none' if c is None else '(some %s)' % _lean_str(c)


def render_lean(T):
    def pairs(tab):
        return '[' + ',\n   '.join('(%s, %s)' % (_lean_str(v), _lean_opt(c)) for (v, c) in tab) + ']'

    ret = '[' + ',\n   '.join('(%s, %s, %s)' % (_lean_str(k), _lean_str(v), _lean_opt(c)) for (k, v, c) in T['returned']) + ']'
    part = [(v, c) for (v, c) in T['part_filled'] if c != 'want_ranks' and v != 'phid']
    return '''/-
  GENERATED by harness/props/c12.py `extract` from abacusnbody/hod/abacus_hod.py (AbacusHOD.staging,
  _searchsorted_parallel) of the current working tree, by parsing the source with Python's `ast`.
  Do not edit: regenerated on every run of `./check C12`.
-/
namespace AbacusVerif.Generated.StagingCols

/-- every entry of the returned `halo_data`: (key, local array, guarding `self.want_*` flag) -/
def returned : List (String × String × Option String) :=
  %s

/-- every `X = X[sortind]` statement of the sort block: (array, guarding flag) -/
def permuted : List (String × Option String) :=
  %s

/-- per-halo arrays allocated with `np.empty(… Nhalos_tot …)` -/
def allocated : List (String × Option String) :=
  %s

/-- arrays filled slab by slab, `X[halo_ticker : halo_ticker + Nhalos[eslab - start]] = …` -/
def filled : List (String × Option String) :=
  %s

/-- per-particle arrays filled slab by slab (rank arrays and `phid` apart) -/
def partFilled : List (String × Option String) :=
  %s

/-- the flags that guard any of the above -/
def flagNames : List String := [%s]

/-- `sortind = np.argsort(<sortKey>)`, guard and assert `np.all(hid[:-1] <= hid[1:])` -/
def sortKey : String := %s

/-- `side` of the `np.searchsorted(a, b[i])` call in `_searchsorted_parallel` -/
def searchSide : String := %s

def active (flags : List String) (c : Option String) : Bool :=
  match c with
  | none => true
  | some f => flags.contains f

def returnedVars (flags : List String) : List String :=
  (returned.filter (fun e => active flags e.2.2)).map (·.2.1)

def permutedVars (flags : List String) : List String :=
  (permuted.filter (fun e => active flags e.2)).map (·.1)

def filledVars (flags : List String) : List String :=
  ((filled.filter (fun e => active flags e.2)).map (·.1)).filter
    (fun v => (allocated.filter (fun e => active flags e.2)).any (·.1 == v))

def partVars (flags : List String) : List String :=
  (partFilled.filter (fun e => active flags e.2)).map (·.1)

end AbacusVerif.Generated.StagingCols
''' % (ret, pairs(T['permuted']), pairs(T['allocated']), pairs(T['filled']), pairs(part),
       ', '.join(_lean_str(f) for f in T['flags']), _lean_str(T['sort_key']), _lean_str(T['search_side']))


_TABLES = {}


def extract(ctx):
    src = (vcommon.REPO / SRC).read_text()
    try:
        T = extract_tables(src)
    except TieError as e:
        ctx.tie('staging-translator', str(e))
        _TABLES['error'] = str(e)
        return
    _TABLES['T'] = T
    if T['search_side'] != 'left':
        ctx.tie('staging-translator', "np.searchsorted side=%r: the model's searchsortedLeft no longer mirrors the code" % T['search_side'])
    # every returned array must be allocated and filled under a compatible flag
    for (k, v, c) in T['returned']:
        for tab in ('allocated', 'filled'):
            if not any(v == v2 and (c2 is None or c2 == c) for (v2, c2) in T[tab]):
                ctx.tie('staging-translator', 'halo_data[%r] = %s is not %s under flag %s' % (k, v, tab, c))
        if k != v:
            ctx.count('translator:key!=var')
    text = render_lean(T)
    if not GEN.exists() or GEN.read_text() != text:
        GEN.write_text(text)
        ctx.count('translator:regenerated')
    ctx.extra['translator'] = {
        'returned': [list(e) for e in T['returned']], 'permuted': [list(e) for e in T['permuted']],
        'not_permuted': [v for (_, v, c) in T['returned'] if not any(v == p and (pc is None or pc == c) for (p, pc) in T['permuted'])],
        'flags': T['flags'], 'search_side': T['search_side']}


# =========================================================================== running the real code

_IMPL = {}


def impl():
    if not _IMPL:
        from abacusnbody.hod import abacus_hod
        logging.getLogger('AbacusHOD').setLevel(logging.ERROR)

        class _Stop(Exception):
            pass

        class Probe(abacus_hod.AbacusHOD):
            """the real __init__, interrupted right after the real staging() returned"""

            def staging(self):
                self._staged = abacus_hod.AbacusHOD.staging(self)
                raise _Stop()

        _IMPL.update(mod=abacus_hod, Probe=Probe, Stop=_Stop)
    return _IMPL


def run_impl(ctx, case, full=False):
    """write the file set, run the real code; returns {'halo':{}, 'part':{}, 'numslabs':n} or {'err': name}"""
    I = impl()
    root = tempfile.mkdtemp(prefix='case_', dir=ctx.tmpdir())
    try:
        a = sg.write_case(root, case)
        try:
            with np.errstate(all='ignore'):
                if full:
                    o = I['mod'].AbacusHOD(a[0], a[1], a[2], **a[3])
                    hd, pd, params = o.halo_data, o.particle_data, o.params
                else:
                    o = I['Probe'].__new__(I['Probe'])
                    try:
                        o.__init__(a[0], a[1], a[2], **a[3])
                        return {'err': 'staging-not-called'}
                    except I['Stop']:
                        pass
                    hd, pd, params, _ = o._staged
        except MemoryError:
            return {'skip': 'MemoryError'}
        except Exception as e:   # what the real code raises on this file set
            return {'err': type(e).__name__, 'msg': str(e)[:200]}
        res = {'halo': {k: np.array(v) for k, v in hd.items()}, 'part': {k: np.array(v) for k, v in pd.items()},
               'numslabs': int(params['numslabs'])}
        del o, hd, pd
        return res
    finally:
        _IMPL['n'] = _IMPL.get('n', 0) + 1
        if full or _IMPL['n'] % 25 == 0:
            gc.collect()      # the real code never closes its h5py / asdf handles
        shutil.rmtree(root, ignore_errors=True)


# =========================================================================== model side

def flags_of(case):
    return [f for f, k in (('want_AB', 'AB'), ('want_shear', 'shear'), ('want_ranks', 'ranks'), ('want_expvel', 'expvel')) if case.get(k)]


def fmt_col(vals):
    return ','.join(':'.join(str(x) for x in v) for v in vals) if len(vals) else '-'


def fmt_ids(ids):
    return ','.join(str(int(i)) for i in ids) if len(ids) else '-'


def model_line(case):
    fl = flags_of(case)
    load_parts = case.get('ztype', 'primary') != 'secondary'
    toks = ['staging', 'nfiles=%d' % (1 if case.get('ztype') == 'lightcone' else case['nfiles']),
            'nchunks=%d' % case.get('n_chunks', 1), 'chunk=%d' % case.get('chunk', -1),
            'flags=%s' % (','.join(fl) if fl else '-'), 'parts=%d' % int(load_parts),
            'veldev1d=%d' % int(bool(case.get('veldev1d'))), 'unit=%d' % sg.UNIT]
    for slab in case['slabs']:
        toks += ['slab', 'hid', fmt_ids(slab['ids'])]
        hc = sg.halo_columns(slab['ids'], bool(case.get('expvel')), bool(case.get('veldev1d')))
        for name in ALL_HALO_COLS:
            toks += ['col', name, fmt_col(sg.to_units(hc[name]))]
        parts = slab.get('parts', []) if load_parts else []
        toks += ['phid', fmt_ids([p[1] for p in parts])]
        if load_parts:
            pc = sg.part_columns(parts)
            present = set(sg.PART_SOURCE) - {'pranks', 'pranksv', 'pranksp', 'pranksr', 'pranksc'}
            if case.get('ranks'):
                present |= {'pranks', 'pranksv'} | {'p' + r for r in case.get('rankfields', [])}
            for name in sg.PART_SOURCE:
                if name in present:
                    toks += ['pcol', name, fmt_col(sg.to_units(pc[name]))]
    return ' '.join(toks)


def parse_col(s):
    if s == '-':
        return []
    return [[int(x) for x in v.split(':')] for v in s.split(',')]


def parse_model(s):
    if s.startswith('err ') or s == 'bad-op':
        return {'err': s}
    out = {'halo': {}, 'part': {}}
    for tok in s.split(' ')[1:]:
        if not tok:
            continue
        k, v = tok.split('=', 1)
        if k == 'numslabs':
            out['numslabs'] = int(v)
        elif k in ('hid', 'phid', 'pinds'):
            out[k] = [] if v == '-' else [int(x) for x in v.split(',')]
        elif k.startswith('h:'):
            out['halo'][k[2:]] = parse_col(v)
        elif k.startswith('p:'):
            out['part'][k[2:]] = parse_col(v)
    return out


def canon_impl(res):
    """exact integer view of the real output (values times UNIT)"""
    out = {'numslabs': res['numslabs'], 'halo': {}, 'part': {}}
    for k, v in res['halo'].items():
        if k == 'hid':
            out['hid'] = [int(x) for x in v]
        else:
            out['halo'][k] = sg.to_units(v)
    for k, v in res['part'].items():
        if k in ('phid', 'pinds'):
            out[k] = [int(x) for x in v]
        elif k == 'pweights':
            out['pweights'] = [Fraction(float(x)) for x in v]
        else:
            out['part'][k] = sg.to_units(v)
    return out


def compare(ctx, case, m, res, label):
    """model vs implementation on everything observable"""
    if 'err' in m or 'err' in res:
        if ('err' in m) != ('err' in res):
            ctx.disagree('staging[%s] error behaviour' % label, case, m.get('err', 'ok'), res.get('err', 'ok') + ' ' + res.get('msg', ''))
        return
    try:
        im = canon_impl(res)
    except ValueError as e:
        ctx.disagree('staging[%s] returned a value that no input encodes (%s)' % (label, e), case, 'exact', 'inexact')
        return
    mm = {'numslabs': m['numslabs'], 'hid': m['hid'], 'phid': m['phid'], 'pinds': m['pinds'], 'halo': m['halo'],
          'part': {k: v for k, v in m['part'].items() if k not in ('pNp', 'psubsampling')}}
    np_, ps_ = m['part'].get('pNp', []), m['part'].get('psubsampling', [])
    mm['pweights'] = [Fraction(sg.UNIT, a[0]) * Fraction(sg.UNIT, b[0]) for a, b in zip(np_, ps_)]
    for k in ('numslabs', 'hid', 'phid', 'pinds', 'pweights'):
        if mm[k] != im.get(k):
            ctx.disagree('staging[%s] %s' % (label, k), case, str(mm[k])[:300], str(im.get(k))[:300])
    for side in ('halo', 'part'):
        if sorted(mm[side]) != sorted(im[side]):
            ctx.disagree('staging[%s] %s_data keys' % (label, side), case, sorted(mm[side]), sorted(im[side]))
        for k in mm[side]:
            if k in im[side] and mm[side][k] != im[side][k]:
                ctx.disagree('staging[%s] %s_data[%r]' % (label, side, k), case, str(mm[side][k])[:300], str(im[side][k])[:300])


# =========================================================================== oracle (independent of the model)

def loaded_slabs(case):
    s, e = sg.slab_range(case)
    return case['slabs'][s:e] if s <= e else None


def config_valid(case):
    s, e = sg.slab_range(case)
    return 0 <= s <= e and case.get('chunk', -1) < case.get('n_chunks', 1)


def oracle(ctx, case, res, label):
    """the property restated on the real output: every attribute of row i decodes to the id hid[i]; ids strictly
    increasing and exactly the ids of the loaded slab files; ids[pinds[p]] == phid[p]"""
    if not config_valid(case):
        return
    v1d = bool(case.get('veldev1d'))
    if 'err' in res:
        ctx.fail('staging[%s] raises %s on a valid subsample file set' % (label, res['err']), case,
                 res['err'] + ': ' + res.get('msg', ''), 'halo_data / particle_data',
                 key='staging:raises:%s' % res['err'])
        return
    slabs = loaded_slabs(case)
    ids_in = [i for s in slabs for i in s['ids']]
    hd, pd = res['halo'], res['part']
    want = list(HALO_KEYS_BASE) + (['hdeltac', 'hfenv'] if case.get('AB') else []) + (['hshear'] if case.get('shear') else [])
    missing = [k for k in want if k not in hd]
    if missing:
        ctx.fail('staging[%s] halo_data lacks %s' % (label, missing), case, sorted(hd), want, key='staging:missing-column')
        return
    hid = np.asarray(hd['hid'])
    if sorted(int(x) for x in hid) != sorted(ids_in):
        ctx.fail('staging[%s] returned ids are not the ids of the loaded slab files' % label, case,
                 [int(x) for x in hid][:50], sorted(ids_in)[:50], key='staging:ids-not-a-permutation')
        return
    if len(set(ids_in)) == len(ids_in) and not np.all(hid[:-1] < hid[1:]):
        ctx.fail('staging[%s] ids are not strictly increasing' % label, case, [int(x) for x in hid][:50], 'strictly increasing',
                 key='staging:ids-not-increasing')
    dec = sg.halo_decoders(bool(case.get('expvel')), v1d)
    for k in want:
        arr = np.asarray(hd[k])
        if len(arr) != len(hid):
            ctx.fail('staging[%s] halo_data[%r] has %d rows for %d halos' % (label, k, len(arr), len(hid)), case, len(arr), len(hid),
                     key='staging:row-count:%s' % k)
            continue
        with np.errstate(all='ignore'):
            got = dec[k](arr)
        bad = np.nonzero(~(got == hid.astype(np.float64)))[0]
        if len(bad):
            r = int(bad[0])
            key = 'staging:veldev-1d-reshape' if (v1d and k == 'hveldev') else 'staging:row-misaligned:%s' % k
            ctx.fail('staging[%s] halo_data[%r] row %d describes another halo than hid[%d]=%d (%d of %d rows)' % (
                label, k, r, r, int(hid[r]), len(bad), len(hid)), case,
                {'row': r, k: np.asarray(arr[r]).tolist(), 'decodes_to_id': (None if np.isnan(got[r]) else float(got[r]))},
                {'hid': int(hid[r])}, key=key)
    # ---- particles
    if case.get('ztype', 'primary') == 'secondary':
        parts = []
    else:
        parts = [p for s in slabs for p in s.get('parts', [])]
    ks = np.array([p[0] for p in parts], dtype=np.float64)
    hs = np.array([p[1] for p in parts], dtype=np.int64)
    phid = np.asarray(pd.get('phid', []))
    if [int(x) for x in phid] != [int(x) for x in hs]:
        ctx.fail('staging[%s] particle host ids are not the file contents in slab order' % label, case,
                 [int(x) for x in phid][:50], [int(x) for x in hs][:50], key='staging:phid')
        return
    pdec = sg.part_decoders()
    for k, (kind, f) in pdec.items():
        if k not in pd:
            if k in ('pdeltac', 'pfenv') and not case.get('AB') or k == 'pshear' and not case.get('shear'):
                continue
            ctx.fail('staging[%s] particle_data lacks %r' % (label, k), case, sorted(pd), k, key='staging:missing-column')
            continue
        arr = np.asarray(pd[k])
        if k.startswith('pranks'):
            if not case.get('ranks'):
                exp = np.ones(len(hs))
            elif k[1:] in ('ranksp', 'ranksr', 'ranksc') and k[1:] not in case.get('rankfields', []):
                exp = np.zeros(len(hs))
            else:
                exp = None
            if exp is not None:
                if not np.array_equal(arr, exp):
                    ctx.fail('staging[%s] particle_data[%r] default' % (label, k), case, arr[:20].tolist(), exp[:20].tolist(),
                             key='staging:rank-default')
                continue
        with np.errstate(all='ignore'):
            got = f(arr)
        ref = ks if kind == 'k' else hs.astype(np.float64)
        if len(got) != len(ref) or not np.array_equal(got, ref):
            ctx.fail('staging[%s] particle_data[%r] is not the file column in slab order' % (label, k), case,
                     np.asarray(got)[:20].tolist(), ref[:20].tolist(), key='staging:particle-column:%s' % k)
    pinds = np.asarray(pd.get('pinds', []))
    if len(pinds) != len(hs):
        ctx.fail('staging[%s] pinds has %d entries for %d particles' % (label, len(pinds), len(hs)), case, len(pinds), len(hs), key='staging:pinds')
    else:
        idset = set(int(x) for x in hid)
        for p in range(len(hs)):
            if int(hs[p]) in idset:
                j = int(pinds[p])
                if not (0 <= j < len(hid)) or int(hid[j]) != int(hs[p]):
                    ctx.fail('staging[%s] pinds[%d]=%d does not point to the halo with id phid[%d]=%d' % (label, p, j, p, int(hs[p])),
                             case, {'pinds': j, 'hid_there': (int(hid[j]) if 0 <= j < len(hid) else None)}, {'phid': int(hs[p])},
                             key='staging:pinds')
                    break
                # the row the particle points to carries its host's velocity and mass
                if not np.array_equal(np.asarray(hd['hvel'][j]), np.asarray(pd['phvel'][p])) or hd['hmass'][j] != pd['phmass'][p]:
                    ctx.fail('staging[%s] particle %d: halo row pinds=%d has another velocity/mass than the particle\'s host' % (label, p, j),
                             case, {'hvel': np.asarray(hd['hvel'][j]).tolist(), 'hmass': float(hd['hmass'][j])},
                             {'phvel': np.asarray(pd['phvel'][p]).tolist(), 'phmass': float(pd['phmass'][p])}, key='staging:pinds-row')
                    break
    if 'pweights' in pd and len(parts):
        pf = sg.part_fields(parts)
        exp = 1 / pf['Np'] / pf['downsample_halo']
        if not np.array_equal(np.asarray(pd['pweights']), exp):
            ctx.fail('staging[%s] pweights' % label, case, np.asarray(pd['pweights'])[:20].tolist(), exp[:20].tolist(), key='staging:pweights')


# =========================================================================== cases

def base_case(**kw):
    c = {'nfiles': 1, 'n_chunks': 1, 'chunk': -1, 'ztype': 'primary', 'mt': None, 'AB': 0, 'shear': 0, 'ranks': 0,
         'expvel': 0, 'veldev1d': 0, 'rankfields': [], 'slabs': []}
    c.update(kw)
    return c


def add_parts(rng, slabs, ids_all, orphan_prob=0.0, max_per=3):
    """particles of each slab: 0..max_per per halo of that slab, serials unique over the file set"""
    counts = [[int(rng.integers(0, max_per + 1)) for _ in s['ids']] for s in slabs]
    total = sum(sum(c) for c in counts) + len(slabs)
    serials = [int(x) for x in rng.permutation(max(total, 1) * 2)[:total]]
    taken = set(ids_all)
    for s, cs in zip(slabs, counts):
        parts = []
        for hid_, n in zip(s['ids'], cs):
            parts += [[serials.pop(), int(hid_)] for _ in range(n)]
        if orphan_prob and rng.random() < orphan_prob:
            o = int(rng.integers(0, sg.IDMAX))
            if o not in taken:
                parts.append([serials.pop(), o])
        if len(parts) > 1 and rng.random() < 0.5:
            parts = [parts[i] for i in rng.permutation(len(parts))]
        s['parts'] = parts


def exhaustive_cases(ctx):
    out = []
    rng = ctx.rng
    for n in range(2, ctx.pick(3, 4) + 1):
        for perm in itertools.permutations(range(1, n + 1)):
            ids = [5 * i + 2 for i in perm]
            for cut in range(0, n + 1):
                for ab, sh in ((0, 0), (1, 0), (0, 1), (1, 1)):
                    slabs = [{'ids': ids[:cut]}, {'ids': ids[cut:]}]
                    add_parts(rng, slabs, ids, max_per=1)
                    out.append(base_case(nfiles=2, AB=ab, shear=sh, slabs=slabs, kind='exhaustive'))
    return out


ORDERS = ['increasing', 'decreasing', 'slabs-decreasing', 'interleaved', 'shuffled', 'one-swap']


def random_case(rng, nmax):
    ztype = str(rng.choice(['primary'] * 8 + ['secondary', 'lightcone']))
    nfiles = 1 if ztype == 'lightcone' else int(rng.integers(1, 5))
    n = int(rng.integers(0, nmax + 1))
    wide = rng.random() < 0.3
    ids = sorted(int(x) for x in rng.choice(sg.IDMAX if wide else max(3 * n, 4), size=n, replace=False))
    order = str(rng.choice(ORDERS))
    # split into nfiles slabs (empty slabs allowed)
    cuts = sorted(int(x) for x in rng.integers(0, n + 1, size=nfiles - 1))
    bounds = [0] + cuts + [n]
    if order == 'interleaved':
        groups = [[] for _ in range(nfiles)]
        for j, i in enumerate(ids):
            groups[j % nfiles].append(i)
    else:
        seq = list(ids)
        if order == 'decreasing':
            seq = seq[::-1]
        elif order == 'shuffled':
            seq = [seq[i] for i in rng.permutation(n)]
        elif order == 'one-swap' and n >= 2:
            a = int(rng.integers(0, n - 1))
            seq[a], seq[a + 1] = seq[a + 1], seq[a]
        groups = [seq[bounds[k]:bounds[k + 1]] for k in range(nfiles)]
        if order == 'slabs-decreasing':
            groups = groups[::-1]
    slabs = [{'ids': g} for g in groups]
    add_parts(rng, slabs, ids, orphan_prob=0.15)
    n_chunks, chunk = 1, -1
    r = rng.random()
    if ztype != 'lightcone' and r < 0.45:
        n_chunks = int(rng.integers(1, 5))
        chunk = int(rng.integers(0, n_chunks))
    elif r < 0.55:
        chunk = 0
    ranks = int(rng.random() < 0.5)
    c = base_case(nfiles=nfiles, n_chunks=n_chunks, chunk=chunk, ztype=ztype,
                  mt=(None if rng.random() < 0.75 else str(rng.choice(['ELG', 'QSO', 'force']))),
                  AB=int(rng.random() < 0.5), shear=int(rng.random() < 0.5), ranks=ranks,
                  expvel=int(rng.random() < 0.4), veldev1d=int(rng.random() < 0.2),
                  rankfields=[f for f in ('ranksp', 'ranksr', 'ranksc') if ranks and rng.random() < 0.6],
                  slabs=slabs, kind='random:' + order)
    return c


def corpus_cases():
    out = []
    d = vcommon.CORPUS / 'C12'
    if d.is_dir():
        for p in sorted(d.glob('*.json')):
            c = json.loads(p.read_text())
            c.setdefault('kind', 'corpus:' + p.stem)
            out.append(c)
    return out


def n_loaded(case):
    sl = loaded_slabs(case)
    return sum(len(s['ids']) for s in sl) if sl else 0


def check_cases(ctx, cases, label='staging', full=False):
    if ctx.driver is None or ctx.driver.error:
        outs = [None] * len(cases)
    else:
        outs = ctx.driver.query([model_line(c) for c in cases])
    for c, mo in zip(cases, outs):
        res = run_impl(ctx, c, full=full)
        if 'skip' in res:
            ctx.count('skipped:' + res['skip'])
            continue
        nl = n_loaded(c)
        ctx.case({k: v for k, v in c.items()}, nontrivial=nl >= 2)
        ctx.count('kind:' + c.get('kind', '?').split(':')[0])
        if c.get('kind', '').startswith('random:'):
            ctx.count('order:' + c['kind'].split(':', 1)[1])
        ctx.count('slabfiles=%d' % c['nfiles'])
        ctx.count('halos:' + ('0' if nl == 0 else '1' if nl == 1 else '2-5' if nl <= 5 else '6+'))
        for k in ('AB', 'shear', 'ranks', 'expvel', 'veldev1d'):
            if c.get(k):
                ctx.count('flag:' + k)
        if c.get('mt'):
            ctx.count('mt:' + c['mt'])
        ctx.count('ztype:' + c.get('ztype', 'primary'))
        if c.get('n_chunks', 1) > 1:
            ctx.count('chunked')
        if not config_valid(c):
            ctx.count('invalid-chunk-config')
        if 'err' in res:
            ctx.count('impl-raises:' + res['err'])
        elif 'hid' in res['halo']:
            ids_in = [i for s in (loaded_slabs(c) or []) for i in s['ids']]
            ctx.count('sort-path:' + ('noop' if ids_in == sorted(ids_in) else 'permuting'))
        oracle(ctx, c, res, label)
        if mo is not None:
            compare(ctx, c, parse_model(mo), res, label)
            ctx.traces_validated += 1


def run(ctx):
    cases = corpus_cases()
    ctx.count('corpus', len(cases))
    cases += exhaustive_cases(ctx)
    nrand = ctx.pick(160, 1500)
    nmax = ctx.pick(10, 40)
    cases += [random_case(ctx.rng, nmax) for _ in range(nrand)]
    check_cases(ctx, cases)
    # a few file sets through the complete constructor, observed at AbacusHOD(...).halo_data / .particle_data
    full = [c for c in cases if n_loaded(c) >= 2 and config_valid(c)]
    pickn = ctx.pick(2, 6)
    sel = [full[int(i)] for i in ctx.rng.choice(len(full), size=min(pickn, len(full)), replace=False)] if full else []
    # make sure one of them takes the permuting path with every flag on
    sel.append(base_case(nfiles=2, AB=1, shear=1, ranks=1, rankfields=['ranksp'],
                         slabs=[{'ids': [40, 41, 47], 'parts': [[5, 47], [1, 40]]}, {'ids': [9, 12], 'parts': [[0, 12], [3, 9], [2, 9]]}],
                         kind='full-constructor'))
    check_cases(ctx, sel, label='AbacusHOD()', full=True)
    ctx.extra['scope'] = ('all permutations of 2..%d ids x splits into 2 slab files x want_AB/want_shear; %d random file sets, up to %d halos'
                          % (ctx.pick(3, 4), nrand, nmax))


def intensify(ctx):
    cases = [random_case(ctx.rng, 60) for _ in range(400)]
    # directed: decreasing ids across two slabs, every flag
    for ab, sh in ((0, 0), (1, 1)):
        cases.append(base_case(nfiles=2, AB=ab, shear=sh, slabs=[{'ids': [7, 9], 'parts': [[0, 7], [1, 9]]}, {'ids': [2, 3], 'parts': [[2, 3]]}],
                               kind='directed'))
    check_cases(ctx, cases, label='staging')


def replay(ctx, doc):
    c = doc['failure']['case'] if 'failure' in doc else doc
    if ctx.driver is not None and not ctx.driver.error:
        print('model:', ctx.driver.query([model_line(c)])[0][:2000])
    check_cases(ctx, [c])
