"""C12 — HOD staging keeps every per-halo attribute on the same row (DESIGN.md §7 C12).

Tie in three forms:
  * dynamic extractor (primary, `extract(ctx)` -> `observe_tables`): the real `AbacusHOD.__init__` / `staging` of the
    working tree is run on probe subsample files in which every dataset column carries its own injective values,
    once per subset of the want_* flags; for every returned array the one expression over the dataset columns
    (column, a/b, a*params[p], 1/a/b, column-or-zeros, constant ones) and the row order (file / id order) that
    reproduce it are recorded, with the order of the ids, the searchsorted side and the treatment of 1-D velocity
    deviates.  These tables are written to lean/AbacusVerif/Generated/StagingCols.lean (part 1); the property
    theorems are stated over them and the model driver runs with them.  Independent of how the source is written.
  * optional `ast` reading of `AbacusHOD.staging` / `_searchsorted_parallel` (part 2 of the generated file): only
    adds obligations when it can interpret the text (allocated/filled tables, agreement with the observation);
    when it cannot, evidence `staging_ast_translator: unavailable (<reason>)` and no tie.
  * correspondence + independent oracle on the real `AbacusHOD(...)` object's staging output for synthetic
    subsample file sets (harness/stagegen.py) in which every attribute encodes its halo's id injectively.
"""
import ast
import gc
import itertools
import json
import logging
import os
import shutil
import tempfile
from fractions import Fraction

import numpy as np

import stagegen as sg
import vcommon

THEOREMS = [
    'AbacusVerif.Staging.observed_complete',
    'AbacusVerif.Staging.returned_cols_permuted',
    'AbacusVerif.Staging.returned_cols_filled',
    'AbacusVerif.Staging.ast_agrees_with_observed',
    'AbacusVerif.Staging.returned_cols_single_source',
    'AbacusVerif.Staging.part_cols_single_source',
    'AbacusVerif.Staging.sources_as_documented',
    'AbacusVerif.Staging.fill_is_concat',
    'AbacusVerif.Staging.fill_is_concat_cols',
    'AbacusVerif.Staging.eval_rowwise',
    'AbacusVerif.Staging.argsort_stable',
    'AbacusVerif.Staging.pinds_first_occurrence',
    'AbacusVerif.Staging.argsort_is_perm',
    'AbacusVerif.Staging.sort_rows_aligned',
    'AbacusVerif.Staging.staging_rows_aligned',
    'AbacusVerif.Staging.ids_sorted',
    'AbacusVerif.Staging.pinds_points_to_host',
    'AbacusVerif.Staging.staged_pinds_point_to_host',
    'AbacusVerif.Staging.already_sorted_noop',
    'AbacusVerif.Staging.concat_rows',
    # C12 -> C09 link (Props/C12LinkC09.lean): the staged tables are valid input of C09's catalogue model
    'AbacusVerif.StagingLink.staged_pinds_in_range',
    'AbacusVerif.StagingLink.hostsPresent_needed',
    'AbacusVerif.StagingLink.needed_cols_returned',
    'AbacusVerif.StagingLink.staged_tables_feed_c09',
]
LEAN_MODULES = ['AbacusVerif.Generated.StagingCols', 'AbacusVerif.Props.C12', 'AbacusVerif.Props.C12LinkC09']
DRIVER = 'drv_c12'
RULE = ('synthetic subsample file sets read by the real AbacusHOD.__init__/staging: exhaustive id arrangements '
        '(all permutations of 2..3 (4 thorough) ids x all splits into two slab files x want_AB/want_shear) plus seeded '
        'random sets (1-4 slab files, empty slabs, chunk/n_chunks settings, ids increasing / decreasing / slab-wise '
        'decreasing / interleaved / shuffled, small and 2^20-range ids, particles incl. orphans, want_AB/shear/ranks/expvel, '
        'MT file naming via ELG/QSO/force_mt, secondary redshift, light cone, 1-D velocity deviates, optional rank fields); '
        'a case is non-trivial when at least 2 halos are loaded; distinct = distinct case dicts')
TRUSTED = ['harness/stagegen.py: the synthetic h5/asdf writer and the injective dyadic id encodings (the files define what '
           '"the halo\'s attributes" are); the model is fed the dataset columns by field name and evaluates the source expressions '
           'regenerated from staging() (Generated/StagingCols.lean haloSources / partSources); the *oracle* decodes each returned array '
           'with the documented meaning (x_L2com->hpos, v_L2com->hvel, N*Mpart->hmass, multi_halos, randoms, '
           'randoms_gaus_vrms|randoms_exp->hveldev, sigmav3d_L2com, r98/r25->hc, r98->hrvir, deltac_rank, fenv_rank, shear_rank)',
           'the dynamic extractor in harness/props/c12.py: tables observed on probe files (2 slabs, 5 halos, 8 particles, ids not sorted) '
           'for each of the 16 flag subsets; an array is explained by a finite grammar of expressions over the dataset columns; '
           'the optional ast reading of staging() only adds obligations when it can interpret the text',
           'h5py, asdf; numpy argsort / searchsorted / fancy indexing / slice assignment modelled by specification',
           'halo ids are duplicate-free (numpy argsort is not stable; the property quantifies over duplicate-free ids)']
ASSUMPTIONS = ['ids and particle serials < 2^20 so that every float32 field of the synthetic files is exact',
               'most cases call the real __init__ with staging() intercepted right after it returns (the remainder of __init__ '
               'builds two 100^3 / 100^4-bin histograms, 4.5 s and 0.8 GB); a few cases per run go through the complete constructor']

SRC = 'abacusnbody/hod/abacus_hod.py'
GEN = vcommon.LEAN / 'AbacusVerif' / 'Generated' / 'StagingCols.lean'

HALO_KEYS_BASE = ['hpos', 'hvel', 'hmass', 'hid', 'hmultis', 'hrandoms', 'hveldev', 'hsigma3d', 'hc', 'hrvir']


# =========================================================================== translator

class TieError(Exception):
    pass


def _is_self_flag(test):
    return (isinstance(test, ast.Attribute) and isinstance(test.value, ast.Name) and test.value.id == 'self'
            and test.attr.startswith('want_'))


def _names_in(node):
    return {n.id for n in ast.walk(node) if isinstance(n, ast.Name)}


SORT_TEST = 'not np.all(hid[:-1] <= hid[1:])'
SORT_ASSERT = 'np.all(hid[:-1] <= hid[1:])'


def extract_tables(src_text):
    """parse staging(); returns dict of tables; raises TieError when the source has a shape it cannot interpret"""
    tree = ast.parse(src_text)
    cls = next((n for n in tree.body if isinstance(n, ast.ClassDef) and n.name == 'AbacusHOD'), None)
    if cls is None:
        raise TieError('class AbacusHOD not found')
    fn = next((n for n in cls.body if isinstance(n, ast.FunctionDef) and n.name == 'staging'), None)
    if fn is None:
        raise TieError('AbacusHOD.staging not found')
    T = dict(allocated=[], filled=[], part_allocated=[], part_filled=[], returned=[], permuted=[], part_returned=[],
             part_defaults=[], notes=[])
    state = dict(sort_blocks=0, assert_after=False, pinds=None, sort_seen=False, rebinds=[], pweights=None)

    def sort_block(stmts, cond, st):
        for s in stmts:
            if isinstance(s, ast.Expr) and isinstance(s.value, ast.Call) and ast.unparse(s.value.func).startswith('self.logger.'):
                continue
            if isinstance(s, ast.If) and _is_self_flag(s.test) and not s.orelse:
                if cond is not None:
                    raise TieError('nested flag conditions in the sort block')
                sort_block(s.body, s.test.attr, st)
                continue
            if isinstance(s, ast.Assign) and len(s.targets) == 1 and isinstance(s.targets[0], ast.Name):
                tgt = s.targets[0].id
                val = ast.unparse(s.value)
                if tgt == 'sortind':
                    if st['sortind'] is not None or T['permuted']:
                        raise TieError('sortind assigned twice or after a permutation: ' + ast.unparse(s))
                    st['sortind'] = val
                    continue
                if val == '%s[sortind]' % tgt and st['sortind'] is not None:
                    T['permuted'].append((tgt, cond))
                    continue
            raise TieError('statement of the sort block not understood: ' + ast.unparse(s)[:200])

    def walk(stmts, cond):
        for s in stmts:
            if isinstance(s, ast.If):
                if ast.unparse(s.test) == SORT_TEST:
                    if cond is not None or s.orelse:
                        raise TieError('sort block under a flag / with else')
                    st = {'sortind': None}
                    sort_block(s.body, None, st)
                    if st['sortind'] != 'np.argsort(hid)':
                        raise TieError('sort index is %r, expected np.argsort(hid)' % (st['sortind'],))
                    state['sort_blocks'] += 1
                    state['sort_seen'] = True
                    continue
                if _is_self_flag(s.test):
                    if cond is not None and cond != s.test.attr:
                        raise TieError('nested flag conditions %s / %s' % (cond, s.test.attr))
                    walk(s.body, s.test.attr)
                    walk(s.orelse, 'not ' + s.test.attr)
                else:
                    walk(s.body, cond)
                    walk(s.orelse, cond)
                continue
            if isinstance(s, (ast.For, ast.While, ast.With)):
                walk(s.body, cond)
                continue
            if isinstance(s, ast.Assert):
                if ast.unparse(s.test) == SORT_ASSERT and state['sort_seen']:
                    state['assert_after'] = True
                continue
            if not isinstance(s, ast.Assign) or len(s.targets) != 1:
                continue
            tgt, val = s.targets[0], s.value
            if isinstance(tgt, ast.Name):
                if isinstance(val, ast.Call) and ast.unparse(val.func) == 'np.empty' and val.args:
                    nm = _names_in(val.args[0])
                    if 'Nhalos_tot' in nm:
                        T['allocated'].append((tgt.id, cond))
                        continue
                    if 'Nparts_tot' in nm:
                        T['part_allocated'].append((tgt.id, cond))
                        continue
                if tgt.id == 'halo_data':
                    if not isinstance(val, ast.Dict):
                        raise TieError('halo_data is not a dict literal')
                    for k, v in zip(val.keys, val.values):
                        if not (isinstance(k, ast.Constant) and isinstance(v, ast.Name)):
                            raise TieError('halo_data entry not `key: array`: ' + ast.unparse(val)[:200])
                        T['returned'].append((k.value, v.id, cond))
                    continue
                if tgt.id == 'particle_data':
                    if not isinstance(val, ast.Dict):
                        raise TieError('particle_data is not a dict literal')
                    for k, v in zip(val.keys, val.values):
                        if not (isinstance(k, ast.Constant) and isinstance(v, ast.Name)):
                            raise TieError('particle_data entry not `key: array`: ' + ast.unparse(val)[:200])
                        T['part_returned'].append((k.value, v.id, cond))
                    continue
                if tgt.id == 'pinds':
                    state['pinds'] = ast.unparse(val)
                    continue
                if tgt.id == 'pweights':
                    state['pweights'] = ast.unparse(val)
                    continue
                state['rebinds'].append((tgt.id, ast.unparse(s)[:120], state['sort_seen']))
                continue
            if isinstance(tgt, ast.Subscript) and isinstance(tgt.value, ast.Name):
                base = tgt.value.id
                if base == 'halo_data':
                    if not (isinstance(tgt.slice, ast.Constant) and isinstance(val, ast.Name)):
                        raise TieError('halo_data[...] assignment not understood: ' + ast.unparse(s)[:200])
                    T['returned'].append((tgt.slice.value, val.id, cond))
                    continue
                if base == 'particle_data':
                    if isinstance(tgt.slice, ast.Constant) and isinstance(val, ast.Name):
                        T['part_returned'].append((tgt.slice.value, val.id, cond))
                    elif isinstance(tgt.slice, ast.Constant) and ast.unparse(val) == 'np.ones(Nparts_tot)':
                        T['part_defaults'].append((tgt.slice.value, 'ones', cond))
                    else:
                        raise TieError('particle_data[...] assignment not understood: ' + ast.unparse(s)[:200])
                    continue
                if isinstance(tgt.slice, ast.Slice) and tgt.slice.lower is not None:
                    lo = ast.unparse(tgt.slice.lower)
                    hi = ast.unparse(tgt.slice.upper) if tgt.slice.upper is not None else ''
                    if lo == 'halo_ticker':
                        if hi != 'halo_ticker + Nhalos[eslab - start]':
                            raise TieError('slab fill of %s with upper bound %r' % (base, hi))
                        T['filled'].append((base, cond))
                        continue
                    if lo == 'parts_ticker':
                        if hi != 'parts_ticker + Nparts[eslab - start]':
                            raise TieError('particle fill of %s with upper bound %r' % (base, hi))
                        T['part_filled'].append((base, cond))
                        continue

    walk(fn.body, None)
    if state['sort_blocks'] != 1:
        raise TieError('expected exactly one sort block `if %s:`, found %d' % (SORT_TEST, state['sort_blocks']))
    if not state['assert_after']:
        raise TieError('`assert %s` after the sort block not found' % SORT_ASSERT)
    if state['pinds'] != '_searchsorted_parallel(hid, phid)':
        raise TieError('pinds = %r' % (state['pinds'],))
    if state['pweights'] != '1 / pNp / psubsampling':
        raise TieError('pweights = %r' % (state['pweights'],))
    T.update(extract_sources(fn, T['notes']))
    # ticker increments
    incs = [ast.unparse(n) for n in ast.walk(fn) if isinstance(n, ast.AugAssign)]
    for want in ('halo_ticker += Nhalos[eslab - start]', 'parts_ticker += Nparts[eslab - start]'):
        if incs.count(want) != 1:
            raise TieError('ticker increment %r found %d times (all: %s)' % (want, incs.count(want), incs))
    # a returned array may only be bound by its allocation and by the sort block
    ret_vars = {v for (_, v, _) in T['returned']}
    for (name, text, _after) in state['rebinds']:
        if name in ret_vars:
            raise TieError('returned per-halo array rebound outside allocation / sort block: ' + text)
    # _searchsorted_parallel
    ss = next((n for n in tree.body if isinstance(n, ast.FunctionDef) and n.name == '_searchsorted_parallel'), None)
    if ss is None:
        raise TieError('_searchsorted_parallel not found')
    calls = [c for c in ast.walk(ss) if isinstance(c, ast.Call) and ast.unparse(c.func) == 'np.searchsorted']
    if len(calls) != 1:
        raise TieError('expected one np.searchsorted call')
    c = calls[0]
    argn = [a.arg for a in ss.args.args]
    if len(argn) != 2 or [ast.unparse(a) for a in c.args] != [argn[0], '%s[i]' % argn[1]]:
        raise TieError('np.searchsorted arguments: ' + ast.unparse(c))
    side = 'left'
    for kw in c.keywords:
        if kw.arg == 'side' and isinstance(kw.value, ast.Constant):
            side = kw.value.value
        else:
            raise TieError('np.searchsorted keyword: ' + ast.unparse(c))
    T['search_side'] = side
    T['sort_key'] = 'hid'
    flags = []
    for tab in ('allocated', 'filled', 'returned', 'permuted', 'part_filled'):
        for e in T[tab]:
            c = e[-1]
            if tab == 'part_filled' and c == 'want_ranks':
                continue
            if c is not None:
                if c.startswith('not '):
                    raise TieError('%s entry %r under a negated flag' % (tab, e))
                if c not in flags:
                    flags.append(c)
    T['flags'] = flags
    return T


ALWAYS = ('always',)


def _guard_of(cond):
    if cond is None:
        return ALWAYS
    if cond.startswith('not '):
        return ('ifnot', cond[4:])
    return ('if', cond)


class Untranslatable(Exception):
    pass


VELDEV_1D_TEST = 'len(halo_vel_dev.shape) == 1'
VELDEV_1D_STACK = 'np.stack((halo_vel_dev, halo_vel_dev, halo_vel_dev), axis=1)'
PART_SECTION_TEST = "self.z_type == 'primary' or self.z_type == 'lightcone'"
TABLE_VARS = {'maskedhalos': ('newfile', 'halos'), 'subsample': ('newpart', 'particles')}


def extract_sources(fn, notes):
    """the mapping "file field -> array" of the slab loop: for every array filled by `X[ticker : ...] = value`, the
    expression over dataset columns that `value` denotes, with the flag it depends on.  Expressions it cannot
    translate structurally are left out and noted (the caller reports them as a broken tie)."""
    loops = [n for n in fn.body if isinstance(n, ast.For) and ast.unparse(n.iter) == 'range(start, end)']
    fill_loops = [l for l in loops if any(isinstance(x, ast.Subscript) and isinstance(x.slice, ast.Slice) and x.slice.lower is not None
                                          and ast.unparse(x.slice.lower) in ('halo_ticker', 'parts_ticker') for x in ast.walk(l))]
    if len(fill_loops) != 1:
        raise TieError('expected one slab fill loop `for eslab in range(start, end)`, found %d' % len(fill_loops))
    env = {}
    out = {'halo_sources': [], 'part_sources': [], 'veldev1d': 'absent', 'params': []}
    # params['X'] = header['Y']
    for n in fn.body:
        if (isinstance(n, ast.Assign) and len(n.targets) == 1 and isinstance(n.targets[0], ast.Subscript)
                and ast.unparse(n.targets[0].value) == 'params' and isinstance(n.targets[0].slice, ast.Constant)
                and isinstance(n.value, ast.Subscript) and ast.unparse(n.value.value) == 'header' and isinstance(n.value.slice, ast.Constant)):
            out['params'].append((n.targets[0].slice.value, n.value.slice.value))

    def bind(name, src, guard):
        if guard == ALWAYS:
            env[name] = [(src, ALWAYS)]
        else:
            env[name] = [b for b in env.get(name, []) if b[1] != guard] + [(src, guard)]

    def lookup(name, guard):
        bs = env.get(name)
        if not bs:
            raise Untranslatable('name %s is not bound to dataset columns' % name)
        spec = [b for b in bs if b[1] == guard and guard != ALWAYS]
        if spec:
            return spec[-1][0]
        alw = [b for b in bs if b[1] == ALWAYS]
        if alw and len(bs) == len(alw):
            return alw[-1][0]
        if alw and guard != ALWAYS and all(b[1] == ALWAYS or b[1][1] != guard[1] for b in bs):
            return alw[-1][0]
        raise Untranslatable('%s depends on a flag here' % name)

    def to_src(e, guard):
        if isinstance(e, ast.Subscript) and isinstance(e.value, ast.Name) and e.value.id in TABLE_VARS and isinstance(e.slice, ast.Constant) \
                and isinstance(e.slice.value, str):
            return ('field', e.slice.value)
        if isinstance(e, ast.Call) and isinstance(e.func, ast.Attribute) and e.func.attr == 'astype' and len(e.args) == 1 \
                and ast.unparse(e.args[0]) == 'int' and not e.keywords:
            return ('asint', to_src(e.func.value, guard))
        if isinstance(e, ast.BinOp) and isinstance(e.op, ast.Div):
            return ('div', to_src(e.left, guard), to_src(e.right, guard))
        if isinstance(e, ast.BinOp) and isinstance(e.op, ast.Mult):
            for a, b in ((e.left, e.right), (e.right, e.left)):
                if isinstance(b, ast.Subscript) and ast.unparse(b.value) == 'params' and isinstance(b.slice, ast.Constant):
                    return ('mulParam', to_src(a, guard), b.slice.value)
        if isinstance(e, ast.Name):
            return lookup(e.id, guard)
        raise Untranslatable(ast.unparse(e)[:160])

    def resolve_fill(value, guard):
        """[(src, guard)] for the value of a fill statement"""
        if isinstance(value, ast.Name) and guard == ALWAYS:
            bs = env.get(value.id)
            if not bs:
                raise Untranslatable('name %s is not bound to dataset columns' % value.id)
            flagged = [b for b in bs if b[1] != ALWAYS]
            alw = [b for b in bs if b[1] == ALWAYS]
            if not flagged:
                return [(alw[-1][0], ALWAYS)]
            flags = {b[1][1] for b in flagged}
            if len(flags) != 1:
                raise Untranslatable('%s depends on several flags' % value.id)
            f = flags.pop()
            res = []
            for g in (('if', f), ('ifnot', f)):
                hit = [b for b in flagged if b[1] == g] or alw
                if not hit:
                    raise Untranslatable('%s is unbound when %s' % (value.id, g))
                res.append((hit[-1][0], g))
            return res
        return [(to_src(value, guard), guard)]

    def walk(stmts, guard):
        for s in stmts:
            if isinstance(s, (ast.Expr, ast.Assert, ast.AugAssign)):
                continue
            if isinstance(s, ast.If):
                t = ast.unparse(s.test)
                if _is_self_flag(s.test):
                    if guard != ALWAYS and guard != ('if', s.test.attr):
                        raise TieError('nested flag conditions in the slab loop: %s inside %s' % (t, guard))
                    walk(s.body, ('if', s.test.attr))
                    walk(s.orelse, ('ifnot', s.test.attr))
                    continue
                if t == VELDEV_1D_TEST:
                    body = [x for x in s.body if not isinstance(x, ast.Expr)]
                    if (len(body) == 1 and isinstance(body[0], ast.Assign) and ast.unparse(body[0].targets[0]) == 'halo_vel_dev'
                            and ast.unparse(body[0].value) == VELDEV_1D_STACK and not s.orelse and guard == ALWAYS):
                        out['veldev1d'] = 'stack-axis1'
                    else:
                        out['veldev1d'] = 'unknown'
                        notes.append('1-D velocity-deviate branch not understood: ' + ' ; '.join(ast.unparse(x) for x in body)[:200])
                    continue
                if t == PART_SECTION_TEST and not s.orelse:
                    walk(s.body, guard)
                    continue
                m = isinstance(s.test, ast.Compare) and len(s.test.ops) == 1 and isinstance(s.test.ops[0], ast.In) \
                    and isinstance(s.test.left, ast.Constant) and ast.unparse(s.test.comparators[0]) == 'part_fields'
                if m and len(s.body) == 1 and len(s.orelse) == 1 and isinstance(s.body[0], ast.Assign) and isinstance(s.orelse[0], ast.Assign):
                    f = s.test.left.value
                    tgt = ast.unparse(s.body[0].targets[0])
                    if (ast.unparse(s.body[0].value) == "subsample['%s']" % f and ast.unparse(s.orelse[0].targets[0]) == tgt
                            and ast.unparse(s.orelse[0].value) == 'np.zeros(len(subsample))'):
                        bind(tgt, ('fieldOrZeros', f), guard)
                        continue
                if all(isinstance(x, ast.Assign) and ast.unparse(x.targets[0]) in ('halofilename', 'particlefilename')
                       for x in s.body + s.orelse):
                    continue    # the choice of file names (MT / non-MT)
                raise TieError('branch of the slab loop not understood: if %s' % t[:160])
            if isinstance(s, (ast.For, ast.While, ast.With)):
                raise TieError('nested loop in the slab loop')
            if not (isinstance(s, ast.Assign) and len(s.targets) == 1):
                raise TieError('statement of the slab loop not understood: ' + ast.unparse(s)[:160])
            tgt, val = s.targets[0], s.value
            if isinstance(tgt, ast.Name):
                if tgt.id in ('halofilename', 'particlefilename', 'part_fields'):
                    continue
                if tgt.id in ('newfile', 'newpart'):
                    if not ast.unparse(val).startswith('h5py.File('):
                        raise TieError('%s = %s' % (tgt.id, ast.unparse(val)[:120]))
                    continue
                if tgt.id in TABLE_VARS:
                    if ast.unparse(val) != "%s['%s']" % TABLE_VARS[tgt.id]:
                        raise TieError('%s = %s' % (tgt.id, ast.unparse(val)[:120]))
                    continue
                try:
                    bind(tgt.id, to_src(val, guard), guard)
                except Untranslatable as e:
                    env.pop(tgt.id, None)
                    notes.append('cannot translate `%s`: %s' % (ast.unparse(s)[:160], e))
                continue
            if isinstance(tgt, ast.Subscript) and isinstance(tgt.value, ast.Name) and isinstance(tgt.slice, ast.Slice) and tgt.slice.lower is not None:
                lo = ast.unparse(tgt.slice.lower)
                key = {'halo_ticker': 'halo_sources', 'parts_ticker': 'part_sources'}.get(lo)
                if key is None:
                    raise TieError('slice assignment not understood: ' + ast.unparse(s)[:160])
                try:
                    for (src, g) in resolve_fill(val, guard):
                        out[key].append((tgt.value.id, src, g))
                except Untranslatable as e:
                    notes.append('no source expression for %s (`%s`): %s' % (tgt.value.id, ast.unparse(s)[:160], e))
                continue
            raise TieError('statement of the slab loop not understood: ' + ast.unparse(s)[:160])

    walk(fill_loops[0].body, ALWAYS)
    return out


def _lean_src(src):
    k = src[0]
    if k == 'field':
        return '(.field %s)' % _lean_str(src[1])
    if k == 'fieldOrZeros':
        return '(.fieldOrZeros %s)' % _lean_str(src[1])
    if k == 'asint':
        return '(.asInt %s)' % _lean_src(src[1])
    if k == 'div':
        return '(.div %s %s)' % (_lean_src(src[1]), _lean_src(src[2]))
    if k == 'mulParam':
        return '(.mulParam %s %s)' % (_lean_src(src[1]), _lean_str(src[2]))
    if k == 'invProd':
        return '(.invProd %s %s)' % (_lean_src(src[1]), _lean_src(src[2]))
    raise ValueError(src)


def _lean_guard(g):
    return '.always' if g == ALWAYS else '(.ifFlag %s)' % _lean_str(g[1]) if g[0] == 'if' else '(.ifNot %s)' % _lean_str(g[1])


def _lean_str(s):
    return '"' + s.replace('\\', '\\\\').replace('"', '\\"') + '"'


def _lean_opt(c):
    return 'none' if c is None else '(some %s)' % _lean_str(c)


FLAG_KEYS = [('want_AB', 'AB'), ('want_shear', 'shear'), ('want_ranks', 'ranks'), ('want_expvel', 'expvel')]
FLAG_NAMES = [f for f, _ in FLAG_KEYS]
PART_RANK_FIELDS = ['ranks', 'ranksv', 'ranksp', 'ranksr', 'ranksc']


def all_flag_sets():
    out = [[]]
    for f in reversed(FLAG_NAMES):
        out = out + [[f] + x for x in out]
    return [[f for f in FLAG_NAMES if f in x] for x in out]


# =========================================================================== dynamic extractor (primary tie)
#
# The tables of Generated/StagingCols.lean are *observed*: the real AbacusHOD.__init__/staging is run on probe file
# sets in which every dataset column of every slab carries its own injective values (stagegen encodings: no two
# columns agree on a row), once per flag subset, and for every returned array the harness finds the one expression
# over the dataset columns (a column, a / b, a * params[p], 1 / a / b, a column or zeros, constant ones) and the row
# order (file order or id order) that reproduces it.  Nothing here depends on how the source is written.

PROBE_SLABS = [{'ids': [41, 17, 29], 'parts': [[7, 41], [3, 41], [11, 17], [2, 29], [9, 29]]},
               {'ids': [8, 23], 'parts': [[5, 8], [1, 23], [6, 23]]}]


def probe_case(flags, **kw):
    c = base_case(nfiles=2, slabs=[{'ids': list(s['ids']), 'parts': [list(q) for q in s['parts']]} for s in PROBE_SLABS],
                  rankfields=['ranksp', 'ranksr', 'ranksc'], kind='probe')
    for f, k in FLAG_KEYS:
        c[k] = int(f in flags)
    c.update(kw)
    return c


def _concat(cols):
    return np.concatenate([np.asarray(c, dtype=np.float64) for c in cols], axis=0)


def _same(a, b):
    a = np.asarray(a, dtype=np.float64)
    b = np.asarray(b, dtype=np.float64)
    return a.shape == b.shape and bool(np.allclose(a, b, rtol=1e-9, atol=0.0, equal_nan=False))


def _candidates(fields, params, present):
    """(src, column in file order) for every expression of the grammar over the concatenated dataset columns"""
    names = [f for f in fields if f in present]
    for f in names:
        yield ('field', f), fields[f]
    scal = [f for f in names if np.asarray(fields[f]).ndim == 1]
    for f in names:
        num = np.asarray(fields[f], dtype=np.float64)
        for g in scal:
            if g != f:
                with np.errstate(all='ignore'):
                    den = np.asarray(fields[g], dtype=np.float64)
                    yield ('div', ('field', f), ('field', g)), (num / den if num.ndim == 1 else num / den[:, None])
        for pname, pval in params:
            yield ('mulParam', ('field', f), pname), num * pval
    for i, f in enumerate(scal):
        for g in scal[i + 1:]:
            with np.errstate(all='ignore'):
                yield ('invProd', ('field', f), ('field', g)), 1 / np.asarray(fields[f], dtype=np.float64) / np.asarray(fields[g], dtype=np.float64)


def _explain(out, fields, params, present, perm):
    """[(src, 'file'|'id')] that reproduce `out`"""
    hits = []
    out = np.asarray(out, dtype=np.float64)
    for src, col in _candidates(fields, params, present):
        col = np.asarray(col, dtype=np.float64)
        if col.shape != out.shape:
            continue
        if perm is not None and _same(out, col[perm]):
            hits.append((src, 'id'))
        elif _same(out, col):
            hits.append((src, 'file'))
    return hits


def observe_entry(ctx, flags, problems):
    """run the real code on the probe of one flag subset; returns the entry dict or None"""
    case = probe_case(flags)
    res = run_impl(ctx, case)
    if 'err' in res or 'skip' in res:
        problems.append('probe %s: the real code raises %s %s' % (flags, res.get('err'), res.get('msg', '')))
        return None
    slabs = case['slabs']
    ids = [i for s in slabs for i in s['ids']]
    perm = np.argsort(np.array(ids))
    hf = [sg.halo_fields(s['ids']) for s in slabs]
    hfields = {f: _concat([h[f] for h in hf]) for f in hf[0]}
    params = [(k, float(v)) for k, v in res['params'].items()
              if isinstance(v, (int, float, np.integer, np.floating)) and not isinstance(v, bool) and k not in ('chunk', 'numslabs', 'z')]
    ent = {'flags': flags, 'returned': list(res['halo']), 'permuted': [], 'halo_sources': [], 'part_sources': [],
           'part_defaults': [], 'part_keys': list(res['part']), 'params': params, 'hid_order': None, 'search_side': None}
    for k, arr in res['halo'].items():
        hits = _explain(arr, hfields, params, set(hfields), perm)
        if len(hits) != 1:
            problems.append('probe %s: halo_data[%r] is reproduced by %d expressions over the dataset columns %s' % (
                flags, k, len(hits), [h[0] for h in hits][:3]))
            continue
        src, order = hits[0]
        ent['halo_sources'].append((k, src))
        if order == 'id':
            ent['permuted'].append(k)
    hid = res['halo'].get('hid')
    if hid is not None:
        ent['hid_order'] = 'ascending' if [int(x) for x in hid] == sorted(ids) else 'other'
    # particle side: file order
    with_ranks = 'want_ranks' in flags
    pf = [sg.part_fields(s['parts']) for s in slabs]
    pfields = {f: _concat([q[f] for q in pf]) for f in pf[0]}
    present = set(pfields) - (set() if with_ranks else set(PART_RANK_FIELDS))
    res0 = None
    if with_ranks:
        r0 = run_impl(ctx, probe_case(flags, rankfields=[]))
        res0 = None if ('err' in r0 or 'skip' in r0) else r0
    n = len(pfields['halo_id'])
    for k, arr in res['part'].items():
        if k == 'pinds':
            continue
        if np.asarray(arr).shape == (n,) and np.all(np.asarray(arr) == 1.0):
            ent['part_defaults'].append((k, 'ones'))
            continue
        hits = _explain(arr, pfields, params, present, None)
        if len(hits) != 1:
            problems.append('probe %s: particle_data[%r] is reproduced by %d expressions over the dataset columns %s' % (
                flags, k, len(hits), [h[0] for h in hits][:3]))
            continue
        src = hits[0][0]
        # a column the code replaces by zeros when the file lacks it
        if src[0] == 'field' and src[1] in ('ranksp', 'ranksr', 'ranksc') and res0 is not None and k in res0['part'] \
                and np.asarray(res0['part'][k]).shape == (n,) and np.all(np.asarray(res0['part'][k]) == 0.0):
            src = ('fieldOrZeros', src[1])
        ent['part_sources'].append((k, src))
    # searchsorted side: every probe particle's host exists, so `left` gives the host's row and `right` the next one
    if hid is not None and 'pinds' in res['part'] and 'phid' in res['part'] and ent['hid_order'] == 'ascending':
        pin = [int(x) for x in res['part']['pinds']]
        left = [int(np.searchsorted(hid, h, side='left')) for h in res['part']['phid']]
        right = [int(np.searchsorted(hid, h, side='right')) for h in res['part']['phid']]
        ent['search_side'] = 'left' if pin == left else 'right' if pin == right else 'other'
    return ent


def observe_veldev1d(ctx, problems):
    """what the real code does with a 1-D velocity-deviate column"""
    kinds = set()
    for flags in ([], ['want_expvel']):
        case = probe_case(flags, veldev1d=1)
        res = run_impl(ctx, case)
        if 'err' in res or 'skip' in res or 'hveldev' not in res['halo'] or 'hid' not in res['halo']:
            kinds.add('raises')
            continue
        ids = [i for s in case['slabs'] for i in s['ids']]
        v = _concat([sg.halo_fields(s['ids'], True)['randoms_exp' if flags else 'randoms_gaus_vrms'] for s in case['slabs']])
        byid = dict(zip(ids, v))
        want = np.array([[byid[int(i)]] * 3 for i in res['halo']['hid']])
        kinds.add('stack-axis1' if _same(res['halo']['hveldev'], want) else 'unknown')
    return kinds.pop() if len(kinds) == 1 else 'unknown'


def observe_tables(ctx):
    problems = []
    entries = []
    for flags in all_flag_sets():
        e = observe_entry(ctx, flags, problems)
        if e is not None:
            entries.append(e)
    D = {'entries': entries, 'problems': problems, 'veldev1d': observe_veldev1d(ctx, problems)}
    orders = {e['hid_order'] for e in entries}
    D['sort_key'] = 'hid' if orders == {'ascending'} else 'unknown'
    sides = {e['search_side'] for e in entries if 'pinds' in e['part_keys']}
    D['search_side'] = sides.pop() if len(sides) == 1 else 'other'
    D['params'] = entries[0]['params'] if entries else []
    return D


# =========================================================================== rendering

def _lean_list(items):
    return '[' + ', '.join(items) + ']'


def _lean_strs(l):
    return _lean_list(_lean_str(x) for x in l)


LEAN_TEMPLATE = (vcommon.VERIF / 'harness' / 'stagecols_template.lean')


def render_lean(D, T, ast_reason):
    def pairs(tab):
        return '[' + ',\n   '.join('(%s, %s)' % (_lean_str(v), _lean_opt(c)) for (v, c) in tab) + ']'

    def triples(tab):
        return '[' + ',\n   '.join('(%s, %s, %s)' % (_lean_str(k), _lean_str(v), _lean_opt(c)) for (k, v, c) in tab) + ']'

    def sources3(tab):
        return '[' + ',\n   '.join('(%s, %s, %s)' % (_lean_str(v), _lean_src(src), _lean_guard(g)) for (v, src, g) in tab) + ']'

    def sources2(tab):
        return _lean_list('(%s, %s)' % (_lean_str(v), _lean_src(src)) for (v, src) in tab)

    ents = []
    for e in D['entries']:
        ents.append('  { flags := %s,\n    returned := %s,\n    permuted := %s,\n    haloSources := %s,\n    partSources := %s,\n    partDefaults := %s }' % (
            _lean_strs(e['flags']), _lean_strs(e['returned']), _lean_strs(e['permuted']),
            sources2(e['halo_sources']), sources2(e['part_sources']),
            _lean_list('(%s, %s)' % (_lean_str(k), _lean_str(v)) for (k, v) in e['part_defaults'])))
    A = T if T is not None else dict(returned=[], permuted=[], allocated=[], filled=[], halo_sources=[], part_sources=[],
                                     part_returned=[], search_side='', veldev1d='')
    subst = {
        'FLAGNAMES': _lean_strs(FLAG_NAMES), 'ENTRIES': ',\n'.join(ents), 'SORTKEY': _lean_str(D['sort_key']),
        'SEARCHSIDE': _lean_str(D['search_side']), 'VELDEV1D': _lean_str(D['veldev1d']),
        'ASTAVAILABLE': 'true' if T is not None else 'false', 'ASTREASON': _lean_str(ast_reason or ''),
        'ASTRETURNED': triples(A['returned']), 'ASTPERMUTED': pairs(A['permuted']), 'ASTALLOCATED': pairs(A['allocated']),
        'ASTFILLED': pairs(A['filled']), 'ASTHALOSOURCES': sources3(A['halo_sources']), 'ASTPARTSOURCES': sources3(A['part_sources']),
        'ASTPARTRETURNED': '[' + ',\n   '.join('(%s, %s, %s)' % (_lean_str(k), _lean_str(v), _lean_guard(_guard_of(c)))
                                               for (k, v, c) in A['part_returned']) + ']',
        'ASTSEARCHSIDE': _lean_str(A['search_side']), 'ASTVELDEV1D': _lean_str(A['veldev1d']),
    }
    text = LEAN_TEMPLATE.read_text()
    for k, v in subst.items():
        text = text.replace('«%s»' % k, v)
    return text


_TABLES = {}


def _strip_asint(src):
    if src[0] == 'asint':
        return _strip_asint(src[1])
    if src[0] in ('div', 'invProd'):
        return (src[0], _strip_asint(src[1]), _strip_asint(src[2]))
    if src[0] == 'mulParam':
        return ('mulParam', _strip_asint(src[1]), src[2])
    return src


def _g_active(flags, g):
    return g == ALWAYS or (g[0] == 'if' and g[1] in flags) or (g[0] == 'ifnot' and g[1] not in flags)


def extract(ctx):
    # ---- primary: observed tables
    D = observe_tables(ctx)
    _TABLES['D'] = D
    for pr in D['problems']:
        ctx.tie('staging-observed', pr)
    if len(D['entries']) != 2 ** len(FLAG_NAMES):
        ctx.tie('staging-observed', 'only %d of %d flag subsets could be observed' % (len(D['entries']), 2 ** len(FLAG_NAMES)))
    if D['search_side'] != 'left':
        ctx.tie('staging-observed', "pinds is the %r insertion point: the model's searchsortedLeft does not mirror the code" % D['search_side'])
    if D['veldev1d'] != 'stack-axis1':
        ctx.tie('staging-observed', '1-D velocity deviates come out as %r; the model mirrors one deviate per halo on the three axes' % D['veldev1d'])
    if D['sort_key'] != 'hid':
        ctx.tie('staging-observed', 'returned ids are not in ascending order on the probe')
    # ---- secondary, optional: what the source text says, when it can be read
    T, reason = None, None
    try:
        T = extract_tables((vcommon.REPO / SRC).read_text())
    except (TieError, Untranslatable, SyntaxError) as e:
        reason = '%s: %s' % (type(e).__name__, e)
    _TABLES['T'] = T
    if T is None:
        ctx.extra['staging_ast_translator'] = 'unavailable (%s)' % reason
        ctx.count('ast-translator:unavailable')
    else:
        ctx.count('ast-translator:available')
        ctx.extra['staging_ast_translator'] = {'available': True, 'untranslated': T['notes']}
        # interpreted facts must be coherent and must agree with what was observed
        for (k, v, c) in T['returned']:
            for tab in ('allocated', 'filled'):
                if not any(v == v2 and (c2 is None or c2 == c) for (v2, c2) in T[tab]):
                    ctx.tie('staging-ast', 'halo_data[%r] = %s is not %s under flag %s' % (k, v, tab, c))
        if T['search_side'] != D['search_side']:
            ctx.tie('staging-ast', 'source says searchsorted side=%r, observed %r' % (T['search_side'], D['search_side']))
        if T['veldev1d'] not in ('absent', D['veldev1d']):
            ctx.tie('staging-ast', 'source 1-D velocity-deviate branch %r, observed %r' % (T['veldev1d'], D['veldev1d']))
        for e in D['entries']:
            fl = e['flags']
            act = [(k, v) for (k, v, c) in T['returned'] if c is None or c in fl]
            if [k for k, _ in act] != e['returned']:
                ctx.tie('staging-ast', 'flags %s: source returns %s, observed %s' % (fl, [k for k, _ in act], e['returned']))
            perm_vars = {v for (v, c) in T['permuted'] if c is None or c in fl}
            ast_perm = [k for k, v in act if v in perm_vars]
            if sorted(ast_perm) != sorted(e['permuted']):
                ctx.tie('staging-ast', 'flags %s: source permutes %s, observed in id order %s' % (fl, ast_perm, e['permuted']))
            for k, v in act:
                srcs = [_strip_asint(src) for (v2, src, g) in T['halo_sources'] if v2 == v and _g_active(fl, g)]
                obs = [src for (k2, src) in e['halo_sources'] if k2 == k]
                if srcs and srcs != obs:
                    ctx.tie('staging-ast', 'flags %s: source fills %s from %s, observed %s' % (fl, k, srcs, obs))
            for (k, v, c) in T['part_returned']:
                if not _g_active(fl, _guard_of(c)):
                    continue
                srcs = [_strip_asint(src) for (v2, src, g) in T['part_sources'] if v2 == v and _g_active(fl, g)]
                obs = [src for (k2, src) in e['part_sources'] if k2 == k]
                if srcs and srcs != obs:
                    ctx.tie('staging-ast', 'flags %s: source fills particle_data[%r] from %s, observed %s' % (fl, k, srcs, obs))
    text = render_lean(D, T, reason)
    _TABLES['text'] = text
    if not GEN.exists() or GEN.read_text() != text:
        GEN.write_text(text)
        ctx.count('translator:regenerated')
    ctx.extra['observed'] = {
        'flag_subsets': len(D['entries']), 'sort_key': D['sort_key'], 'search_side': D['search_side'], 'veldev1d': D['veldev1d'],
        'not_in_id_order': {','.join(e['flags']) or '-': [k for k in e['returned'] if k not in e['permuted']]
                            for e in D['entries'] if any(k not in e['permuted'] for k in e['returned'])}}


# =========================================================================== running the real code

_IMPL = {}


def impl():
    if not _IMPL:
        from abacusnbody.hod import abacus_hod
        logging.getLogger('AbacusHOD').setLevel(logging.ERROR)

        class _Stop(Exception):
            pass

        class Probe(abacus_hod.AbacusHOD):
            """the real __init__, interrupted right after the real staging() returned"""

            def staging(self):
                self._staged = abacus_hod.AbacusHOD.staging(self)
                raise _Stop()

        _IMPL.update(mod=abacus_hod, Probe=Probe, Stop=_Stop)
    return _IMPL


def run_impl(ctx, case, full=False):
    """write the file set, run the real code; returns {'halo':{}, 'part':{}, 'numslabs':n} or {'err': name}"""
    I = impl()
    root = tempfile.mkdtemp(prefix='case_', dir=ctx.tmpdir())
    try:
        a = sg.write_case(root, case)
        try:
            with np.errstate(all='ignore'):
                if full:
                    o = I['mod'].AbacusHOD(a[0], a[1], a[2], **a[3])
                    hd, pd, params = o.halo_data, o.particle_data, o.params
                else:
                    o = I['Probe'].__new__(I['Probe'])
                    try:
                        o.__init__(a[0], a[1], a[2], **a[3])
                        return {'err': 'staging-not-called'}
                    except I['Stop']:
                        pass
                    hd, pd, params, _ = o._staged
        except MemoryError:
            return {'skip': 'MemoryError'}
        except Exception as e:   # what the real code raises on this file set
            return {'err': type(e).__name__, 'msg': str(e)[:200]}
        res = {'halo': {k: np.array(v) for k, v in hd.items()}, 'part': {k: np.array(v) for k, v in pd.items()},
               'numslabs': int(params['numslabs']), 'params': dict(params)}
        del o, hd, pd
        return res
    finally:
        _IMPL['n'] = _IMPL.get('n', 0) + 1
        if full or _IMPL['n'] % 25 == 0:
            gc.collect()      # the real code never closes its h5py / asdf handles
        shutil.rmtree(root, ignore_errors=True)


# =========================================================================== model side

def flags_of(case):
    return [f for f, k in (('want_AB', 'AB'), ('want_shear', 'shear'), ('want_ranks', 'ranks'), ('want_expvel', 'expvel')) if case.get(k)]


def fmt_col(vals):
    return ','.join(':'.join(str(x) for x in v) for v in vals) if len(vals) else '-'


def fmt_ids(ids):
    return ','.join(str(int(i)) for i in ids) if len(ids) else '-'


def param_values():
    """`params[...]` values the source expressions may use: what the real staging() returned in `params` on the probe"""
    D = _TABLES.get('D')
    if D and D.get('params'):
        return [(k, v) for (k, v) in D['params'] if float(v * sg.UNIT).is_integer()]
    return [('Mpart', sg.MPART), ('Lbox', sg.BOX)]


def model_line(case):
    """the request for the model: the *dataset columns* of every slab file, named by field"""
    fl = flags_of(case)
    load_parts = case.get('ztype', 'primary') != 'secondary'
    toks = ['staging', 'nfiles=%d' % (1 if case.get('ztype') == 'lightcone' else case['nfiles']),
            'nchunks=%d' % case.get('n_chunks', 1), 'chunk=%d' % case.get('chunk', -1),
            'flags=%s' % (','.join(fl) if fl else '-'), 'parts=%d' % int(load_parts),
            'veldev1d=%d' % int(bool(case.get('veldev1d'))), 'unit=%d' % sg.UNIT,
            'params=%s' % ','.join('%s:%d' % (k, sg.to_units(np.array([v]))[0][0]) for k, v in param_values())]
    for slab in case['slabs']:
        toks += ['slab', 'hid', fmt_ids(slab['ids'])]
        hf = sg.halo_fields(slab['ids'], bool(case.get('veldev1d')))
        for name, col in hf.items():
            if name != 'id':
                toks += ['col', name, fmt_col(sg.to_units(col))]
        parts = slab.get('parts', []) if load_parts else []
        toks += ['phid', fmt_ids([p[1] for p in parts])]
        if load_parts:
            pf = sg.part_fields(parts)
            for name, col in pf.items():
                if name == 'halo_id':
                    continue
                if name in PART_RANK_FIELDS and not (case.get('ranks') and (name in ('ranks', 'ranksv') or name in case.get('rankfields', []))):
                    continue      # not in the file
                toks += ['pcol', name, fmt_col(sg.to_units(col))]
    return ' '.join(toks)


def parse_col(s):
    if s == '-':
        return []
    return [[(int(x) if '/' not in x else x) for x in v.split(':')] for v in s.split(',')]


def parse_model(s):
    if s.startswith('err ') or s == 'bad-op':
        return {'err': s}
    out = {'halo': {}, 'part': {}}
    for tok in s.split(' ')[1:]:
        if not tok:
            continue
        k, v = tok.split('=', 1)
        if k == 'numslabs':
            out['numslabs'] = int(v)
        elif k in ('hid', 'phid', 'pinds'):
            out[k] = [] if v == '-' else [int(x) for x in v.split(',')]
        elif k.startswith('h:'):
            out['halo'][k[2:]] = parse_col(v)
        elif k.startswith('p:'):
            out['part'][k[2:]] = parse_col(v)
    return out


def canon_impl(res):
    """exact integer view of the real output (values times UNIT)"""
    out = {'numslabs': res['numslabs'], 'halo': {}, 'part': {}}
    for k, v in res['halo'].items():
        if k == 'hid':
            out['hid'] = [int(x) for x in v]
        else:
            out['halo'][k] = sg.to_units(v)
    for k, v in res['part'].items():
        if k in ('phid', 'pinds'):
            out[k] = [int(x) for x in v]
        else:
            out['part'][k] = sg.to_units(v)
    return out


def compare(ctx, case, m, res, label):
    """model vs implementation on everything observable"""
    if 'err' in m or 'err' in res:
        if ('err' in m) != ('err' in res):
            ctx.disagree('staging[%s] error behaviour' % label, case, m.get('err', 'ok'), res.get('err', 'ok') + ' ' + res.get('msg', ''))
        return
    try:
        im = canon_impl(res)
    except (ValueError, OverflowError) as e:      # nan / inf / a non-dyadic value: uninitialised or mis-scaled memory
        ctx.disagree('staging[%s] returned a value that no input encodes (%s)' % (label, e), case, 'exact', 'inexact')
        return
    mm = {'numslabs': m['numslabs'], 'hid': m['hid'], 'phid': m['phid'], 'pinds': m['pinds'], 'halo': m['halo'],
          'part': m['part']}
    for k in ('numslabs', 'hid', 'phid', 'pinds'):
        if mm[k] != im.get(k):
            ctx.disagree('staging[%s] %s' % (label, k), case, str(mm[k])[:300], str(im.get(k))[:300])
    for side in ('halo', 'part'):
        if sorted(mm[side]) != sorted(im[side]):
            ctx.disagree('staging[%s] %s_data keys' % (label, side), case, sorted(mm[side]), sorted(im[side]))
        for k in mm[side]:
            if k in im[side] and mm[side][k] != im[side][k]:
                ctx.disagree('staging[%s] %s_data[%r]' % (label, side, k), case, str(mm[side][k])[:300], str(im[side][k])[:300])


# =========================================================================== oracle (independent of the model)

def loaded_slabs(case):
    s, e = sg.slab_range(case)
    return case['slabs'][s:e] if s <= e else None


def config_valid(case):
    s, e = sg.slab_range(case)
    return 0 <= s <= e and case.get('chunk', -1) < case.get('n_chunks', 1)


def oracle(ctx, case, res, label):
    """the property restated on the real output: every attribute of row i decodes to the id hid[i]; ids strictly
    increasing and exactly the ids of the loaded slab files; ids[pinds[p]] == phid[p]"""
    if not config_valid(case):
        return
    v1d = bool(case.get('veldev1d'))
    if 'err' in res:
        ctx.fail('staging[%s] raises %s on a valid subsample file set' % (label, res['err']), case,
                 res['err'] + ': ' + res.get('msg', ''), 'halo_data / particle_data',
                 key='staging:raises:%s' % res['err'])
        return
    slabs = loaded_slabs(case)
    ids_in = [i for s in slabs for i in s['ids']]
    hd, pd = res['halo'], res['part']
    want = list(HALO_KEYS_BASE) + (['hdeltac', 'hfenv'] if case.get('AB') else []) + (['hshear'] if case.get('shear') else [])
    missing = [k for k in want if k not in hd]
    if missing:
        ctx.fail('staging[%s] halo_data lacks %s' % (label, missing), case, sorted(hd), want, key='staging:missing-column')
        return
    hid = np.asarray(hd['hid'])
    if sorted(int(x) for x in hid) != sorted(ids_in):
        ctx.fail('staging[%s] returned ids are not the ids of the loaded slab files' % label, case,
                 [int(x) for x in hid][:50], sorted(ids_in)[:50], key='staging:ids-not-a-permutation')
        return
    if len(set(ids_in)) == len(ids_in) and not np.all(hid[:-1] < hid[1:]):
        ctx.fail('staging[%s] ids are not strictly increasing' % label, case, [int(x) for x in hid][:50], 'strictly increasing',
                 key='staging:ids-not-increasing')
    dec = sg.halo_decoders(bool(case.get('expvel')), v1d)
    for k in want:
        arr = np.asarray(hd[k])
        if len(arr) != len(hid):
            ctx.fail('staging[%s] halo_data[%r] has %d rows for %d halos' % (label, k, len(arr), len(hid)), case, len(arr), len(hid),
                     key='staging:row-count:%s' % k)
            continue
        with np.errstate(all='ignore'):
            got = dec[k](arr)
        bad = np.nonzero(~(got == hid.astype(np.float64)))[0]
        if len(bad):
            r = int(bad[0])
            key = 'staging:veldev-1d-reshape' if (v1d and k == 'hveldev') else 'staging:row-misaligned:%s' % k
            ctx.fail('staging[%s] halo_data[%r] row %d describes another halo than hid[%d]=%d (%d of %d rows)' % (
                label, k, r, r, int(hid[r]), len(bad), len(hid)), case,
                {'row': r, k: np.asarray(arr[r]).tolist(), 'decodes_to_id': (None if np.isnan(got[r]) else float(got[r]))},
                {'hid': int(hid[r])}, key=key)
    # ---- particles
    if case.get('ztype', 'primary') == 'secondary':
        parts = []
    else:
        parts = [p for s in slabs for p in s.get('parts', [])]
    ks = np.array([p[0] for p in parts], dtype=np.float64)
    hs = np.array([p[1] for p in parts], dtype=np.int64)
    phid = np.asarray(pd.get('phid', []))
    if [int(x) for x in phid] != [int(x) for x in hs]:
        ctx.fail('staging[%s] particle host ids are not the file contents in slab order' % label, case,
                 [int(x) for x in phid][:50], [int(x) for x in hs][:50], key='staging:phid')
        return
    pdec = sg.part_decoders()
    for k, (kind, f) in pdec.items():
        if k not in pd:
            if k in ('pdeltac', 'pfenv') and not case.get('AB') or k == 'pshear' and not case.get('shear'):
                continue
            ctx.fail('staging[%s] particle_data lacks %r' % (label, k), case, sorted(pd), k, key='staging:missing-column')
            continue
        arr = np.asarray(pd[k])
        if k.startswith('pranks'):
            if not case.get('ranks'):
                exp = np.ones(len(hs))
            elif k[1:] in ('ranksp', 'ranksr', 'ranksc') and k[1:] not in case.get('rankfields', []):
                exp = np.zeros(len(hs))
            else:
                exp = None
            if exp is not None:
                if not np.array_equal(arr, exp):
                    ctx.fail('staging[%s] particle_data[%r] default' % (label, k), case, arr[:20].tolist(), exp[:20].tolist(),
                             key='staging:rank-default')
                continue
        with np.errstate(all='ignore'):
            got = f(arr)
        ref = ks if kind == 'k' else hs.astype(np.float64)
        if len(got) != len(ref) or not np.array_equal(got, ref):
            ctx.fail('staging[%s] particle_data[%r] is not the file column in slab order' % (label, k), case,
                     np.asarray(got)[:20].tolist(), ref[:20].tolist(), key='staging:particle-column:%s' % k)
    pinds = np.asarray(pd.get('pinds', []))
    if len(pinds) != len(hs):
        ctx.fail('staging[%s] pinds has %d entries for %d particles' % (label, len(pinds), len(hs)), case, len(pinds), len(hs), key='staging:pinds')
    else:
        idset = set(int(x) for x in hid)
        for p in range(len(hs)):
            if int(hs[p]) in idset:
                j = int(pinds[p])
                if not (0 <= j < len(hid)) or int(hid[j]) != int(hs[p]):
                    ctx.fail('staging[%s] pinds[%d]=%d does not point to the halo with id phid[%d]=%d' % (label, p, j, p, int(hs[p])),
                             case, {'pinds': j, 'hid_there': (int(hid[j]) if 0 <= j < len(hid) else None)}, {'phid': int(hs[p])},
                             key='staging:pinds')
                    break
                # the row the particle points to carries its host's velocity and mass
                if not np.array_equal(np.asarray(hd['hvel'][j]), np.asarray(pd['phvel'][p])) or hd['hmass'][j] != pd['phmass'][p]:
                    ctx.fail('staging[%s] particle %d: halo row pinds=%d has another velocity/mass than the particle\'s host' % (label, p, j),
                             case, {'hvel': np.asarray(hd['hvel'][j]).tolist(), 'hmass': float(hd['hmass'][j])},
                             {'phvel': np.asarray(pd['phvel'][p]).tolist(), 'phmass': float(pd['phmass'][p])}, key='staging:pinds-row')
                    break
    if 'pweights' in pd and len(parts):
        pf = sg.part_fields(parts)
        exp = 1 / pf['Np'] / pf['downsample_halo']
        if not np.array_equal(np.asarray(pd['pweights']), exp):
            ctx.fail('staging[%s] pweights' % label, case, np.asarray(pd['pweights'])[:20].tolist(), exp[:20].tolist(), key='staging:pweights')


# =========================================================================== cases

def base_case(**kw):
    c = {'nfiles': 1, 'n_chunks': 1, 'chunk': -1, 'ztype': 'primary', 'mt': None, 'AB': 0, 'shear': 0, 'ranks': 0,
         'expvel': 0, 'veldev1d': 0, 'rankfields': [], 'slabs': []}
    c.update(kw)
    return c


def add_parts(rng, slabs, ids_all, orphan_prob=0.0, max_per=3):
    """particles of each slab: 0..max_per per halo of that slab, serials unique over the file set"""
    counts = [[int(rng.integers(0, max_per + 1)) for _ in s['ids']] for s in slabs]
    total = sum(sum(c) for c in counts) + len(slabs)
    serials = [int(x) for x in rng.permutation(max(total, 1) * 2)[:total]]
    taken = set(ids_all)
    for s, cs in zip(slabs, counts):
        parts = []
        for hid_, n in zip(s['ids'], cs):
            parts += [[serials.pop(), int(hid_)] for _ in range(n)]
        if orphan_prob and rng.random() < orphan_prob:
            o = int(rng.integers(0, sg.IDMAX))
            if o not in taken:
                parts.append([serials.pop(), o])
        if len(parts) > 1 and rng.random() < 0.5:
            parts = [parts[i] for i in rng.permutation(len(parts))]
        s['parts'] = parts


def exhaustive_cases(ctx):
    out = []
    rng = ctx.rng
    for n in range(2, ctx.pick(3, 4) + 1):
        for perm in itertools.permutations(range(1, n + 1)):
            ids = [5 * i + 2 for i in perm]
            for cut in range(0, n + 1):
                for ab, sh in ((0, 0), (1, 0), (0, 1), (1, 1)):
                    slabs = [{'ids': ids[:cut]}, {'ids': ids[cut:]}]
                    add_parts(rng, slabs, ids, max_per=1)
                    out.append(base_case(nfiles=2, AB=ab, shear=sh, slabs=slabs, kind='exhaustive'))
    return out


ORDERS = ['increasing', 'decreasing', 'slabs-decreasing', 'interleaved', 'shuffled', 'one-swap']


def random_case(rng, nmax):
    ztype = str(rng.choice(['primary'] * 8 + ['secondary', 'lightcone']))
    nfiles = 1 if ztype == 'lightcone' else int(rng.integers(1, 5))
    n = int(rng.integers(0, nmax + 1))
    wide = rng.random() < 0.3
    ids = sorted(int(x) for x in rng.choice(sg.IDMAX if wide else max(3 * n, 4), size=n, replace=False))
    order = str(rng.choice(ORDERS))
    # split into nfiles slabs (empty slabs allowed)
    cuts = sorted(int(x) for x in rng.integers(0, n + 1, size=nfiles - 1))
    bounds = [0] + cuts + [n]
    if order == 'interleaved':
        groups = [[] for _ in range(nfiles)]
        for j, i in enumerate(ids):
            groups[j % nfiles].append(i)
    else:
        seq = list(ids)
        if order == 'decreasing':
            seq = seq[::-1]
        elif order == 'shuffled':
            seq = [seq[i] for i in rng.permutation(n)]
        elif order == 'one-swap' and n >= 2:
            a = int(rng.integers(0, n - 1))
            seq[a], seq[a + 1] = seq[a + 1], seq[a]
        groups = [seq[bounds[k]:bounds[k + 1]] for k in range(nfiles)]
        if order == 'slabs-decreasing':
            groups = groups[::-1]
    slabs = [{'ids': g} for g in groups]
    add_parts(rng, slabs, ids, orphan_prob=0.15)
    n_chunks, chunk = 1, -1
    r = rng.random()
    if ztype != 'lightcone' and r < 0.45:
        n_chunks = int(rng.integers(1, 5))
        chunk = int(rng.integers(0, n_chunks))
    elif r < 0.55:
        chunk = 0
    ranks = int(rng.random() < 0.5)
    c = base_case(nfiles=nfiles, n_chunks=n_chunks, chunk=chunk, ztype=ztype,
                  mt=(None if rng.random() < 0.75 else str(rng.choice(['ELG', 'QSO', 'force']))),
                  AB=int(rng.random() < 0.5), shear=int(rng.random() < 0.5), ranks=ranks,
                  expvel=int(rng.random() < 0.4), veldev1d=int(rng.random() < 0.2),
                  rankfields=[f for f in ('ranksp', 'ranksr', 'ranksc') if ranks and rng.random() < 0.6],
                  slabs=slabs, kind='random:' + order)
    return c


def corpus_cases():
    out = []
    d = vcommon.CORPUS / 'C12'
    if d.is_dir():
        for p in sorted(d.glob('*.json')):
            c = json.loads(p.read_text())
            c.setdefault('kind', 'corpus:' + p.stem)
            out.append(c)
    return out


def n_loaded(case):
    sl = loaded_slabs(case)
    return sum(len(s['ids']) for s in sl) if sl else 0


def check_cases(ctx, cases, label='staging', full=False):
    if ctx.driver is None or ctx.driver.error:
        outs = [None] * len(cases)
    else:
        outs = ctx.driver.query([model_line(c) for c in cases])
    for c, mo in zip(cases, outs):
        res = run_impl(ctx, c, full=full)
        if 'skip' in res:
            ctx.count('skipped:' + res['skip'])
            continue
        nl = n_loaded(c)
        ctx.case({k: v for k, v in c.items()}, nontrivial=nl >= 2)
        ctx.count('kind:' + c.get('kind', '?').split(':')[0])
        if c.get('kind', '').startswith('random:'):
            ctx.count('order:' + c['kind'].split(':', 1)[1])
        ctx.count('slabfiles=%d' % c['nfiles'])
        ctx.count('halos:' + ('0' if nl == 0 else '1' if nl == 1 else '2-5' if nl <= 5 else '6+'))
        for k in ('AB', 'shear', 'ranks', 'expvel', 'veldev1d'):
            if c.get(k):
                ctx.count('flag:' + k)
        if c.get('mt'):
            ctx.count('mt:' + c['mt'])
        ctx.count('ztype:' + c.get('ztype', 'primary'))
        if c.get('n_chunks', 1) > 1:
            ctx.count('chunked')
        if not config_valid(c):
            ctx.count('invalid-chunk-config')
        if 'err' in res:
            ctx.count('impl-raises:' + res['err'])
        elif 'hid' in res['halo']:
            ids_in = [i for s in (loaded_slabs(c) or []) for i in s['ids']]
            ctx.count('sort-path:' + ('noop' if ids_in == sorted(ids_in) else 'permuting'))
        oracle(ctx, c, res, label)
        if mo is not None:
            compare(ctx, c, parse_model(mo), res, label)
            ctx.traces_validated += 1


def ensure_generated(ctx):
    """vcommon restores the committed Generated/ directory after every scratch-tree run of ANY check, also while this
    run sits between its extract() and its lake build.  If the table on disk is no longer the one this run generated,
    write it again and redo the Lean build + audit + driver build; give up (infrastructure, not a verdict) after 4 tries."""
    text = _TABLES.get('text')
    if text is None:
        return
    for attempt in range(4):
        if GEN.exists() and GEN.read_text() == text:
            return
        ctx.count('generated-table-restored-by-concurrent-run')
        GEN.write_text(text)
        vcommon.lean_obligations(ctx, ctx.modules, ctx.theorems)
        ctx.driver = vcommon.Driver(DRIVER)
        ctx.tie_broken = [t for t in ctx.tie_broken if t['what'] != 'driver-build']
        if ctx.driver.error:
            ctx.tie('driver-build', ctx.driver.error)
    if not (GEN.exists() and GEN.read_text() == text):
        raise vcommon.Infra('Generated/StagingCols.lean keeps being modified by concurrent runs; re-run')


def run(ctx):
    ensure_generated(ctx)
    cases = corpus_cases()
    ctx.count('corpus', len(cases))
    cases += exhaustive_cases(ctx)
    nrand = ctx.pick(160, 1500)
    nmax = ctx.pick(10, 40)
    cases += [random_case(ctx.rng, nmax) for _ in range(nrand)]
    check_cases(ctx, cases)
    # a few file sets through the complete constructor, observed at AbacusHOD(...).halo_data / .particle_data
    full = [c for c in cases if n_loaded(c) >= 2 and config_valid(c)]
    pickn = ctx.pick(2, 6)
    sel = [full[int(i)] for i in ctx.rng.choice(len(full), size=min(pickn, len(full)), replace=False)] if full else []
    # make sure one of them takes the permuting path with every flag on
    sel.append(base_case(nfiles=2, AB=1, shear=1, ranks=1, rankfields=['ranksp'],
                         slabs=[{'ids': [40, 41, 47], 'parts': [[5, 47], [1, 40]]}, {'ids': [9, 12], 'parts': [[0, 12], [3, 9], [2, 9]]}],
                         kind='full-constructor'))
    check_cases(ctx, sel, label='AbacusHOD()', full=True)
    ctx.extra['scope'] = ('all permutations of 2..%d ids x splits into 2 slab files x want_AB/want_shear; %d random file sets, up to %d halos'
                          % (ctx.pick(3, 4), nrand, nmax))


def intensify(ctx):
    cases = [random_case(ctx.rng, 60) for _ in range(400)]
    # directed: decreasing ids across two slabs, every flag
    for ab, sh in ((0, 0), (1, 1)):
        cases.append(base_case(nfiles=2, AB=ab, shear=sh, slabs=[{'ids': [7, 9], 'parts': [[0, 7], [1, 9]]}, {'ids': [2, 3], 'parts': [[2, 3]]}],
                               kind='directed'))
    check_cases(ctx, cases, label='staging')


def replay(ctx, doc):
    c = doc['failure']['case'] if 'failure' in doc else doc
    if ctx.driver is not None and not ctx.driver.error:
        print('model:', ctx.driver.query([model_line(c)])[0][:2000])
    check_cases(ctx, [c])
