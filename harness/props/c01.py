"""C01 — each halo row indexes exactly its own subsample particles (DESIGN.md §7 C01)."""
import json
import os

os.environ['NUMBA_BOUNDSCHECK'] = '1'   # must precede the first numba import: a stray index becomes IndexError

import numpy as np  # noqa: E402

import catexpect as cx  # noqa: E402

THEOREMS = [
    'AbacusVerif.Catalog.load_spec',
    'AbacusVerif.Catalog.slices_correct',
    'AbacusVerif.Catalog.tiling',
    'AbacusVerif.Catalog.decode_commutes',
    'AbacusVerif.Catalog.lc_slices',
    'AbacusVerif.Catalog.zipper_inbounds',
    'AbacusVerif.Catalog.wf_iff',
    'AbacusVerif.Catalog.zipper_index_rule',
    'AbacusVerif.Catalog.table_compaction',
    'AbacusVerif.Catalog.uint32_sum_wraps',
    # Props/C01LinkC04.lean: the decode parameter instantiated with the C04 (bitpacked) model
    'AbacusVerif.ReaderLink.subsample_values_are_c04_decode',
    'AbacusVerif.ReaderLink.passthrough_is_identity',
    'AbacusVerif.ReaderLink.unpacked_equals_decode_of_passthrough',
    'AbacusVerif.ReaderLink.decodeCol_is_c04_slot',
    'AbacusVerif.ReaderLink.column_is_c04_kernel_writes',
    'AbacusVerif.ReaderLink.load_readerOpts',
]
LEAN_MODULES = ['AbacusVerif.Props.C01', 'AbacusVerif.Props.C01LinkC04']
DRIVER = 'drv_c01'
RULE = ('one evaluation = one load of a synthetic catalog tree by the real CompaSOHaloCatalog, checked (a) by the '
        'truth oracle (every returned row\'s slice of every subsample column against the particle records catgen '
        'wrote for that halo; contiguity, A before B, sum npout = len(subsamples)) and (b) against the Lean model, '
        'word for word; non-trivial = at least one kept halo has particles in a loaded subsample (or, light cone, '
        'a non-empty particle file); distinct = distinct (catalog recipe, options, path form, file list, filter)')
TRUSTED = ['catgen.py: the arrays it keeps in memory are the raw records; asdf / astropy Table I/O',
           'unpacked columns (pos, vel, pid, lagr_*, tagged, density) are compared against bitpacked.unpack_rvint / '
           'unpack_pids applied to the expected raw words; those decoders are tied to Lean by C04',
           'the numba semantics encoded in Model/C01.lean (clipped slices, length-checked slice assignment)']
ASSUMPTIONS = ['npstart*_merge non-negative (int64 column modelled as Nat)']


def draw_case(ctx, rng, recipe, truth):
    opts = cx.draw_opts(rng, truth)
    path, files = cx.draw_files(rng, truth)
    # C01 is about the index arithmetic; filters are C03's subject but take part here at a lower rate
    filt = cx.draw_filter(rng, opts, kind=None if rng.random() < 0.35 else 'none')
    return {'cat': recipe, 'opts': opts, 'files': files, 'path': path, 'filt': filt}


def run_case(ctx, pool, case, answers=None):
    truth = pool.get(case['cat'])
    if truth.lc:
        status, obs, record = cx.lc_real_load(truth, case)
        ans = ctx.driver.query([cx.lc_model_line(truth, record, case)])[0] if status == 'ok' else None
        ctx.case(case, nontrivial=len(truth.cat.lc_pid) > 0)
        ctx.count('layout:lc')
        ctx.count('lc-filter:' + case['filt']['kind'])
        return cx.lc_oracle_and_model(ctx, truth, case, status, obs, record, ans)
    status, obs, record = cx.real_load(truth, case)
    lab = cx.case_label(case)
    ctx.case(case, nontrivial=cx.nontrivial(truth, case))
    ctx.count('layout:snapshot')
    for k in ('cleaned', 'passthrough', 'AB', 'path', 'filter', 'fields'):
        ctx.count('%s:%s' % (k, lab[k]))
    for c in lab['cols']:
        ctx.count('col:' + c)
    ctx.count('nfiles:%d' % lab['nfiles'])
    ctx.count('nhalos-loaded:%s' % ('0' if status == 'ok' and obs['n'] == 0 else '>0' if status == 'ok' else 'exc'))
    if truth.well_formed(case):
        good = cx.oracle(ctx, truth, case, status, obs, record, pid='C01')
    else:
        # ranges past the end of a particle file: outside the property's precondition; model correspondence only
        ctx.count('not-well-formed:model-only')
        good = True
        if status != 'ok':
            ctx.disagree('real loader raises on a truncated particle file, the model does not', case, 'n/a', obs)
    if status != 'ok':
        return False
    masks = cx.masks_from_record(case, record)
    m = cx.parse_model(ctx.driver.query([cx.model_line(truth, case, masks)])[0])
    ctx.traces_validated += 1
    return cx.compare_model(ctx, truth, case, obs, m) and good


def corpus_cases():
    from vcommon import CORPUS
    out = []
    d = CORPUS / 'C01'
    if d.is_dir():
        for p in sorted(d.glob('*.json')):
            out.append(json.loads(p.read_text()))
    return out


def boundary_cases(rng):
    """directed cases on top of the random stream: the boundaries the proofs expose"""
    out = []
    base_cat = {'kind': 'snap', 'seed': 11, 'nhalos': [3, 0, 4], 'inds': [0, 1, 2], 'cleaned': True, 'away': 0.6}
    empty_cat = {'kind': 'snap', 'seed': 12, 'nhalos': [0, 0], 'inds': [3, 7], 'cleaned': True, 'away': 0.25}
    one_cat = {'kind': 'snap', 'seed': 13, 'nhalos': [5], 'inds': [4], 'cleaned': True, 'away': 0.25}

    def case(cat, files, path='list', filt=None, **o):
        opts = {'cleaned': True, 'passthrough': False, 'subsamples': True, 'unpack_bits': False, 'fields': ['id', 'N']}
        opts.update(o)
        return {'cat': cat, 'opts': opts, 'files': files, 'path': path, 'filt': filt or {'kind': 'none'}}

    pt_sub = dict(A=True, B=True, rvint=True, packedpid=True)
    out.append(case(base_cat, [0, 1, 2], 'dir', passthrough=True, fields='all', subsamples=True))
    out.append(case(base_cat, [0, 1, 2], 'dir', cleaned=False, passthrough=True, fields='all', subsamples=True))
    out.append(case(base_cat, [0, 1, 2], 'halo_info', passthrough=True, subsamples=pt_sub,
                    fields=['id', 'N'] + cx.INDEX_COLS + cx.CLEAN_INDEX_COLS))
    out.append(case(base_cat, [1], 'file'))                                     # an empty superslab alone
    out.append(case(base_cat, [1, 0], 'list', subsamples=dict(B=True, pid=True), unpack_bits=True))
    out.append(case(base_cat, [2, 1, 0], 'tuple', filt={'kind': 'nothing'}))     # cumsum N = 0 through a filter
    out.append(case(empty_cat, [0, 1], 'dir'))                                  # all-empty catalog
    out.append(case(empty_cat, [0, 1], 'dir', cleaned=False, subsamples=dict(A=True)))
    out.append(case(empty_cat, [1], 'file', passthrough=True, fields='all'))
    out.append(case(one_cat, [0], 'dir', subsamples=dict(A=True, B=True, rvint=True, pos=True, packedpid=True, pid=True),
                    unpack_bits=['pid', 'density', 'packedpid']))
    out.append(case(one_cat, [0], 'file', cleaned=False, subsamples=dict(B=True), fields=['id']))
    out.append(case(one_cat, [0], 'dir', subsamples=False))
    for k in range(3):
        out.append(cx.draw_lc_case(rng, {'kind': 'lc', 'seed': 20 + k, 'nhalo': [5, 0, 1][k]}))
    # ill-formed on purpose (particle files of superslab 0 cut short): the clipped-slice branches of the model
    trunc_cat = {'kind': 'snap', 'seed': 14, 'nhalos': [4, 2], 'inds': [0, 1], 'cleaned': True, 'away': 0.0, 'trunc': 3}
    out.append(case(trunc_cat, [0, 1], 'dir', passthrough=True, fields='all', subsamples=True))
    out.append(case(trunc_cat, [0, 1], 'dir', subsamples=dict(A=True, B=True, pos=True, pid=True)))
    out.append(case(trunc_cat, [1, 0], 'list', cleaned=False, subsamples=dict(A=True, B=True, rvint=True, packedpid=True)))
    return out


def uint32_probe(ctx):
    """`npoutX + npoutX_merge` on uint32 astropy columns wraps modulo 2^32 (Model: cnt32); the cumsum then runs
    in uint64 and `np.diff(...).astype(uint32)` wraps again"""
    from astropy.table import Table
    pairs = [(0, 0), (3, 4), (2 ** 32 - 1, 0), (2 ** 32 - 1, 1), (2 ** 32 - 1, 2 ** 32 - 1), (2 ** 31, 2 ** 31), (2 ** 31, 2 ** 31 - 1)]
    t = Table({'npoutA': np.array([a for a, _ in pairs], dtype=np.uint32),
               'npoutA_merge': np.array([b for _, b in pairs], dtype=np.uint32)})
    col = t['npoutA']
    real = [int(v) for v in (col + t['npoutA_merge'])]
    model = [int(x) for x in ctx.driver.query(['cnt32 %d %d' % p for p in pairs])]
    ctx.count('uint32-sum-probes', len(pairs))
    if real != model:
        ctx.disagree('uint32 column sum', {'pairs': pairs}, model, real)


def run(ctx):
    rng = ctx.rng
    pool = cx.Pool(ctx)
    uint32_probe(ctx)
    for c in corpus_cases():
        ctx.count('corpus')
        run_case(ctx, pool, c)
    for c in boundary_cases(rng):
        ctx.count('boundary')
        run_case(ctx, pool, c)
    ncat = ctx.pick(9, 60)
    per = ctx.pick(10, 13)
    for k in range(ncat):
        if k % 6 == 5:
            recipe = cx.draw_cat_recipe(rng, shape='lc')
            truth = pool.get(recipe)
            for _ in range(ctx.pick(4, 6)):
                run_case(ctx, pool, cx.draw_lc_case(rng, recipe))
            continue
        recipe = cx.draw_cat_recipe(rng)
        truth = pool.get(recipe)
        ctx.count('catalog-shape:nslabs=%d' % len(recipe['nhalos']))
        ctx.count('catalog:%s' % ('all-empty' if sum(recipe['nhalos']) == 0 else
                                  'has-empty-superslab' if 0 in recipe['nhalos'] else 'full'))
        for _ in range(per):
            run_case(ctx, pool, draw_case(ctx, rng, recipe, truth))
    ctx.extra['scope'] = '1-4 superslabs x 0-6 halos, %d catalogs' % ncat


def intensify(ctx):
    """a proof or the correspondence broke: more catalogs, every option combination more often"""
    rng = ctx.rng
    pool = cx.Pool(ctx)
    for k in range(25):
        recipe = cx.draw_cat_recipe(rng)
        truth = pool.get(recipe)
        for _ in range(12):
            run_case(ctx, pool, draw_case(ctx, rng, recipe, truth))


def replay(ctx, doc):
    c = doc['failure']['case'] if 'failure' in doc else doc
    pool = cx.Pool(ctx)
    print('held' if run_case(ctx, pool, c) else 'FAILED')
