"""C14 — blosc block decompression is independent of how the stream is chunked (DESIGN.md §7 C14).

Real code driven: abacusnbody.data.asdf.BloscCompressor().decompress / .compress (in-process, from the
working tree), and asdf.open(...)[...][:] on blsc files (asdf's own 4096-byte read chunking).
The codec is outside the property: a tiny fake codec (1 marker byte + xor) is patched into the `blosc`
stand-in so that frames can be 1-3 bytes long and every byte string handed to `blosc.decompress_ptr`
(and the address it is asked to write to) is recorded.
"""
import hashlib
import itertools
import json
import os

import numpy as np

THEOREMS = [
    'AbacusVerif.Blsc.feed_invariant',
    'AbacusVerif.Blsc.decompress_chunking_independent',
    'AbacusVerif.Blsc.decompress_same_for_all_chunkings',
    'AbacusVerif.Blsc.bytesOut_sum',
    'AbacusVerif.Blsc.compress_decompress_id',
    'AbacusVerif.Blsc.compress_zero_step',
    'AbacusVerif.Blsc.truncated_stream_detected',
    'AbacusVerif.Blsc.pos_dead',
    'AbacusVerif.Blsc.pos_dead_no_buffer',
    'AbacusVerif.Blsc.decompress_frames_any',
    'AbacusVerif.Blsc.decompressF_eq',
    'AbacusVerif.Blsc.zero_payload_handed_over',
    'AbacusVerif.Blsc.zero_payload_skipped',
    'AbacusVerif.Blsc.truncated_inside_frame',
    'AbacusVerif.Blsc.trailing_garbage_ignored',
    'AbacusVerif.Blsc.compressK_shuffle_error',
    'AbacusVerif.Blsc.compressK_spec',
]
DRIVER = 'drv_c14'
RULE = ('a case is one (stream, chunking) pair run through the real BloscCompressor.decompress and the model '
        'driver: ALL 2^(n-1) chunkings of every short stream listed in coverage.scope (plus the same with '
        'zero-length chunks interleaved), truncations, random streams of 1-40 frames / payload 1-5000 bytes under '
        'the chunk-size families {1,2,3,4,5,prime,4096,whole,mixed} and cuts forced at every offset 0..4 of every '
        'length prefix, compress() framing for item sizes {1,2,4,8,12} x block sizes around multiples of the item '
        'size, and asdf end-to-end reads; non-trivial = at least one frame or a partial prefix is processed; '
        'distinct = distinct (stream bytes, chunk sizes)')
TRUSTED = [
    'the blosc codec itself (replaced by the harness/shims/blosc stand-in or by the harness toy codec); the model '
    'takes the codec as a parameter with dec(enc x) = x, enc x != b"" and len(enc x) < 2^32',
    'decompress_ptr pointer arithmetic of real blosc (the harness records the address `out + bytesout` it is given)',
]
ASSUMPTIONS = [
    'a stream is a concatenation of frames be32(len p) ++ p with p non-empty and len p < 2^32',
    'the output buffer handed to decompress is large enough for the decoded data (asdf allocates data_size bytes)',
]

GUARD = 32
MAX_REPORTS = 40


class Enough(Exception):
    """the verdict is settled (many failing inputs already found): stop exploring, a broken implementation
    may also be arbitrarily slow on the larger streams"""


def enough(ctx):
    if len(ctx.failures) >= MAX_REPORTS or len(ctx.disagreements) >= 10 * MAX_REPORTS:
        raise Enough()

XOR = bytes(b ^ 0xA5 for b in range(256))


# ----------------------------------------------------------------------------- toy codec

def toy_enc(x):
    x = bytes(x)
    return bytes([(7 * len(x) + 3) % 256]) + x.translate(XOR)


def toy_dec(f):
    return bytes(f)[1:].translate(XOR)


class Recorder:
    """what the framing code handed to the codec"""

    def __init__(self):
        self.frames = []
        self.addrs = []
        self.typesizes = []
        self.trace = []      # ('nthreads', n) / ('blocksize', n) / ('compress', raw, kwargs)
        self.base = None
        self.cap = 0
        self.overflow = False


REC = Recorder()


class ToyCodec:
    """patch the toy codec into the `blosc` module used by abacusnbody.data.asdf"""

    def __enter__(self):
        import blosc
        import ctypes
        self.blosc = blosc
        self.saved = (blosc.compress, blosc.decompress_ptr, blosc.set_nthreads, blosc.set_blocksize)

        def compress(data, **kw):
            raw = data.tobytes() if hasattr(data, 'tobytes') else bytes(data)
            REC.typesizes.append(kw.get('typesize'))
            REC.trace.append(('compress', raw, dict(kw)))
            return toy_enc(raw)

        def set_nthreads(n):
            REC.trace.append(('nthreads', n))

        def set_blocksize(n):
            REC.trace.append(('blocksize', n))

        def decompress_ptr(frame, address, **kw):
            fb = bytes(frame)
            REC.frames.append(fb)
            REC.addrs.append(int(address))
            raw = toy_dec(fb)
            if REC.base is not None and not (REC.base <= address and address + len(raw) <= REC.base + REC.cap):
                REC.overflow = True        # never write outside the harness buffer
                return len(raw)
            ctypes.memmove(address, raw, len(raw))
            return len(raw)

        blosc.compress = compress
        blosc.decompress_ptr = decompress_ptr
        blosc.set_nthreads = set_nthreads
        blosc.set_blocksize = set_blocksize
        return self

    def __exit__(self, *a):
        (self.blosc.compress, self.blosc.decompress_ptr, self.blosc.set_nthreads,
         self.blosc.set_blocksize) = self.saved


# ----------------------------------------------------------------------------- helpers

def be32(n):
    return int(n).to_bytes(4, 'big')


def mkstream(payloads):
    return b''.join(be32(len(p)) + p for p in payloads)


def cut(stream, sizes):
    out = []
    i = 0
    for n in sizes:
        out.append(stream[i:i + n])
        i += n
    assert i == len(stream)
    return out


def rle(l):
    if not l:
        return '.'
    out = []
    for v, g in itertools.groupby(l):
        k = len(list(g))
        out.append('%d' % v if k == 1 else '%dx%d' % (v, k))
    return ','.join(out)


def unrle(s):
    if s == '.':
        return []
    out = []
    for t in s.split(','):
        if 'x' in t:
            v, k = t.split('x')
            out.extend([int(v)] * int(k))
        else:
            out.append(int(t))
    return out


def hexs(b):
    return b.hex() if b else '-'


def spec_frames(stream):
    """the property restated: the complete frames of the stream, in order"""
    i = 0
    frames = []
    while i + 4 <= len(stream):
        n = int.from_bytes(stream[i:i + 4], 'big')
        if i + 4 + n > len(stream):
            break
        frames.append(stream[i + 4:i + 4 + n])
        i += 4 + n
    return frames, i == len(stream)


CONV = [
    bytes,
    bytearray,
    lambda b: memoryview(bytes(b)),
    lambda b: np.frombuffer(bytes(b), dtype=np.uint8),
]


IMPL_TIME_LIMIT = 20      # seconds per decompress call (normal calls take milliseconds)


def run_impl(chunks, cap, conv=bytes):
    """drive the real decompress; observe frames handed to the codec, the write addresses, the per-chunk
    progress, the returned length and the output buffer"""
    from abacusnbody.data.asdf import BloscCompressor
    buf = np.full(cap + GUARD, 0xEE, dtype=np.uint8)
    REC.frames, REC.addrs, REC.overflow = [], [], False
    REC.base, REC.cap = buf.ctypes.data, cap
    per = []

    def gen():
        for c in chunks:
            yield conv(c)
            per.append(len(REC.frames))

    import signal

    def _alarm(signum, frame):
        raise TimeoutError('decompress did not return within %d s' % IMPL_TIME_LIMIT)

    # a mistaken frame length can make the reassembly loop spin (and allocate) forever: bound every call
    old = signal.signal(signal.SIGALRM, _alarm)
    signal.setitimer(signal.ITIMER_REAL, IMPL_TIME_LIMIT)
    try:
        n = BloscCompressor().decompress(gen(), memoryview(buf)[:cap])
    except Exception as e:   # noqa: BLE001 - whatever the real code raises is an observation
        return {'err': type(e).__name__ + ': ' + str(e)[:80]}
    finally:
        signal.setitimer(signal.ITIMER_REAL, 0)
        signal.signal(signal.SIGALRM, old)
        base = REC.base
        REC.base = None
    return {
        'n': int(n),
        'frames': [f.hex() for f in REC.frames],
        'offs': [a - base for a in REC.addrs],
        'per': list(per),
        'out': bytes(buf[:cap]).hex(),
        'guard_ok': bool((buf[cap:] == 0xEE).all()) and not REC.overflow,
    }


def parse_model(s):
    if s.startswith('err '):
        return {'err': s[4:]}
    if not s.startswith('ok '):
        return {'err': 'driver:' + s}
    parts = dict(p.split('=', 1) for p in s.split(' ')[1:])
    frames = [] if parts['frames'] == '.' else ['' if f == '-' else f for f in parts['frames'].split(',')]
    return {'n': int(parts['n']), 'frames': frames, 'per': unrle(parts['per']),
            'out': '' if parts['out'] == '-' else parts['out'], 'st': parts['st']}


class Batch:
    """collect (stream, sizes) cases, query the model in one go, then run the real code on each"""

    def __init__(self, ctx, label, wellformed=True, model=True, cross=False):
        self.ctx = ctx
        self.label = label
        self.cases = []
        self.wellformed = wellformed
        self.model = model
        self.cross = cross     # also run the simple (quadratic) machine `decs` and compare with `dec`

    def add(self, stream, sizes, tag=''):
        self.cases.append((stream, list(sizes), tag))

    def flush(self):
        ctx = self.ctx
        if not self.cases:
            return
        hexcache = {}
        lines = []
        for stream, sizes, _ in self.cases:
            h = hexcache.get(id(stream))
            if h is None:
                h = hexcache[id(stream)] = hexs(stream)
            lines.append('dec %s %s' % (h, rle(sizes)))
        outs = ctx.driver.query(lines) if self.model else [None] * len(lines)
        if self.model and self.cross:
            for line, fast, simple in zip(lines, outs, ctx.driver.query(['decs' + l[3:] for l in lines])):
                ctx.count('fast-vs-simple-machine')
                fa = fast.split(' ')
                if (fast.startswith('err') or simple.startswith('err')):
                    same = fast == simple
                else:
                    same = [t for t in fa if t.split('=')[0] in ('ok', 'n', 'frames', 'st')] == simple.split(' ')
                if not same:
                    ctx.disagree('linear-time machine vs simple machine (decompressF_eq)', {'request': line[:300]},
                                 fast[:300], simple[:300])
        speccache = {}
        for k, ((stream, sizes, tag), mres) in enumerate(zip(self.cases, outs)):
            sp = speccache.get(id(stream))
            if sp is None:
                frames, complete = spec_frames(stream)
                sp = speccache[id(stream)] = (frames, complete, b''.join(toy_dec(f) for f in frames))
            check_case(ctx, self.label, stream, sizes, tag, mres, sp, CONV[k % len(CONV)], self.wellformed)
        self.cases = []


def small(d, lim=300):
    return {k: (v if len(str(v)) <= lim else str(v)[:lim] + '…') for k, v in d.items()}


def check_case(ctx, label, stream, sizes, tag, mres, sp, conv, wellformed):
    frames, complete, decoded = sp
    chunks = cut(stream, sizes)
    cap = len(decoded) + 8
    r = run_impl(chunks, cap, conv)
    case = {'label': label, 'tag': tag, 'stream': stream.hex() if len(stream) <= 200 else None,
            'stream_len': len(stream), 'sizes': rle(sizes) if len(sizes) <= 400 else None,
            'nchunks': len(sizes)}
    if case['stream'] is None or case['sizes'] is None:
        case['note'] = 'large case: regenerate with the same seed/tier'
    ctx.case(case, nontrivial=len(stream) > 0, key=(stream.hex() if len(stream) <= 64 else hashlib.blake2b(stream, digest_size=8).hexdigest(), rle(sizes)))
    enough(ctx)
    ctx.count('family:' + label)
    ctx.count('chunks:' + ('0' if not sizes else '1' if len(sizes) == 1 else '2-8' if len(sizes) <= 8 else '9+'))
    if 0 in sizes:
        ctx.count('with-empty-chunk')
    if 1 in sizes:
        ctx.count('with-1-byte-chunk')
    # ---- oracle (independent of the model): the frames of the stream, decoded, in order
    if wellformed:
        exp_n = len(decoded)
        expd = {'n': exp_n, 'frames': [f.hex() for f in frames], 'out': decoded.hex()}
        if 'err' in r:
            obs = r
            ok = False
        else:
            obs = {'n': r['n'], 'frames': r['frames'], 'out': r['out'][:2 * exp_n]}
            ok = obs == expd and r['guard_ok'] and r['offs'] == list(
                itertools.accumulate([0] + [len(toy_dec(f)) for f in frames[:-1]]))[:len(frames)]
        if not ok:
            what = 'decompress depends on the chunking' if complete else 'truncated stream mishandled'
            ctx.fail('%s [%s]' % (what, label), case, small(obs), small(expd),
                     key='decompress:' + ('chunking' if complete else 'truncated'))
    # ---- correspondence with the model
    if mres is None:
        return
    m = parse_model(mres)
    if 'err' in m or 'err' in r:
        if ('err' in m) != ('err' in r):
            ctx.disagree('decompress outcome [%s]' % label, case, m, small(r))
        return
    mobs = {'n': m['n'], 'frames': m['frames'], 'per': m['per'], 'out': m['out']}
    iobs = {'n': r['n'], 'frames': r['frames'], 'per': r['per'], 'out': r['out'][:2 * r['n']] if r['n'] <= cap else r['out']}
    if mobs != iobs:
        ctx.disagree('decompress frames/length/progress [%s]' % label, case, small(mobs), small(iobs))
    ctx.traces_validated += 1


# ----------------------------------------------------------------------------- generators

def compositions(n):
    """all 2^(n-1) ways of cutting n bytes into non-empty consecutive chunks"""
    if n == 0:
        yield []
        return
    for mask in range(1 << (n - 1)):
        sizes = []
        run = 1
        for i in range(n - 1):
            if mask >> i & 1:
                sizes.append(run)
                run = 1
            else:
                run += 1
        sizes.append(run)
        yield sizes


def with_empties(rng, sizes):
    out = []
    for s in sizes:
        while rng.random() < 0.3:
            out.append(0)
        out.append(s)
    while rng.random() < 0.5:
        out.append(0)
    return out


PRIMES = [7, 13, 31, 61, 127, 251, 509, 1021]


def chunk_family(rng, total, fam):
    if fam == 'whole':
        return [total] if total else []
    if fam == 'mixed':
        sizes = []
        left = total
        while left:
            s = int(rng.choice([0, 1, 1, 2, 3, 4, 5, 7, 64, 4096, int(rng.integers(1, 6000))]))
            s = min(s, left)
            sizes.append(s)
            left -= s
        return sizes
    step = int(rng.choice(PRIMES)) if fam == 'prime' else int(fam)
    q, rem = divmod(total, step)
    return [step] * q + ([rem] if rem else [])


def cuts_to_sizes(total, cuts):
    pts = sorted(set(c for c in cuts if 0 < c < total))
    pts = [0] + pts + [total]
    return [b - a for a, b in zip(pts, pts[1:])]


def short_streams(ctx):
    """payload-length profiles whose streams get ALL chunkings (n = 4*frames + sum of payload lengths)"""
    q = [[1], [2], [3], [5], [1, 1], [2, 1], [1, 3], [3, 3], [10]]                      # up to 14 bytes
    t = q + [[1, 1, 1], [2, 1, 2], [1, 2, 1], [6, 4], [14], [2, 3, 1], [1, 1, 4], [5, 5]]  # up to 18 bytes
    return ctx.pick(q, t)


def run_exhaustive(ctx):
    rng = ctx.rng
    scope = []
    for prof in short_streams(ctx):
        payloads = [bytes(rng.integers(0, 256, n, dtype=np.uint8)) for n in prof]
        stream = mkstream(payloads)
        n = len(stream)
        scope.append({'payload_lengths': prof, 'stream_bytes': n, 'chunkings': 1 << (n - 1)})
        b = Batch(ctx, 'exhaustive')
        for sizes in compositions(n):
            b.add(stream, sizes, 'all')
            if rng.random() < (0.25 if n <= 14 else 0.05):
                b.add(stream, with_empties(rng, sizes), 'all+empty')
            if len(b.cases) >= 20000:
                b.flush()
        b.flush()
    ctx.extra['scope'] = scope
    ctx.exhaustive = True


def run_boundary(ctx):
    """empty input, only-empty chunks, truncations (every proper prefix of two short streams under all
    chunkings), zero-length payloads (outside the format: model vs real code only)"""
    rng = ctx.rng
    b = Batch(ctx, 'degenerate', cross=True)
    b.add(b'', [], 'no-chunks')
    b.add(b'', [0], 'one-empty-chunk')
    b.add(b'', [0, 0, 0], 'empty-chunks')
    b.flush()
    bt = Batch(ctx, 'truncated', cross=True)
    for prof in ([2], [1, 2], [3, 1]):
        stream = mkstream([bytes(rng.integers(0, 256, n, dtype=np.uint8)) for n in prof])
        for k in range(0, len(stream)):
            pre = stream[:k]
            for sizes in compositions(k):
                bt.add(pre, sizes, 'prefix%d' % k)
    bt.flush()
    # 1-3 stray bytes after the last frame (trailing_garbage_ignored): the complete frames are handed over,
    # the garbage stays in _partial_len; all chunkings
    bg = Batch(ctx, 'trailing-garbage', cross=True)
    for prof in ([], [2], [1, 2]):
        base = mkstream([bytes(rng.integers(0, 256, n, dtype=np.uint8)) for n in prof])
        for glen in (1, 2, 3):
            g = bytes(rng.integers(0, 256, glen, dtype=np.uint8))
            for stream in (base + g, base + b'\x00' * glen, base + b'\xff' * glen):
                for sizes in compositions(len(stream)):
                    bg.add(stream, sizes, 'garbage%d' % glen)
    bg.flush()
    bz = Batch(ctx, 'zero-payload', wellformed=False, cross=True)
    for payloads in ([b''], [b'', b'ab'], [b'a', b'', b'b'], [b'ab', b'']):
        stream = mkstream(payloads)
        for sizes in compositions(len(stream)):
            bz.add(stream, sizes, 'zero')
    bz.flush()


def run_random(ctx):
    rng = ctx.rng
    nstreams = ctx.pick(24, 120)
    fams = ['1', '2', '3', '4', '5', 'prime', '4096', 'whole', 'mixed']
    b = Batch(ctx, 'random')
    for si in range(nstreams):
        # size profile: mostly moderate, some large (the driver runs the linear-time machine, proved equal to
        # the simple one, so the longest streams are compared at chunk sizes 1-3 as well)
        kind = si % 4
        if kind == 0:
            nf, hi = int(rng.integers(1, 41)), 60
        elif kind == 1:
            nf, hi = int(rng.integers(1, 13)), 700
        elif kind == 2:
            nf, hi = int(rng.integers(1, 41)), 5000
        else:
            nf, hi = int(rng.integers(1, 6)), 5000
        lens = [int(rng.integers(1, hi + 1)) for _ in range(nf)]
        if si % 6 == 0:
            lens[int(rng.integers(0, nf))] = int(rng.choice([4092, 4096, 4095, 255, 256, 257]))
        payloads = [bytes(rng.integers(0, 256, n, dtype=np.uint8)) for n in lens]
        stream = mkstream(payloads)
        total = len(stream)
        ctx.count('stream-bytes:' + ('<1k' if total < 1000 else '<20k' if total < 20000 else '>=20k'))
        for fam in fams:
            b.add(stream, chunk_family(rng, total, fam), 'fam=' + fam)
        # cuts forced inside every length prefix
        starts = list(itertools.accumulate([0] + [4 + n for n in lens]))[:-1]
        for j in range(0, 5):
            b.add(stream, cuts_to_sizes(total, [s + j for s in starts]), 'prefix-cut@%d' % j)
        b.add(stream, cuts_to_sizes(total, [s + j for s in starts for j in range(0, 5)]), 'prefix-bytewise')
        b.add(stream, cuts_to_sizes(total, [s + int(rng.integers(0, 5)) for s in starts] +
                                    [s + 4 + int(rng.integers(0, n + 1)) for s, n in zip(starts, lens)]),
              'prefix+payload-cuts')
        if len(b.cases) >= 120:
            b.flush()
    b.flush()
    # one frame whose length needs the third prefix byte
    big = mkstream([bytes(rng.integers(0, 256, 70000, dtype=np.uint8)), b'xy'])
    b = Batch(ctx, 'prefix-byte-3')
    for fam in ('whole', '4096', 'prime'):
        b.add(big, chunk_family(rng, len(big), fam), 'fam=' + fam)
    b.add(big, cuts_to_sizes(len(big), [1, 2, 3, 4, 70004, 70005, 70007, 70008]), 'cuts')
    b.flush()
    if not ctx.quick:
        # fourth prefix byte: real code and oracle only (a 16 MiB byte list is too much for the list model)
        huge = mkstream([bytes(rng.integers(0, 256, (1 << 24) + 5, dtype=np.uint8)), b'z'])
        b = Batch(ctx, 'prefix-byte-4', model=False)
        b.add(huge, chunk_family(rng, len(huge), '4096'), 'fam=4096')
        b.add(huge, cuts_to_sizes(len(huge), [2, 1 << 20, (1 << 24) + 9, (1 << 24) + 11]), 'cuts')
        b.flush()


def run_compress(ctx):
    """compress() via memoryview: framing byte for byte against the model, then decompress under chunkings"""
    from abacusnbody.data.asdf import BloscCompressor
    rng = ctx.rng
    lines, cases = [], []
    for isz in (1, 2, 4, 8, 12):
        nitems_list = [0, 1, 2, 5, 17] + [int(rng.integers(1, 200)) for _ in range(ctx.pick(2, 8))]
        for nitems in nitems_list:
            bss = set()
            for mult in (1, 2, 3, max(1, nitems // 2), nitems, nitems + 1):
                for d in (-1, 0, 1):
                    bss.add(mult * isz + d)
            bss |= {0, isz - 1, 1 << 22}
            for bs in sorted(x for x in bss if x >= 0):
                raw = bytes(rng.integers(0, 256, nitems * isz, dtype=np.uint8))
                cases.append((isz, nitems, bs, raw))
                lines.append('enc %d %d %s' % (isz, bs, hexs(raw)))
    outs = ctx.driver.query(lines)
    dec_batch = Batch(ctx, 'roundtrip')
    expect = {}
    for (isz, nitems, bs, raw), mres in zip(cases, outs):
        case = {'label': 'compress', 'itemsize': isz, 'nitems': nitems, 'block_size': bs,
                'data': raw.hex() if len(raw) <= 100 else None}
        ctx.case(case, nontrivial=nitems > 0, key=(isz, nitems, bs, raw.hex()))
        ctx.count('family:compress')
        arr = np.frombuffer(raw, dtype=np.dtype('V%d' % isz) if isz == 12 else np.dtype('u%d' % isz))
        REC.typesizes = []
        try:
            pieces = [bytes(p) for p in BloscCompressor().compress(memoryview(arr), compression_block_size=bs)]
            impl = {'pieces': [p.hex() for p in pieces]}
        except ValueError as e:
            impl = {'err': 'zero-step' if 'must not be zero' in str(e) else 'ValueError: ' + str(e)[:60]}
        except Exception as e:   # noqa: BLE001
            impl = {'err': type(e).__name__ + ': ' + str(e)[:60]}
        if mres.startswith('ok '):
            model = {'pieces': [] if mres[3:] == '.' else mres[3:].split(',')}
        else:
            model = {'err': mres[4:]}
        if model != impl:
            ctx.disagree('compress framing', case, small(model), small(impl))
        # oracle for the framing: with block size >= itemsize every piece is be32(len)+frame and the frames
        # decode to the data, cut every (block_size // itemsize) items
        if bs >= isz:
            nelem = bs // isz
            exp = [be32(len(e)) + e for e in (toy_enc(raw[i * isz:(i + nelem) * isz]) for i in range(0, nitems, nelem))]
            if impl.get('pieces') != [p.hex() for p in exp] or any(t != isz for t in REC.typesizes):
                ctx.fail('compress does not frame the data per compression block', case, small(impl),
                         {'pieces': [p.hex() for p in exp][:6]}, key='compress:framing')
            else:
                stream = b''.join(exp)
                expect[id(stream)] = raw
                total = len(stream)
                fams = ['whole', '1', '3', 'prime', 'mixed']
                for fam in fams:
                    dec_batch.add(stream, chunk_family(rng, total, fam), 'rt isz=%d bs=%d fam=%s' % (isz, bs, fam))
                if 0 < total <= 12:
                    for sizes in compositions(total):
                        dec_batch.add(stream, sizes, 'rt-all isz=%d bs=%d' % (isz, bs))
    # round trip: decompress(compress(data)) == data is decided by check_case's oracle, because for these
    # streams `decoded` (spec_frames + toy_dec) is the data itself — assert that here
    for stream, _, _ in dec_batch.cases:
        frames, complete = spec_frames(stream)
        assert complete and b''.join(toy_dec(f) for f in frames) == expect[id(stream)]
    dec_batch.flush()


def run_compress_kwargs(ctx):
    """compress(**kwargs): which keywords are popped, typesize 'auto' vs explicit, the shuffle table and its
    ValueError branch, what reaches blosc.set_nthreads / set_blocksize / compress — against compressK"""
    from abacusnbody.data.asdf import BloscCompressor
    rng = ctx.rng
    ABSENT = object()

    def pick(opts):
        return opts[int(rng.integers(0, len(opts)))]

    cases, lines = [], []
    for k in range(ctx.pick(150, 900)):
        isz = pick([1, 2, 4, 8, 12])
        nitems = int(rng.integers(0, 30))
        raw = bytes(rng.integers(0, 256, nitems * isz, dtype=np.uint8))
        kw = {
            'typesize': pick([ABSENT, ABSENT, 'auto', 1, 3, 8, isz]),
            'clevel': pick([ABSENT, ABSENT, 0, 5, 9]),
            'cname': pick([ABSENT, ABSENT, 'lz4', 'zlib', 'zstd']),
            'shuffle': pick([ABSENT, ABSENT, 'shuffle', 'bitshuffle', None, None, 'x', 'noshuffle', 'SHUFFLE']),
            'nthreads': pick([ABSENT, ABSENT, 1, 4]),
            'blosc_block_size': pick([ABSENT, ABSENT, 1000, 0]),
            'compression_block_size': pick([ABSENT, isz, 2 * isz + 1, 5 * isz, max(0, isz - 1)]),
        }
        kw = {a: b for a, b in kw.items() if b is not ABSENT}
        if rng.random() < 0.2:
            kw['foo'] = 1
        if rng.random() < 0.1:
            kw['bar'] = 'q'
        toks = []
        names = {'typesize': 'typesize', 'clevel': 'clevel', 'cname': 'cname', 'shuffle': 'shuffle',
                 'nthreads': 'nthreads', 'blosc_block_size': 'bbs', 'compression_block_size': 'cbs'}
        for a, b in kw.items():
            if a in names:
                toks.append('%s=%s' % (names[a], 'none' if b is None else b))
            else:
                toks.append('x:%s=%s' % (a, b))
        cases.append((isz, nitems, raw, kw))
        lines.append('enck %d %s %s' % (isz, hexs(raw), ' '.join(toks)))
    outs = ctx.driver.query(lines)
    for (isz, nitems, raw, kw), mres in zip(cases, outs):
        case = {'label': 'compress-kwargs', 'itemsize': isz, 'nitems': nitems, 'kwargs': {a: repr(b) for a, b in kw.items()},
                'data': raw.hex() if len(raw) <= 100 else None}
        ctx.case(case, nontrivial=True, key=(isz, raw.hex(), sorted((a, repr(b)) for a, b in kw.items())))
        ctx.count('family:compress-kwargs')
        ctx.count('kw-shuffle:%r' % (kw.get('shuffle', 'absent'),))
        ctx.count('kw-typesize:%s' % ('absent' if 'typesize' not in kw else 'auto' if kw['typesize'] == 'auto' else 'explicit'))
        enough(ctx)
        arr = np.frombuffer(raw, dtype=np.dtype('V%d' % isz) if isz == 12 else np.dtype('u%d' % isz))
        REC.trace = []
        try:
            pieces = [bytes(p) for p in BloscCompressor().compress(memoryview(arr), **dict(kw))]
            calls = [t for t in REC.trace if t[0] == 'compress']
            argsets = {json.dumps({a: (b if isinstance(b, (int, str)) else repr(b)) for a, b in c[2].items()}, sort_keys=True)
                       for c in calls}
            impl = {'order': [t[0] for t in REC.trace][:2], 'nthreads': [t[1] for t in REC.trace if t[0] == 'nthreads'],
                    'bbs': [t[1] for t in REC.trace if t[0] == 'blocksize'], 'args': sorted(argsets),
                    'blocks': [c[1].hex() for c in calls], 'pieces': [p.hex() for p in pieces]}
        except ValueError as e:
            impl = {'err': 'zero-step' if 'must not be zero' in str(e) else 'value-error', 'codec_touched': bool(REC.trace),
                    'arg': e.args[0] if e.args else None}
        except Exception as e:   # noqa: BLE001
            impl = {'err': type(e).__name__ + ': ' + str(e)[:60]}
        if mres.startswith('ok '):
            parts = dict(t.split('=', 1) for t in mres.split(' ')[1:])
            ts, cl, sh, cn, ex = parts['args'].split(':')
            margs = {'typesize': int(ts), 'clevel': int(cl), 'shuffle': int(sh), 'cname': cn}
            if ex != '.':
                for kv in ex.split(';'):
                    a, b = kv.split('~')
                    margs[a] = int(b) if b.isdigit() else b
            blocks = [] if parts['blocks'] == '.' else ['' if f == '-' else f for f in parts['blocks'].split(',')]
            model = {'order': ['nthreads', 'blocksize'], 'nthreads': [int(parts['nthreads'])], 'bbs': [int(parts['bbs'])],
                     'args': [json.dumps(margs, sort_keys=True)] if blocks else [],
                     'blocks': blocks,
                     'pieces': [] if parts['pieces'] == '.' else parts['pieces'].split(',')}
        else:
            model = {'err': mres[4:]}
            if model['err'] == 'value-error':
                model.update(codec_touched=False, arg=kw.get('shuffle'))
            elif model['err'] == 'zero-step':
                model.update(codec_touched=True, arg=impl.get('arg'))
        if model != impl:
            ctx.disagree('compress keyword handling', case, small(model), small(impl))
        # oracle: the documented meaning of the keywords, restated
        sh = kw.get('shuffle', 'shuffle')
        if sh not in ('shuffle', 'bitshuffle', None):
            if impl.get('err') != 'value-error' or impl.get('codec_touched'):
                ctx.fail('unknown shuffle keyword not rejected before the codec is used', case, small(impl),
                         {'err': 'value-error', 'codec_touched': False}, key='compress:shuffle-error')
        elif impl.get('err') not in (None, 'zero-step'):
            ctx.fail('compress with valid keywords raises', case, small(impl), {'err': None}, key='compress:kwargs-raise')
        elif 'err' not in impl:
            exp_ts = isz if kw.get('typesize', 'auto') == 'auto' else kw['typesize']
            exp_sh = {'shuffle': 1, 'bitshuffle': 2, None: 0}[sh]
            bad = [a for a in impl['args'] if json.loads(a).get('typesize') != exp_ts or json.loads(a).get('shuffle') != exp_sh
                   or json.loads(a).get('clevel') != kw.get('clevel', 1) or json.loads(a).get('cname') != kw.get('cname', 'zstd')]
            if bad or ''.join(impl['blocks']) != raw.hex() or impl['nthreads'] != [kw.get('nthreads', 1)] \
                    or impl['bbs'] != [kw.get('blosc_block_size', 512 * 1024)]:
                ctx.fail('compress keywords do not reach the codec as documented', case, small(impl),
                         {'typesize': exp_ts, 'shuffle': exp_sh}, key='compress:kwargs')


def write_blsc(fn, tree, block_size):
    """asdf 5.4 hands `compress` an ndarray, which the real method rejects (`data.contiguous`); hand it the
    documented memoryview instead (harness-side adapter; reading goes through the unmodified decompress)"""
    import asdf
    from abacusnbody.data.asdf import BloscCompressor
    orig = BloscCompressor.compress

    def adapter(self, data, **kw):
        return orig(self, memoryview(np.ascontiguousarray(data)), **kw)

    BloscCompressor.compress = adapter
    try:
        af = asdf.AsdfFile(tree)
        af.write_to(fn, all_array_compression='blsc', compression_kwargs={'compression_block_size': block_size})
    finally:
        BloscCompressor.compress = orig


def run_end_to_end(ctx, codec_label):
    """asdf.open(...)[...][:] on blsc files; asdf's file layer decides the chunking (recorded)"""
    import asdf
    from abacusnbody.data.asdf import BloscCompressor
    rng = ctx.rng
    tmp = ctx.tmpdir()
    orig = BloscCompressor.decompress
    seen = []

    def recording(self, blocks, out, **kw):
        sizes, data = [], []

        def gen():
            for blk in blocks:
                bb = bytes(blk)
                sizes.append(len(bb))
                data.append(bb)
                yield blk

        import blosc
        n0 = len(REC.frames) if codec_label == 'toy' else len(blosc.CALLS)
        n = orig(self, gen(), out, **kw)
        frames = REC.frames[n0:] if codec_label == 'toy' else blosc.CALLS[n0:]
        seen.append((b''.join(data), sizes, [bytes(f) for f in frames], int(n)))
        return n

    BloscCompressor.decompress = recording
    try:
        for rep in range(ctx.pick(2, 6)):
            bs = int(rng.choice([64, 1000, 4092, 4096, 5000, 50000, 1 << 22]))
            cols = {
                'i8': rng.integers(0, 2 ** 62, size=int(rng.integers(1, 4000)), dtype=np.int64),
                'f4x3': rng.random((int(rng.integers(1, 3000)), 3)).astype(np.float32),
                'u1': rng.integers(0, 256, size=int(rng.integers(1, 9000)), dtype=np.uint8),
                'i2': rng.integers(-2 ** 15, 2 ** 15, size=int(rng.integers(1, 50)), dtype=np.int16),
            }
            fn = os.path.join(tmp, 'e2e_%s_%d.asdf' % (codec_label, rep))
            write_blsc(fn, {'data': dict(cols)}, bs)
            REC.base = None
            del seen[:]
            with asdf.open(fn, lazy_load=True, memmap=False) as af:
                for name, arr in cols.items():
                    got = af['data'][name][:]
                    case = {'label': 'asdf-e2e', 'codec': codec_label, 'column': name, 'nbytes': int(arr.nbytes),
                            'block_size': bs}
                    ctx.case(case, key=(codec_label, name, rep, bs, int(arr.nbytes)))
                    ctx.count('family:asdf-e2e-' + codec_label)
                    if got.dtype != arr.dtype or got.shape != arr.shape or got.tobytes() != arr.tobytes():
                        ctx.fail('asdf read of a blsc block differs from what was written', case,
                                 {'dtype': str(got.dtype), 'shape': got.shape}, {'dtype': str(arr.dtype), 'shape': arr.shape},
                                 key='e2e:read')
            # asdf's own chunking of each compressed block, replayed on the model (frames + progress)
            lines = ['dec %s %s' % (hexs(s), rle(sizes)) for (s, sizes, _, _) in seen]
            for (s, sizes, frames, n), mres in zip(seen, ctx.driver.query(lines)):
                m = parse_model(mres)
                ctx.count('asdf-chunk-size:%s' % (max(sizes) if sizes else 0))
                case = {'label': 'asdf-e2e-framing', 'codec': codec_label, 'stream_len': len(s), 'sizes': rle(sizes)}
                if m.get('frames') != [f.hex() for f in frames]:
                    ctx.disagree('frames handed to the codec under asdf chunking', case,
                                 small({'frames': m.get('frames'), 'err': m.get('err')}), small({'frames': [f.hex() for f in frames]}))
                elif codec_label == 'toy' and m['n'] != n:
                    ctx.disagree('bytesout under asdf chunking', case, m['n'], n)
                sp, complete = spec_frames(s)
                if not complete or [f.hex() for f in sp] != [f.hex() for f in frames]:
                    ctx.fail('asdf chunking: frames handed to the codec are not the stream frames', case,
                             {'nframes': len(frames)}, {'nframes': len(sp), 'complete': complete}, key='e2e:frames')
                ctx.traces_validated += 1
    finally:
        BloscCompressor.decompress = orig


def corpus_cases():
    from vcommon import CORPUS
    out = []
    d = CORPUS / 'C14'
    if d.is_dir():
        for p in sorted(d.glob('*.json')):
            out.append(json.loads(p.read_text()))
    return out


def run_corpus(ctx):
    b = Batch(ctx, 'corpus')
    bz = Batch(ctx, 'corpus-malformed', wellformed=False)
    for c in corpus_cases():
        stream = bytes.fromhex(c['stream'])
        (b if c.get('wellformed', True) else bz).add(stream, unrle(c['sizes']), c.get('tag', 'corpus'))
    ctx.count('corpus', len(b.cases) + len(bz.cases))
    b.flush()
    bz.flush()


def run(ctx):
    import abacusnbody.data.asdf  # noqa: F401  (the module under test; registers the blsc compressor)
    try:
        with ToyCodec():
            run_corpus(ctx)
            run_boundary(ctx)
            run_exhaustive(ctx)
            run_random(ctx)
            run_compress(ctx)
            run_compress_kwargs(ctx)
            run_end_to_end(ctx, 'toy')
        run_end_to_end(ctx, 'standin')
    except Enough:
        ctx.count('stopped-early')


def intensify(ctx):
    """a proof or the correspondence broke: look harder for a (stream, chunking) on which the real code is wrong"""
    import abacusnbody.data.asdf  # noqa: F401
    rng = ctx.rng
    if len(ctx.failures) >= MAX_REPORTS:
        return
    with ToyCodec():
        b = Batch(ctx, 'intensify', model=not ctx.driver.error)
        for _ in range(400):
            nf = int(rng.integers(1, 5))
            lens = [int(rng.integers(1, 7)) for _ in range(nf)]
            stream = mkstream([bytes(rng.integers(0, 256, n, dtype=np.uint8)) for n in lens])
            for _ in range(20):
                sizes = chunk_family(rng, len(stream), 'mixed')
                b.add(stream, with_empties(rng, sizes), 'intensify')
        b.flush()
        for prof in ([1, 1, 1], [2, 3, 1]):
            stream = mkstream([bytes(rng.integers(0, 256, n, dtype=np.uint8)) for n in prof])
            for sizes in compositions(len(stream)):
                b.add(stream, sizes, 'intensify-all')
            b.flush()


def replay(ctx, doc):
    import abacusnbody.data.asdf  # noqa: F401
    c = doc['failure']['case'] if 'failure' in doc else doc
    if not c.get('stream') or not c.get('sizes'):
        print('large case: re-run ./check C14 with the recorded seed and tier')
        return
    with ToyCodec():
        b = Batch(ctx, 'replay', wellformed=c.get('label') not in ('zero-payload', 'corpus-malformed'))
        b.add(bytes.fromhex(c['stream']), unrle(c['sizes']), 'replay')
        b.flush()
