"""C07 — parallel TSC equals serial TSC under every thread schedule (DESIGN.md §7 C07)."""
from vcommon import pure
import os

# must precede the first numba import in this process
os.environ['NUMBA_NUM_THREADS'] = '32'          # nthread up to 32 must be accepted by numba whatever the machine
os.environ.setdefault('OMP_WAIT_POLICY', 'passive')   # idle OpenMP workers do not spin (speed only)
os.environ['NUMBA_BOUNDSCHECK'] = '1'           # an out-of-range access raises where numba can check it

import json  # noqa: E402
import warnings  # noqa: E402
from fractions import Fraction  # noqa: E402

import numpy as np  # noqa: E402

NS = 'AbacusVerif.TscPar.'
THEOREMS = [NS + t for t in (
    'rows_disjoint',
    'two_stripes_safe',
    'accepted_is_safe',
    'starts_index_inbounds',
    'parallel_eq_serial',
    'parallel_eq_serial_stripe_order',
    'narrow_stripe_races',
    'phases_cover',               # Props/C07Cover: the two passes visit every stripe exactly once, odd counts too, each its own slice
    'pairs_loop_drops_last',      # a loop over np//2 stripe PAIRS misses the last stripe of an odd partition (seeded change C06-e)
)] + ['AbacusVerif.Conc.disjoint_footprints_interleave', 'AbacusVerif.Conc.rmw_interleave',
      'AbacusVerif.Conc.lost_update_witness'] + ['AbacusVerif.TscLink.' + t for t in (
          'tsc_parallel_eq_serial',      # C17 partition -> C07 loops -> C06 kernel, every schedule == C06 serial scatter
          'writes_rows_subset',          # bridge: C06's subscripts along the partition axis are C07's rowsOf
          'keyInt_eq_stripeOf',          # C17's key is C07's stripe
          'stripe_slice',                # stripe s of C17's output is starts[s]:starts[s+1] and holds members s
          'stable_perm',                 # C17's output is a permutation of the input
          'tsc_parallel_wrap_eq_serial',  # wrap=True: _wrap_inplace first, particles up to one box outside, every schedule
          'wrapped_partOK',              # C06's wrap_inplace_spec discharges the per-particle hypothesis of the link theorem
      )]
LEAN_MODULES = ['AbacusVerif.Props.C07', 'AbacusVerif.Props.C07Link', 'AbacusVerif.Props.C07Wrap', 'AbacusVerif.Props.C07Cover']
DRIVER = 'drv_c07'
RULE = ('(a) exhaustive decision table: every (n1d <= 64 [160 thorough], nthread 0..24 [32], npartition in {None, 0, -1} U 1..n1d+1) '
        'through the real tsc_parallel with _tsc_parallel replaced by a recorder, against choosePartition; '
        '(b) rows written by _tsc_scatter.py_func on an index-recording grid for every 1/16-cell lattice position, '
        'every rounding tie +-1ulp, axes 0..2, offsets {0,1/4,1/2,1} cell, against rowsOf, and real partition stripes against stripeOf; '
        '(c) starts indices read by _tsc_parallel.py_func against the model\'s two loops, npartition 1..13; '
        '(d) whole tsc_parallel (nthread 2..16, coord, sort, offset, default/explicit/odd npartition) against the single-thread grid, exactly, on dyadic inputs; '
        '(e) oracle: for every accepted (n1d, stripes) with nthread > 1 the row sets of all stripes from the real partition and kernel; '
        'non-trivial = nthread > 1 and n1d >= 6 (decisions) or a multi-stripe run; distinct = distinct configuration/input')
TRUSTED = ['memory model: sequentially consistent at the granularity of one load or one store of one grid cell; '
           'numba\'s prange scheduler is over-approximated by every interleaving (Lemmas/Conc.lean)',
           'float stripe keys: a particle within one ulp of a stripe boundary may be put in the neighbouring stripe; '
           'rows_disjoint leaves a margin for it but no float model is proved',
           'index type int16 of _tsc_scatter: grids wider than 32767 cells are out of scope']
ASSUMPTIONS = ['positions in [0, BoxSize] along the partition axis, offset between 0 and one cell',
               'tsc_parallel_eq_serial: on the other two axes the particles lie in the fault-free domain of the C06 kernel '
               '(Mass.InDomain, Props/C06.lean); the schedules of the partition itself are covered by C17 partition_stable',
               'nthread >= 1 after resolving nthread < 0 to the number of cores; nthread <= NUMBA_NUM_THREADS']


def fr(x):
    x = Fraction(x)
    return str(x.numerator) if x.denominator == 1 else '%d/%d' % (x.numerator, x.denominator)


# --------------------------------------------------------------------------- recording helpers

class RecGrid:
    """index-recording stand-in for the density grid (Python-level run of _tsc_scatter)"""

    def __init__(self, shape):
        self.shape = tuple(shape)
        self.ndim = len(shape)
        self.log = []
        self.a = np.zeros(shape)

    def _n(self, idx):
        out = []
        for i, n in zip(idx, self.shape):
            i = int(i)
            if i < 0:
                i += n
            if not 0 <= i < n:
                raise IndexError('recorded oob %r in grid %r' % (tuple(int(v) for v in idx), self.shape))
            out.append(i)
        return tuple(out)

    def __getitem__(self, idx):
        return self.a[self._n(idx)]

    def __setitem__(self, idx, v):
        k = self._n(idx)
        self.log.append(k)
        self.a[k] = v


class RecArr:
    """index-recording stand-in for `starts`"""

    def __init__(self, a):
        self.a = np.asarray(a, dtype=np.int64)
        self.log = []

    def __len__(self):
        return len(self.a)

    def __getitem__(self, i):
        i = int(i)
        n = len(self.a)
        j = i + n if i < 0 else i
        if not 0 <= j < n:
            self.log.append(('oob', i))
            raise IndexError('starts[%d] with len(starts) = %d' % (i, n))
        self.log.append(j)
        return self.a[j]


_rows_cache = {}
_REAL_SCATTER_PY = [None]     # the kernel's Python function while tsc._tsc_scatter is replaced by a recorder


def impl_rows(tsc, g, axis, x, off):
    """rows along `axis` written by the real kernel for one particle at coordinate x (cell units, box = g)"""
    key = (g, axis, float(x), float(off))
    if key in _rows_cache:
        return _rows_cache[key]
    shape = [2, 2, 1]
    if axis == 2:
        shape = [2, 2, g]
    else:
        shape[axis] = g
    # every axis has the same box, so the other axes' cells are box/2 wide: put the particle at 0 there
    pos = np.zeros((1, 3))
    pos[0, axis] = x
    grid = RecGrid(shape)
    try:
        scatter_py = pure(tsc._tsc_scatter) if hasattr(tsc._tsc_scatter, 'py_func') else _REAL_SCATTER_PY[0]
        scatter_py(pos, grid, float(g), weights=None, offset=float(off))
    except IndexError as e:
        res = ('oob', str(e))
    else:
        seq = [k[axis] for k in grid.log]
        res = ('ok', tuple(sorted(set(seq))), tuple(seq))
    _rows_cache[key] = res
    return res


def particle_positions(g):
    """boundary-directed coordinates (cell units) on an axis of g cells: the 1/16 lattice incl. 0 and g, and the
    floats next to every integer and half-integer (rounding ties of the kernel with offset 0 and 1/2)"""
    lat = [j / 16.0 for j in range(0, 16 * g + 1)]
    ties = []
    for k in range(0, 2 * g + 1):
        v = k / 2.0
        if v > 0:
            ties.append(float(np.nextafter(v, -np.inf)))
        if v < g:
            ties.append(float(np.nextafter(v, np.inf)))
    return lat, ties


# --------------------------------------------------------------------------- (a) decisions

def real_decision(tsc, rec, dens, pos, w, n1d, nthread, npart):
    del rec[:]
    try:
        tsc.tsc_parallel(pos, dens, float(n1d), weights=w, nthread=nthread, wrap=False, npartition=npart)
    except ValueError:
        return 'rejected'
    except Exception as e:   # noqa: BLE001
        return 'exc:%s' % type(e).__name__
    return rec[0] if len(rec) == 1 else 'calls:%d' % len(rec)


def decisions(ctx, tsc):
    nmax, tmax = ctx.pick(64, 160), ctx.pick(24, 32)
    rec = []
    real = tsc._tsc_parallel
    tsc._tsc_parallel = lambda ppart, starts, dens, box, weights, offset: rec.append(len(starts) - 1)
    pos = np.empty((0, 3), dtype=np.float64)
    w = np.empty(0, dtype=np.float64)
    accepted = {}
    try:
        todo = []
        for n1d in range(1, nmax + 1):
            for nthread in range(0, tmax + 1):
                for npart in [None, 0, -1] + list(range(1, n1d + 2)):
                    todo.append((n1d, nthread, npart))
        for c in corpus_cases():
            if c.get('kind') == 'config':
                todo.insert(0, (c['n1d'], c['nthread'], c['npartition']))
        outs = ctx.driver.query(['choose %d %d %s' % (a, b, 'none' if c is None else c) for a, b, c in todo])
        dens = None
        for (n1d, nthread, npart), mo in zip(todo, outs):
            if dens is None or dens.shape[0] != n1d:
                dens = np.zeros((n1d, 1, 1))
            r = real_decision(tsc, rec, dens, pos, w, n1d, nthread, npart)
            m = int(mo[3:]) if mo.startswith('ok ') else mo[4:] if mo.startswith('err ') else mo
            case = {'kind': 'config', 'n1d': n1d, 'nthread': nthread, 'npartition': npart}
            ctx.case(case, nontrivial=nthread > 1 and n1d >= 6)
            ctx.count('decision:' + ('rejected' if r == 'rejected' else 'accepted' if isinstance(r, int) else str(r)))
            if m != r:
                ctx.disagree('npartition decision of tsc_parallel', case, m, r)
            if isinstance(r, int) and nthread > 1 and r >= 2:
                accepted.setdefault((n1d, r), case)
    finally:
        tsc._tsc_parallel = real
    ctx.extra['decision_space'] = 'n1d 1..%d x nthread 0..%d x npartition {None,0,-1} U 1..n1d+1' % (nmax, tmax)
    return accepted


def decisions_aniso(ctx, tsc, accepted):
    """the same decision on anisotropic grids partitioned along coord = 1, 2: the stripe count must be the
    model's choice for the length of THAT axis (whatever the other axes are), and accepted configurations
    are handed to the row-set oracle with g = shape[coord]"""
    rec = []
    real = tsc._tsc_parallel
    tsc._tsc_parallel = lambda ppart, starts, dens, box, weights, offset: rec.append(len(starts) - 1)
    pos = np.empty((0, 3), dtype=np.float64)
    w = np.empty(0, dtype=np.float64)
    sizes = [1, 2, 3, 5, 6, 7, 12, 13, 24, 48, 64]
    rng = ctx.rng
    todo = []
    for coord in (1, 2):
        for g in sizes:
            for other in ctx.pick([1, 9, 64], sizes):
                for nthread in (2, 3, 4, 8, 16):
                    for npart in (None, 2, 3, 4, 8, 16, g // 2, g // 3):
                        shape = [int(other), int(rng.choice(sizes)), int(rng.choice(sizes))]
                        shape[coord] = g
                        todo.append((tuple(shape), coord, nthread, npart))
    try:
        outs = ctx.driver.query(['choose %d %d %s' % (sh[c], nt, 'none' if p is None else p) for sh, c, nt, p in todo])
        for (shape, coord, nthread, npart), mo in zip(todo, outs):
            dens = np.zeros(shape)
            del rec[:]
            try:
                tsc.tsc_parallel(pos, dens, 64.0, weights=w, nthread=nthread, wrap=False, npartition=npart, coord=coord)
                r = rec[0] if len(rec) == 1 else 'calls:%d' % len(rec)
            except ValueError:
                r = 'rejected'
            m = int(mo[3:]) if mo.startswith('ok ') else mo[4:] if mo.startswith('err ') else mo
            case = {'kind': 'config-aniso', 'shape': list(shape), 'coord': coord, 'nthread': nthread, 'npartition': npart}
            ctx.case(case, nontrivial=shape[coord] >= 6)
            ctx.count('decision-aniso:' + ('rejected' if r == 'rejected' else 'accepted'))
            if m != r:
                ctx.disagree('npartition decision of tsc_parallel on an anisotropic grid', case, m, r)
            if isinstance(r, int) and r >= 3:
                accepted.setdefault((shape[coord], r), dict(case, n1d=shape[coord]))
    finally:
        tsc._tsc_parallel = real


# --------------------------------------------------------------------------- (b) rows and stripes

def rows_corr(ctx, tsc):
    gs = list(range(1, ctx.pick(13, 25))) + [31, 32, 33] + ctx.pick([], [64, 100])
    lines, meta = [], []
    for g in gs:
        lat, ties = particle_positions(g)
        for axis in (0, 1, 2):
            for off in (0.0, 0.25, 0.5, 1.0):
                pts = lat if axis == 0 or off in (0.0, 0.5) else lat[::5]
                pts = list(pts) + (ties if axis == 0 else ties[::7])
                for x in pts:
                    u = Fraction(x + off)          # box = g: inv_h = 1.0, the kernel's px is fl(x + off)
                    lines.append('rows %d %s' % (g, fr(u)))
                    meta.append((g, axis, x, off))
    outs = ctx.driver.query(lines)
    for (g, axis, x, off), mo in zip(meta, outs):
        r = impl_rows(tsc, g, axis, x, off)
        case = {'kind': 'rows', 'g': g, 'axis': axis, 'x': x, 'offset_cells': off}
        ctx.case(case, nontrivial=g >= 3)
        ctx.traces_validated += 1
        if r[0] == 'oob':
            ctx.count('rows:impl-oob')
            ctx.fail('_tsc_scatter indexes outside the grid', case, r[1], 'three rows inside the grid', key='tsc:scatter-oob')
            if not mo.startswith('err'):
                ctx.disagree('rows written by _tsc_scatter', case, mo, r[1])
            continue
        mrows = [int(v) for v in mo[3:].split(',')] if mo.startswith('ok ') else mo
        if mo.startswith('ok '):
            same = set(mrows) == set(r[1])
            if same and axis == 0:
                # order of first touch along axis 0: ixm1, ixw, ixp1
                first = []
                for v in r[2]:
                    if not first or first[-1] != v:
                        first.append(v)
                same = first[:3] == mrows or len(set(mrows)) < 3
        else:
            same = False
        if not same:
            ctx.disagree('rows written by _tsc_scatter', case, mrows, list(r[1]))
    ctx.count('rows:compared', len(meta))


def real_stripes(tsc, g, npart, xs, nthread=2):
    """stripe of each coordinate in xs (cell units, box = g) according to the real partition_parallel"""
    pos = np.zeros((len(xs), 3))
    pos[:, 0] = xs
    pos[:, 1] = np.arange(len(xs))           # particle id travels with the row
    ppart, starts, _ = tsc.partition_parallel(pos, npart, float(g), weights=np.ones(len(xs)), nthread=nthread, coord=0)
    stripe = np.full(len(xs), -1, dtype=np.int64)
    for s in range(npart):
        ids = ppart[starts[s]:starts[s + 1], 1].astype(np.int64)
        stripe[ids] = s
    return stripe


# --------------------------------------------------------------------------- (e) oracle on accepted configurations

def oracle_config(ctx, tsc, g, npart, case, offsets=(0.0, 0.5)):
    """row sets of all stripes of an accepted configuration from the real partition and the real kernel;
    two stripes processed in the same pass (equal parity) must not share a row"""
    lat, ties = particle_positions(g)
    bnd = []
    for s in range(1, npart):
        b = s * float(g) / npart
        bnd += [b, float(np.nextafter(b, -np.inf)), float(np.nextafter(b, np.inf))]
    xs = np.array(sorted(set(lat + ties + [b for b in bnd if 0 <= b <= g])))
    stripe = real_stripes(tsc, g, npart, xs)
    ok = True
    if (stripe < 0).any():
        ctx.fail('partition_parallel dropped a particle', case, int((stripe < 0).sum()), 0, key='tsc:partition-dropped')
        return False
    # model correspondence of the stripe key on the dyadic lattice (a float key may only differ exactly on a boundary)
    lat_idx = [i for i, x in enumerate(xs) if (x * 16) == int(x * 16)]
    outs = ctx.driver.query(['stripe %d %d %s' % (npart, g, fr(Fraction(xs[i]))) for i in lat_idx])
    for i, mo in zip(lat_idx, outs):
        if int(mo) != int(stripe[i]):
            exact = Fraction(xs[i]) * npart / g
            if exact.denominator == 1 and abs(int(mo) - int(stripe[i])) == 1:
                ctx.count('stripe:float-key-differs-exactly-on-a-boundary')
            else:
                ctx.disagree('stripe of a particle', dict(case, x=float(xs[i])), int(mo), int(stripe[i]))
    for off in offsets:
        rows = {}
        who = {}
        for x, s in zip(xs, stripe):
            r = impl_rows(tsc, g, 0, float(x), off)
            if r[0] == 'oob':
                ctx.fail('_tsc_scatter indexes outside the grid', dict(case, x=float(x), offset_cells=off), r[1], 'inside', key='tsc:scatter-oob')
                return False
            for row in r[1]:
                rows.setdefault(int(s), set()).add(row)
                who.setdefault((int(s), row), float(x))
        ctx.count('oracle:stripes examined', npart)
        for s in range(npart):
            for s2 in range(s + 2, npart, 2):
                common = rows.get(s, set()) & rows.get(s2, set())
                if common:
                    row = min(common)
                    ctx.fail('two stripes processed concurrently write the same grid row', dict(
                        case, g=g, stripes=npart, offset_cells=off, stripe_a=s, stripe_b=s2,
                        particle_a=who[(s, row)], particle_b=who[(s2, row)], shared_row=row),
                        {'shared rows': sorted(common)}, 'disjoint row sets for stripes of equal parity',
                        key='tsc:stripes-share-row')
                    ok = False
                    break
            if not ok:
                break
        if not ok:
            break
    return ok


def oracle_all(ctx, tsc, accepted):
    n = 0
    for (g, npart), case in sorted(accepted.items()):
        if npart < 3:
            ctx.count('oracle:two-stripe configurations (one stripe per pass)')
            continue
        n += 1
        if not oracle_config(ctx, tsc, g, npart, case):
            if len(ctx.failures) > 20:
                break
    ctx.count('oracle:accepted multi-stripe configurations examined', n)


# --------------------------------------------------------------------------- (c) the two loops of _tsc_parallel

def phases_corr(ctx, tsc):
    rng = ctx.rng
    pyf = pure(tsc._tsc_parallel)
    todo = []
    for npart in range(1, ctx.pick(14, 40)):
        cuts = np.sort(rng.integers(0, 7, npart - 1)) if npart > 1 else np.array([], dtype=np.int64)
        todo.append([0] + [int(v) for v in cuts] + [6])
    for c in corpus_cases():
        if c.get('kind') == 'phases':
            todo.insert(0, c['starts'])
    outs = ctx.driver.query(['phases %s' % ','.join(str(v) for v in st) for st in todo])
    ppart = np.zeros((6, 3))
    ppart[:, 0] = np.arange(6) / 2.0
    for st, mo in zip(todo, outs):
        case = {'kind': 'phases', 'starts': st}
        ctx.case(case, nontrivial=len(st) > 2)
        rs = RecArr(st)
        dens = np.zeros((8, 2, 2))
        try:
            pyf(ppart, rs, dens, 8.0, None, 0.0)
            impl = list(rs.log)
        except IndexError as e:
            impl = 'oob'
            ctx.fail('_tsc_parallel reads past the end of starts', case, str(e), 'indices <= npartition = %d' % (len(st) - 1),
                     key='tsc:starts-oob')
        if mo.startswith('ok '):
            p1, p2 = mo[3:].split('|')
            model = []
            for p in (p1, p2):
                if p != '-':
                    for j in p.split(','):
                        f = j.split(':')
                        model += [int(f[1]), int(f[2])]
        else:
            model = 'oob'
        if model != impl:
            ctx.disagree('starts indices read by _tsc_parallel', case, model, impl)
        elif impl != 'oob':
            ctx.traces_validated += 1
            # oracle: every particle deposited exactly once -> total weight conserved exactly (dyadic)
            if dens.sum() != 6.0:
                ctx.fail('_tsc_parallel does not deposit every stripe exactly once', case, float(dens.sum()), 6.0, key='tsc:stripe-missed')


def oracle_concurrent_rows(ctx, tsc):
    """Model-free and deterministic: run the Python-level `_tsc_parallel` with `numba.prange` and `_tsc_scatter`
    replaced by recorders, on accepted configurations with boundary-directed particles, and demand that the
    iterations of ONE prange loop (= what may run concurrently) write pairwise disjoint grid rows.  This does not
    wait for a lost update to happen: a loop structure in which two concurrent iterations share a row is the
    failing input (configuration, the two iterations, the shared rows)."""
    import numba
    rng = ctx.rng
    pyf = pure(tsc._tsc_parallel)
    real_prange, real_scatter = numba.prange, tsc._tsc_scatter
    _REAL_SCATTER_PY[0] = pure(real_scatter)
    state = {'loop': -1, 'it': None}
    rows_of = {}
    cur = {}

    def rec_prange(n):
        state['loop'] += 1
        lid = state['loop']
        for i in range(n):
            state['it'] = (lid, i)
            yield i
        state['it'] = None

    def rec_scatter(positions, density, boxsize, weights=None, offset=0.0):
        g = density.shape[cur['coord']]
        rs = set()
        for x in positions[:, cur['coord']]:
            r = impl_rows(tsc, g, cur['coord'], float(x) * g / boxsize, float(offset) * g / boxsize)
            if r[0] == 'ok':
                rs.update(r[1])
        rows_of.setdefault(state['it'], set()).update(rs)

    configs = []
    for g in (6, 9, 12, 13, 24, 48):
        for nthread in (2, 4, 8):
            for npart in (None, 2, 4, g // 3):
                configs.append((g, nthread, npart, int(rng.integers(0, 3)), float(rng.choice([0.0, 0.5])), False))
    # wrap=True with particles up to a whole box outside [0, Box): the periodic wrap must happen BEFORE the particles are
    # assigned to stripes, otherwise a stripe writes rows far from its own
    for g in (12, 24, 48):
        for nthread in (2, 4, 8):
            configs.append((g, nthread, None, int(rng.integers(0, 3)), float(rng.choice([0.0, 0.5])), True))
            configs.append((g, nthread, 4, int(rng.integers(0, 3)), 0.0, True))
    try:
        for g, nthread, npart, coord, offc, wrap in configs:
            lat, ties = particle_positions(g)
            xs = np.array(sorted(set(lat[::2] + ties)))
            if wrap:
                xs = np.concatenate([xs - g, xs, xs[xs < g] + g])
            pos = np.zeros((len(xs), 3))
            pos[:, coord] = xs
            shape = [2, 2, 2]
            shape[coord] = g
            case = {'kind': 'concurrent-rows', 'g': g, 'nthread': nthread, 'npartition': npart, 'coord': coord, 'offset_cells': offc,
                    'wrap': wrap}
            ctx.case(case, nontrivial=True)
            ctx.count('oracle:concurrent-rows configurations')
            rec = []
            orig = tsc._tsc_parallel
            tsc._tsc_parallel = lambda ppart, starts, dens, box, weights, offset: rec.append((ppart.copy(), np.array(starts), offset))
            try:
                tsc.tsc_parallel(pos.copy(), np.zeros(shape), float(g), nthread=nthread, npartition=npart, coord=coord,
                                 offset=offc, wrap=wrap)
            except ValueError:
                ctx.count('oracle:concurrent-rows rejected')
                continue
            finally:
                tsc._tsc_parallel = orig
            ppart, starts, offset = rec[0]
            state['loop'], state['it'] = -1, None
            rows_of.clear()
            cur['coord'] = coord
            # the recorders are in place only while the Python-level driver runs (compilation of other kernels
            # must see the real numba.prange)
            numba.prange = rec_prange
            tsc._tsc_scatter = rec_scatter
            try:
                pyf(ppart, starts, np.zeros(shape), float(g), None, offset)
            finally:
                numba.prange = real_prange
                tsc._tsc_scatter = real_scatter
            by_loop = {}
            for (lid, it), rs in rows_of.items():
                by_loop.setdefault(lid, []).append((it, rs))
            for lid, its in by_loop.items():
                for a in range(len(its)):
                    for b in range(a + 1, len(its)):
                        common = its[a][1] & its[b][1]
                        if common:
                            ctx.fail('two iterations of one prange loop of _tsc_parallel (which may run concurrently) write the same grid rows',
                                     dict(case, stripes=len(starts) - 1, prange_loop=lid, iteration_a=its[a][0], iteration_b=its[b][0]),
                                     {'shared rows': sorted(common)[:6]}, 'pairwise disjoint row sets within a prange loop',
                                     key='tsc:concurrent-iterations-share-row')
                            break
                    else:
                        continue
                    break
    finally:
        numba.prange = real_prange
        tsc._tsc_scatter = real_scatter


# --------------------------------------------------------------------------- (d) whole runs

def gen_whole(ctx):
    rng = ctx.rng
    cases = []
    for k in range(ctx.pick(260, 3000)):
        coord = int(rng.integers(0, 3))
        n1d = int(rng.choice([1, 2, 3, 5, 6, 7, 8, 9, 12, 13, 16, 18, 24, 30]))
        shape = [int(rng.choice([2, 3, 4, 8])) for _ in range(3)]
        shape[coord] = n1d
        if rng.random() < 0.3:
            shape = [n1d] * 3 if n1d <= 16 else shape
        mode = str(rng.choice(['default', 'explicit', 'odd1', 'two']))
        nthread = int(rng.integers(2, 17))
        if mode == 'default':
            npart = None
        elif mode == 'two':
            npart = 2
        elif mode == 'odd1':
            nthread = 1
            npart = int(rng.choice([1, 3, 5, 7, 9]))
        else:
            hi = max(n1d // 3, 2)
            npart = int(rng.choice([v for v in range(2, hi + 1, 2)]))
        N = int(rng.choice([0, 1, 2, 5, 40, 150]))
        offk = int(rng.choice([0, 0, 1, 2]))     # offset in units of box/64 (0, or a dyadic fraction of a cell)
        if offk and max(shape) * offk > 64:
            offk = 0
        cases.append(dict(kind='whole', shape=shape, coord=coord, nthread=nthread, npartition=npart, sort=int(rng.integers(0, 2)),
                          N=N, offk=offk, J=rng.integers(0, 65, (N, 3)).tolist(), w8=[int(v) for v in rng.integers(0, 17, N)],
                          wrap=int(rng.integers(0, 2))))
        if cases[-1]['wrap'] and k % 2:
            # wrap=True is the mode that accepts particles outside [0, Box): up to one box on either side
            cases[-1]['J'] = rng.integers(-64, 129, (N, 3)).tolist()
    return cases


def run_whole(ctx, tsc, c, safe_first):
    box = 4.0
    pos = np.array(c['J'], dtype=np.float64).reshape(c['N'], 3) * (box / 64)
    w = np.array(c['w8'], dtype=np.float64) / 8
    off = c['offk'] * box / 64

    def call(nthread, npart, sort):
        dens = np.zeros(c['shape'], dtype=np.float64)
        return tsc.tsc_parallel(pos.copy(), dens, box, weights=w.copy(), nthread=nthread, wrap=bool(c['wrap']), npartition=npart,
                                sort=bool(sort), coord=c['coord'], offset=off)
    ctx.case(c, nontrivial=c['N'] >= 2)
    ctx.count('whole:' + ('default' if c['npartition'] is None else 'odd,nthread=1' if c['nthread'] == 1 else 'explicit'))
    try:
        ref = call(1, 1, False)
    except Exception as e:   # noqa: BLE001
        ctx.fail('single-thread tsc_parallel raised', c, '%s: %s' % (type(e).__name__, e), 'a grid', key='tsc:serial-exception')
        return
    if safe_first:
        # Python-level _tsc_parallel first: an out-of-range starts index raises instead of reading stray memory
        real = tsc._tsc_parallel
        tsc._tsc_parallel = pure(real)
        try:
            got = call(c['nthread'], c['npartition'], c['sort'])
        except ValueError:
            got = None
            ctx.count('whole:rejected')
        except IndexError as e:
            ctx.fail('tsc_parallel raised IndexError on an accepted configuration', c, str(e)[:200], 'the single-thread grid',
                     key='tsc:starts-oob')
            return
        except Exception as e:   # noqa: BLE001
            ctx.fail('tsc_parallel raised on an accepted configuration', c, '%s: %s' % (type(e).__name__, str(e)[:200]),
                     'the single-thread grid', key='tsc:exception')
            return
        finally:
            tsc._tsc_parallel = real
        if got is not None and not np.array_equal(got, ref):
            ctx.fail('parallel TSC grid (Python-level driver) differs from the single-thread grid', c,
                     {'max abs diff': float(np.abs(got - ref).max()), 'sum': float(got.sum())}, {'sum': float(ref.sum())},
                     key='tsc:parallel-ne-serial')
            return
        if got is None:
            return
    try:
        got = call(c['nthread'], c['npartition'], c['sort'])
    except ValueError:
        ctx.count('whole:rejected')
        return
    except Exception as e:   # noqa: BLE001
        ctx.fail('tsc_parallel raised on an accepted configuration', c, '%s: %s' % (type(e).__name__, str(e)[:200]),
                 'the single-thread grid', key='tsc:exception')
        return
    if not np.array_equal(got, ref):
        ctx.fail('parallel TSC grid differs from the single-thread grid', c,
                 {'max abs diff': float(np.abs(got - ref).max()), 'sum': float(got.sum())}, {'sum': float(ref.sum())},
                 key='tsc:parallel-ne-serial')
    if float(ref.sum()) != float(w.sum()):
        ctx.fail('single-thread TSC does not conserve the total weight', c, float(ref.sum()), float(w.sum()), key='tsc:weight-not-conserved')


def whole(ctx, tsc):
    cases = [c for c in corpus_cases() if c.get('kind') == 'whole'] + gen_whole(ctx)
    oob_seen = False
    for c in cases:
        odd = c['nthread'] == 1 and (c['npartition'] or 1) > 1 and (c['npartition'] or 1) % 2 == 1
        if odd and oob_seen:
            # already reported; the compiled kernel would read stray memory for the same configurations
            ctx.count('whole:odd npartition runs skipped after an out-of-range starts index')
            continue
        n0 = len(ctx.failures)
        run_whole(ctx, tsc, c, safe_first=(odd or c['N'] <= 5))
        if any(f['key'] == 'tsc:starts-oob' for f in ctx.failures[n0:]):
            oob_seen = True


# --------------------------------------------------------------------------- entry points

def corpus_cases():
    from vcommon import CORPUS
    out = []
    d = CORPUS / 'C07'
    if d.is_dir():
        for p in sorted(d.glob('*.json')):
            out.append(json.loads(p.read_text()))
    return out


def run(ctx):
    warnings.simplefilter('ignore')          # tsc_parallel recommends float32; float64 keeps the comparison exact
    from abacusnbody.analysis import tsc
    ctx.count('corpus', len(corpus_cases()))
    import time
    from vcommon import log
    t0 = time.time()
    stages = {}
    accepted = decisions(ctx, tsc)
    ctx.exhaustive = True
    stages['decisions'] = round(time.time() - t0, 1)
    decisions_aniso(ctx, tsc, accepted)
    stages['decisions-aniso'] = round(time.time() - t0, 1)
    phases_corr(ctx, tsc)
    stages['phases'] = round(time.time() - t0, 1)
    rows_corr(ctx, tsc)
    stages['rows'] = round(time.time() - t0, 1)
    oracle_all(ctx, tsc, accepted)
    stages['oracle'] = round(time.time() - t0, 1)
    oracle_concurrent_rows(ctx, tsc)
    stages['oracle-concurrent-rows'] = round(time.time() - t0, 1)
    whole(ctx, tsc)
    stages['whole'] = round(time.time() - t0, 1)
    ctx.extra['stage_seconds_cumulative'] = stages
    # one representative of every kind of failure first (the replay file shows the first few)
    seen, first, rest = set(), [], []
    for f in ctx.failures:
        (rest if f['key'] in seen else first).append(f)
        seen.add(f['key'])
    ctx.failures[:] = first + rest
    keys = {}
    for f in ctx.failures:
        keys[f['key']] = keys.get(f['key'], 0) + 1
    ctx.extra['failure_keys'] = keys
    if keys:
        log('[c07] failures by kind', keys)
    log('[c07] cumulative stage seconds', stages)


def intensify(ctx):
    """something no longer checks: examine more accepted configurations directly (no model involved)"""
    warnings.simplefilter('ignore')
    from abacusnbody.analysis import tsc
    rec = []
    real = tsc._tsc_parallel
    tsc._tsc_parallel = lambda ppart, starts, dens, box, weights, offset: rec.append(len(starts) - 1)
    pos = np.empty((0, 3), dtype=np.float64)
    w = np.empty(0, dtype=np.float64)
    accepted = {}
    try:
        for n1d in range(2, 100):
            dens = np.zeros((n1d, 1, 1))
            for nthread in (2, 4, 16):
                for npart in [None] + list(range(2, n1d // 2 + 2)):
                    r = real_decision(tsc, rec, dens, pos, w, n1d, nthread, npart)
                    if isinstance(r, int) and r >= 3:
                        accepted.setdefault((n1d, r), {'kind': 'config', 'n1d': n1d, 'nthread': nthread, 'npartition': npart})
    finally:
        tsc._tsc_parallel = real
    for (g, npart), case in sorted(accepted.items()):
        if not oracle_config(ctx, tsc, g, npart, case, offsets=(0.0, 0.5, 1.0)) and len(ctx.failures) > 10:
            break


def replay(ctx, doc):
    warnings.simplefilter('ignore')
    from abacusnbody.analysis import tsc
    c = doc['failure']['case'] if 'failure' in doc else doc
    kind = c.get('kind')
    if kind == 'whole':
        run_whole(ctx, tsc, c, safe_first=True)
    elif kind == 'phases':
        rs = RecArr(c['starts'])
        try:
            pure(tsc._tsc_parallel)(np.zeros((6, 3)), rs, np.zeros((8, 2, 2)), 8.0, None, 0.0)
            print('starts indices read:', rs.log)
        except IndexError as e:
            ctx.fail('_tsc_parallel reads past the end of starts', c, str(e), 'in range', key='tsc:starts-oob')
    elif kind == 'config':
        rec = []
        real = tsc._tsc_parallel
        tsc._tsc_parallel = lambda ppart, starts, dens, box, weights, offset: rec.append(len(starts) - 1)
        try:
            r = real_decision(tsc, rec, np.zeros((c['n1d'], 1, 1)), np.empty((0, 3)), np.empty(0), c['n1d'], c['nthread'], c['npartition'])
        finally:
            tsc._tsc_parallel = real
        print('tsc_parallel runs the kernel with', r, 'stripes; model:', ctx.driver.query(
            ['choose %d %d %s' % (c['n1d'], c['nthread'], 'none' if c['npartition'] is None else c['npartition'])])[0])
        if isinstance(r, int) and r >= 3 and c['nthread'] > 1:
            oracle_config(ctx, tsc, c['n1d'], r, c, offsets=(0.0, 0.5))
    else:
        print(json.dumps(c))
