"""C08 — every Fourier mode is binned exactly once into the right (k, mu) bin (DESIGN.md §7 C08).

Correspondence: the compiled Lean model (`drv_c08`, Model/C08.lean) against the real `bin_kmu`,
`bin_kppi` (compiled, `.py_func` on small meshes, and compiled under NUMBA_BOUNDSCHECK=1 in a
sub-process) and `calc_pk_from_deltak`.  Oracle (independent of the model): brute force over the
full n^3 mesh of `numpy.fft.fftfreq` frequencies with the bin convention
    in range iff e_0 <= q < e_last ; bin = least b with q <= e_{b+1}
(same for mu^2, mu^2 := 0 for the zero mode; for (k_perp, pi): k_perp^2 as above, kz^2 in range iff
kz^2 < pi_last).

This file is also the bounds-check worker:  python c08.py --worker cases.json   (one JSON result line per case)
"""
from vcommon import pure
import os

os.environ.setdefault('NUMBA_NUM_THREADS', '16')   # nthread=16 must be accepted by numba.set_num_threads

import json  # noqa: E402
import subprocess  # noqa: E402
import sys  # noqa: E402
from fractions import Fraction  # noqa: E402

import numpy as np  # noqa: E402

THEOREMS = [
    'AbacusVerif.Binning.lead_is_least',
    'AbacusVerif.Binning.fold_is_fftfreq',
    'AbacusVerif.Binning.hermitian_reindex',
    'AbacusVerif.Binning.kmu_search_inbounds',
    'AbacusVerif.Binning.kppi_search_inbounds',
    'AbacusVerif.Binning.thread_independent',
    'AbacusVerif.Binning.kmu_counts_exact',
    'AbacusVerif.Binning.kppi_counts_exact',
    'AbacusVerif.Binning.kmu_means',
    'AbacusVerif.Binning.kppi_means',
    'AbacusVerif.Binning.monopole_is_mu_average',
    'AbacusVerif.Binning.legendre_table',
    'AbacusVerif.Binning.Pn_zero',
    'AbacusVerif.Binning.Pn_two',
    'AbacusVerif.Binning.Pn_four',
    'AbacusVerif.Binning.kmu_pole_means',
    'AbacusVerif.Binning.Pn_even_orders',
    'AbacusVerif.Binning.PnMu_all_orders',
    'AbacusVerif.Binning.PnMu_even',
    'AbacusVerif.Binning.Pn_rejects_above_ten',
    'AbacusVerif.Binning.kmu_pole_means_supported',
    'AbacusVerif.Binning.shape_irrelevant',
    'AbacusVerif.Binning.kmu_means_config_space',
    'AbacusVerif.Binning.get_k_mu_edges_wellformed',
    'AbacusVerif.Binning.calc_power_binnings_inbounds',
    'AbacusVerif.Binning.sibling_fold_differs_only_odd_middle',
]
DRIVER = 'drv_c08'
RULE = ('every mesh size n in 1..12 (quick) / 1..24 (thorough), odd and even, x dtype float32/float64 x k-edge families '
        '(get_k_mu_edges linear/log; start above 0; end below / at / above Nyquist and above the mesh diagonal; edges exactly '
        'on attained |k|^2 values and strictly between; random) x 1..6 mu bins (linspace, dyadic with exact ties, random) x '
        'pole sets within {0,2,4} x pi binnings (pimax below / at / above the largest kz, Npi 1..5) x nthread in {1,2,3,16}; '
        'meshes whose cells are distinct integers (plus a generic float stream); a quarter of the bin_kmu / bin_kppi cases in '
        'configuration space (fourier=False, dk = L/n, symmetric full (n,n,n) real-space mesh); get_k_mu_edges (linear, log, '
        'mu, array-like) against the exact-rational linspace; P_n for every order 0..11 (odd ones through the mu-parametrised '
        'model); sibling loops (expand_poles_to_3d, get_smoothing, get_delta_mu2) as observations; a case is non-trivial when at least one '
        'mode is binned; distinct = distinct (kind, n, dtype, squared edges, poles, nthread, mesh seed)')
TRUSTED = [
    'float computation of mu^2 = k^2/|k|^2 and of the edge squares is outside the model: the model is given the squared '
    'edges the code computes (numpy expression identical to the source line) and cases in which a mode lies within rounding '
    'of a mu edge (or, for float64, a squared edge within rounding of an integer without being provably exact) are nudged off it',
    'means are compared exactly-up-to-4-ulp when all partial sums are exactly representable (integer meshes), otherwise within '
    'the recursive-summation bound (n_terms+8)*2u*sum|terms|; k averages and multipoles always within that bound',
    'NUMBA_BOUNDSCHECK=1 turns every out-of-range access of the compiled kernels into IndexError',
    'inside bin_kmu the multipoles are modelled for even orders only (an odd order needs sqrt(mu^2) of every mode, not '
    'rational); P_n itself is modelled for every order given a rational mu with mu*mu = x (PnMu, theorem PnMu_all_orders)',
    'get_k_mu_edges: numpy.linspace computes fl(i*fl((b-a)/N)), so the real linear / mu edges are the exact-rational model '
    'edges up to 2 ulp (bit-exact when representable, end points always exact); log edges (geomspace = 10**linspace) are '
    'checked against x_i^N = a^(N-i) b^i within 64 N ulp; the theorems about the binnings are over the exact rationals',
]
ASSUMPTIONS = ['mu edges end at 1 (documented: "mu ranges from 0 to 1"); otherwise the mu search of bin_kmu runs past the '
               'edge array (model: oob; confirmed on the bounds-checked kernel)',
               'numba prange assigns every row to exactly one thread id < nthread (any assignment)']

DT = {'f4': np.float32, 'f8': np.float64}
U = {'f4': 2.0 ** -24, 'f8': 2.0 ** -53}
NTHREADS = (1, 2, 3, 16)
MAXFAIL_PER_KEY = 2


# --------------------------------------------------------------------------- the numbers the code computes

def dk_of(L, n=None, fourier=True):
    """dk = 2.0 * np.pi / L if fourier else L / n1d"""
    return 2.0 * np.pi / L if fourier else L / n


def dkc(c):
    return dk_of(c['L'], c['n'], c.get('fourier', True))


def sq_kedges(c, kedges=None):
    """kedges2 = ((kedges / dk) ** 2).astype(dtype)   (power_spectrum.py, bin_kmu / bin_kppi)"""
    dk = dkc(c)
    kedges = c['kedges'] if kedges is None else kedges
    return ((np.asarray(kedges, dtype=np.float64) / dk) ** 2).astype(DT[c['dtype']])


def sq_mu(muedges, dt):
    """muedges2 = (muedges**2).astype(dtype)"""
    return (np.asarray(muedges, dtype=np.float64) ** 2).astype(DT[dt])


def sq_pi(c):
    """piedges2 = ((np.linspace(0.0, pimax, Npi + 1) / dk) ** 2).astype(dtype)"""
    dk = dkc(c)
    return ((np.linspace(0.0, c['pimax'], c['npi'] + 1) / dk) ** 2).astype(DT[c['dtype']])


def rat(x):
    a, b = float(x).as_integer_ratio()
    return '%d' % a if b == 1 else '%d/%d' % (a, b)


def rats(xs):
    xs = list(xs)
    return ','.join(rat(x) for x in xs) if xs else '-'


def ints(xs):
    xs = list(xs)
    return ','.join(str(int(x)) for x in xs) if xs else '-'


def frac(s):
    return Fraction(s)


# --------------------------------------------------------------------------- meshes

def half_mesh(c):
    """the `weights` array handed to the kernel: a half-complex mesh (n, n, n//2+1), or for fourier=False a full
    real-space mesh (n, n, n) with Xi(-r) = Xi(r) (integer valued: P + P reflected)"""
    n = c['n']
    kz = n // 2 + 1
    N = n * n * kz
    rng = np.random.default_rng(c['mesh_seed'])
    if not c.get('fourier', True):
        P = (rng.permutation(n ** 3) + 1).astype(np.float64).reshape(n, n, n)
        if c.get('mesh_kind') == 'signed':
            P -= n ** 3 // 2
        neg = (-np.arange(n)) % n
        return P + P[neg][:, neg][:, :, neg]
    if c.get('mesh_kind', 'perm') == 'perm':
        m = (rng.permutation(N) + 1).astype(np.float64)
    elif c['mesh_kind'] == 'signed':
        m = (rng.permutation(N) - N // 2).astype(np.float64)
    else:   # generic floats (dyadic with 20 fractional bits so the model's rationals stay small)
        m = np.round(rng.normal(size=N) * 2 ** 20) / 2 ** 20 * 100
    return m.reshape(n, n, kz)


def full_of(c, mesh):
    """the full mesh the kernel's `weights` stands for"""
    return full_from_half(mesh, c['n']) if c.get('fourier', True) else mesh


def full_from_half(h, n):
    """the full mesh a half-complex mesh stands for: cell (i,j,l), l > n//2, is the conjugate of (-i,-j,n-l)"""
    kz = n // 2 + 1
    full = np.empty((n, n, n), dtype=np.float64)
    full[:, :, :kz] = h
    neg = (-np.arange(n)) % n
    for l in range(kz, n):
        full[:, :, l] = h[neg][:, neg][:, :, n - l]
    return full


# --------------------------------------------------------------------------- oracle (independent of the model)

def first_le(x, tail):
    """least index b with x <= tail[b] (len(tail) when none); x integer/float64 array, tail float64 (exact compare)"""
    if len(tail) == 0:
        return np.zeros(x.shape, dtype=np.int64), np.zeros(x.shape, dtype=bool)
    le = x[..., None] <= tail
    return le.argmax(-1), le.any(-1)


def mu_first_le(C2, q, tail):
    """least m with C2/q <= tail[m], decided exactly (integer cross-multiplication where float64 is not conclusive)"""
    qq = np.where(q > 0, q, 1)
    r = np.where(q > 0, C2 / qq, 0.0)
    le = r[..., None] <= tail
    unsure = np.abs(r[..., None] - tail) <= 1e-13 * np.maximum(np.abs(tail), 1e-300)
    for ix in np.argwhere(unsure):
        pos, m = tuple(ix[:-1]), ix[-1]
        num, den = float(tail[m]).as_integer_ratio()
        c2, qv = int(C2[pos]), int(q[pos])
        exact = Fraction(c2, qv) if qv > 0 else Fraction(0)
        le[pos + (m,)] = exact <= Fraction(num, den)
    return le.argmax(-1), le.any(-1), r


def oracle_kmu(n, ek2, em2, poles, full):
    """brute force over the full n^3 mesh.  ek2/em2 float64 arrays holding exactly the dtype values."""
    f = np.rint(np.fft.fftfreq(n) * n).astype(np.int64)
    A, B, C = np.meshgrid(f, f, f, indexing='ij')
    q = A * A + B * B + C * C
    C2 = C * C
    nk, nm = len(ek2) - 1, len(em2) - 1
    qf = q.astype(np.float64)
    inr = (qf >= ek2[0]) & (qf < ek2[-1])
    bk, okk = first_le(qf, ek2[1:])
    bm, okm, r = mu_first_le(C2, q, em2[1:])
    sel = inr
    assert bool(np.all(okk[sel])), 'oracle: in-range mode without a k bin'
    out = {'mu_unbinned': int(np.sum(sel & ~okm))}
    sel = sel & okm
    b, m = bk[sel], bm[sel]
    flat = b * nm + m
    size = nk * nm
    out['counts'] = np.bincount(flat, minlength=size).reshape(nk, nm) if size else np.zeros((nk, nm), np.int64)
    F = full[sel]
    out['S'] = np.bincount(flat, weights=F, minlength=size).reshape(nk, nm) if size else np.zeros((nk, nm))
    out['Sabs'] = np.bincount(flat, weights=np.abs(F), minlength=size).reshape(nk, nm) if size else np.zeros((nk, nm))
    out['K'] = np.bincount(flat, weights=np.sqrt(qf[sel]), minlength=size).reshape(nk, nm) if size else np.zeros((nk, nm))
    qs = [[[] for _ in range(nm)] for _ in range(nk)]
    for bb, mm, qq in zip(b.tolist(), m.tolist(), q[sel].tolist()):
        qs[bb][mm].append(qq)
    out['qs'] = [[sorted(x) for x in row] for row in qs]
    out['cpoles'] = out['counts'].sum(axis=1)
    mu = np.sqrt(r[sel])
    P, Pabs = [], []
    for ell in poles:
        coef = [0.0] * ell + [1.0]
        t = (2 * ell + 1) * np.polynomial.legendre.legval(mu, coef) * F
        P.append(np.bincount(b, weights=t, minlength=nk) if nk else np.zeros(0))
        # scale of the rounding errors: |P_l| <= 1, so sum (2l+1)|F| bounds the sum of |terms|
        Pabs.append(np.bincount(b, weights=(2 * ell + 1) * np.abs(F), minlength=nk) if nk else np.zeros(0))
    out['P'] = np.array(P).reshape(len(poles), nk)
    out['Pabs'] = np.array(Pabs).reshape(len(poles), nk)
    return out


def oracle_kppi(n, ek2, ep2, full):
    f = np.rint(np.fft.fftfreq(n) * n).astype(np.int64)
    A, B, C = np.meshgrid(f, f, f, indexing='ij')
    p = (A * A + B * B).astype(np.float64)
    c2 = (C * C).astype(np.float64)
    nk, npi = len(ek2) - 1, len(ep2) - 1
    inr = (p >= ek2[0]) & (p < ek2[-1]) & (c2 < ep2[-1])
    bk, okk = first_le(p, ek2[1:])
    bp, okp = first_le(c2, ep2[1:])
    assert bool(np.all(okk[inr])) and bool(np.all(okp[inr]))
    flat = bk[inr] * npi + bp[inr]
    size = nk * npi
    F = full[inr]
    out = {}
    out['counts'] = np.bincount(flat, minlength=size).reshape(nk, npi) if size else np.zeros((nk, npi), np.int64)
    out['S'] = np.bincount(flat, weights=F, minlength=size).reshape(nk, npi) if size else np.zeros((nk, npi))
    out['Sabs'] = np.bincount(flat, weights=np.abs(F), minlength=size).reshape(nk, npi) if size else np.zeros((nk, npi))
    return out


# --------------------------------------------------------------------------- float-fragile inputs

def evidently_exact_square(x):
    """x*x is exact in float64 however it is computed (x has at most 24 significant bits below 2^12)"""
    y = x * 4096.0
    return abs(x) < 4096.0 and y == np.floor(y)


def near_integer_fragile(vals64, roots, dk):
    """float64 squared edges that are within rounding of an integer without being provably exact"""
    bad = []
    for i, (v, x) in enumerate(zip(vals64, roots)):
        if v <= 0.25:
            continue
        rv = np.rint(v)
        if abs(v - rv) <= 64 * np.spacing(max(v, 1.0)):
            if not (dk == 1.0 and evidently_exact_square(float(x))):
                bad.append(i)
    return bad


def mu_fragile(n, ek2, em2, dt):
    """half-mesh modes (inside the k range) whose float mu^2, as the kernel may compute it, classifies differently
    from the exact rational mu^2 at some mu edge"""
    T = DT[dt]
    kz = n // 2 + 1
    f = np.rint(np.fft.fftfreq(n) * n).astype(np.int64)
    A, B, K = np.meshgrid(f, f, np.arange(kz), indexing='ij')
    q = A * A + B * B + K * K
    K2 = K * K
    qf = q.astype(np.float64)
    inr = (qf >= float(ek2[0])) & (qf < float(ek2[-1])) & (q > 0)
    q, K2 = q[inr], K2[inr]
    if q.size == 0:
        return 0
    r = K2 / q
    fa = (K2.astype(T) * (T(1.0) / q.astype(T))).astype(np.float64)
    fb = (K2.astype(T) / q.astype(T)).astype(np.float64)
    nbad = 0
    for e in np.asarray(em2, dtype=np.float64)[1:]:
        near = np.abs(r - e) <= 64 * U[dt] * max(e, 1e-30)
        if not near.any():
            continue
        num, den = float(e).as_integer_ratio()
        for c2, qq, a, b in zip(K2[near].tolist(), q[near].tolist(), fa[near].tolist(), fb[near].tolist()):
            ex = Fraction(c2, qq) > Fraction(num, den)
            if not ((a > e) == ex and (b > e) == ex):
                nbad += 1
    return nbad


# --------------------------------------------------------------------------- case construction

def assignment(rng, n, T, how):
    if how == 'zero':
        return [0] * n
    if how == 'rr':
        return [i % T for i in range(n)]
    if how == 'block':
        return [min(T - 1, i * T // max(n, 1)) for i in range(n)]
    if how == 'last':
        return [T - 1] * n
    return [int(x) for x in rng.integers(0, T, n)]


def attained_q(n):
    f = np.rint(np.fft.fftfreq(n) * n).astype(np.int64)
    A, B, C = np.meshgrid(f, f, f, indexing='ij')
    return np.unique(A * A + B * B + C * C)


def kedge_families(ctx, rng, n, dt, ps, fourier=True):
    """[(family, L, kedges)]; fourier=False: the same families in units of dk = L / n"""
    out = []
    h = max(n // 2, 1)
    L = float(rng.choice([1000.0, 2 * np.pi, 7.5, 250.0]))
    if not fourier:
        L = float(n * (2.0 * np.pi / L))
    dk = dk_of(L, n, fourier)
    kny = (n / 2.0) * dk if n > 1 else dk
    nb = int(rng.integers(1, 7))
    # get_k_mu_edges, linear / log, ending below, at, above Nyquist, above the mesh diagonal
    for fam, kmax in (('lin-below', 0.61 * kny), ('lin-at', kny), ('lin-above', 1.37 * kny), ('lin-diag', 2.1 * kny)):
        ke, _ = ps.get_k_mu_edges(L, kmax, nb, 1, False)
        out.append((fam, L, ke))
    kmx = float(rng.choice([0.8, 1.0, 1.5, 2.0])) * kny
    if fourier:
        ke, _ = ps.get_k_mu_edges(L, kmx, nb, 1, True)
    else:
        ke = np.geomspace((1.0 - 1.0e-4) * dk, max(kmx, 1.5 * dk), nb + 1)
    out.append(('log', L, ke))
    # starting above 0
    lo = float(rng.uniform(0.3, 1.2)) * dk
    out.append(('start-above-0', L, np.linspace(lo, lo + float(rng.uniform(0.5, 2.5)) * h * dk, nb + 1)))
    # dk = 1: edges exactly on attained |k|^2 values, strictly between, exactly at Nyquist
    Lu = 2 * np.pi if fourier else float(n)
    aq = attained_q(n)
    if dt == 'f4':
        cand = aq
    else:
        cand = np.array([v for v in aq if int(round(np.sqrt(v))) ** 2 == v])
    if len(cand) >= 2:
        k = int(rng.integers(2, min(len(cand), 7) + 1))
        pick = np.sort(rng.choice(cand, size=k, replace=False))
        out.append(('ties', Lu, np.sqrt(pick.astype(np.float64))))
    else:
        out.append(('ties', Lu, np.array([0.0, 1.0])))
    if dt == 'f4':
        k = int(rng.integers(1, min(len(aq), 6) + 1))
        pick = np.sort(rng.choice(aq, size=k, replace=False)).astype(np.float64)
        out.append(('between', Lu, np.sqrt(np.concatenate([[max(pick[0] - 0.5, 0.0)], pick + 0.5]))))
    else:
        m = int(rng.integers(1, 2 * h + 3))
        out.append(('between', Lu, np.arange(0, m + 1, dtype=np.float64) / 2.0 + 0.25))
    out.append(('at-nyquist-exact', Lu, np.linspace(0.0, float(h), int(rng.integers(1, 5)) + 1) if dt == 'f4'
                else np.array([0.0, h / 2.0, float(h)])))
    # random increasing, possibly one bin, possibly empty range
    k = int(rng.integers(1, 6))
    out.append(('random', L, np.sort(rng.uniform(0.0, 2.2 * h, k + 1)) * dk))
    return out


def mu_families(rng, nm_hint=None):
    nm = int(rng.integers(1, 7)) if nm_hint is None else nm_hint
    kind = rng.choice(['lin', 'lin', 'dyadic', 'random'])
    if kind == 'lin':
        return 'mu-lin', np.linspace(0.0, 1.0, nm + 1)
    if kind == 'dyadic':
        inner = np.sort(rng.choice(np.arange(1, 8), size=min(nm - 1, 7), replace=False)) / 8.0 if nm > 1 else []
        return 'mu-dyadic', np.concatenate([[0.0], inner, [1.0]])
    inner = np.sort(rng.uniform(0.05, 0.95, nm - 1))
    return 'mu-random', np.concatenate([[0.0], inner, [1.0]])


def settle_kmu(c):
    """nudge float-fragile edges (see TRUSTED); returns False when the case could not be made robust"""
    dk = dkc(c)
    for _ in range(6):
        ke = np.array(c['kedges'], dtype=np.float64)
        ek2 = sq_kedges(c, ke)
        if c['dtype'] == 'f8':
            bad = near_integer_fragile(ek2.astype(np.float64), ke / dk, dk)
            if bad:
                for i in bad:
                    ke[i] *= (1.0 + 2.0 ** -17)
                c['kedges'] = [float(x) for x in ke]
                c['nudged'] = c.get('nudged', 0) + 1
                continue
        if 'muedges' in c:
            em2 = sq_mu(c['muedges'], c['dtype'])
            if len(em2) >= 2 and float(em2[-1]) >= 1.0 and mu_fragile(c['n'], ek2, em2, c['dtype']):
                mu = np.array(c['muedges'], dtype=np.float64)
                mu[1:-1] *= (1.0 + (1 + c.get('nudged', 0)) * 2.0 ** -11)
                c['muedges'] = [float(x) for x in mu]
                c['nudged'] = c.get('nudged', 0) + 1
                if len(mu) <= 2:
                    return False
                continue
        if 'pimax' in c and c['dtype'] == 'f8':
            lin = np.linspace(0.0, c['pimax'], c['npi'] + 1)
            ep2 = sq_pi(c)
            if near_integer_fragile(ep2, lin / dk, dk):
                c['pimax'] = float(c['pimax'] * (1.0 + 2.0 ** -17))
                c['nudged'] = c.get('nudged', 0) + 1
                continue
        return True
    return False


def gen_cases(ctx, ps, nmax=None, reps=1):
    rng = ctx.rng
    nmax = nmax or ctx.pick(12, 24)
    cases = []
    seed0 = int(rng.integers(0, 2 ** 31))
    for rep in range(reps):
        for n in range(1, nmax + 1):
            h = max(n // 2, 1)
            for dt in ('f4', 'f8'):
                fams = kedge_families(ctx, rng, n, dt, ps)
                fams_c = kedge_families(ctx, rng, n, dt, ps, fourier=False)
                for fi in range(len(fams)):
                    # a quarter of the bin_kmu / bin_kppi cases are configuration space (fourier=False, full mesh)
                    fourier = (fi + n) % 4 != (0 if dt == 'f4' else 2)
                    fam, L, ke = fams[fi] if fourier else fams_c[fi]
                    T = int(rng.choice(NTHREADS))
                    base = dict(n=n, L=float(L), fourier=fourier, kedges=[float(x) for x in ke], dtype=dt, nthread=T,
                                assign=assignment(rng, n, T, str(rng.choice(['zero', 'rr', 'block', 'last', 'random', 'random']))),
                                mesh_seed=seed0 + len(cases), kfam=fam)
                    # ---- bin_kmu
                    mfam, mu = mu_families(rng)
                    poles = [[], [0], [2], [0, 2], [0, 2, 4], [4, 0], [2, 4]][int(rng.integers(0, 7))]
                    c = dict(base, kind='kmu', muedges=[float(x) for x in mu], mufam=mfam, poles=poles)
                    if n <= 8 and fi % 5 == 4 and fourier:
                        c['mesh_kind'] = 'generic'
                    elif fi % 5 == 2:
                        c['mesh_kind'] = 'signed'
                    cases.append(c)
                    # ---- bin_kppi on the same k edges
                    dk = dk_of(L, n, fourier)
                    pfam, pimax = [('pi-below', float(rng.uniform(0.3, 0.9)) * h * dk), ('pi-at', h * dk),
                                   ('pi-above', float(rng.uniform(1.1, 2.0)) * h * dk),
                                   ('pi-at-exact', float(h) * dk)][fi % 4]
                    npi = int(rng.integers(1, 6))      # Npi >= 1 (a pi binning has at least one bin)
                    Lp = L
                    if pfam == 'pi-at-exact' and dk != 1.0:
                        pfam = 'pi-at'
                    cases.append(dict(base, kind='kppi', pimax=float(pimax), npi=npi, pifam=pfam, L=float(Lp)))
                # ---- calc_pk_from_deltak (float32 accumulators, complex128 field)
                for _ in range(3 if dt == 'f4' else 0):
                    fam, L, ke = fams[int(rng.integers(0, len(fams)))]
                    T = int(rng.choice(NTHREADS))
                    mfam, mu = mu_families(rng, nm_hint=int(rng.choice([1, 1, 2, 4])))
                    cases.append(dict(kind='calc', n=n, L=float(L), kedges=[float(x) for x in ke], dtype='f4', nthread=T,
                                      assign=assignment(rng, n, T, 'random'), mesh_seed=seed0 + len(cases), kfam=fam,
                                      muedges=[float(x) for x in mu], mufam=mfam,
                                      poles=[[], [0, 2, 4], [0], [2, 0]][int(rng.integers(0, 4))],
                                      cross=bool(rng.integers(0, 2)), squeeze=bool(rng.integers(0, 2))))
    return cases


def fault_cases(ctx):
    """mu edges that stop short of 1 (precondition violated): model and bounds-checked kernel must both fault"""
    out = []
    for n, mu in ((3, [0.0, 0.5]), (4, [0.0, 0.3, 0.6]), (6, [0.0, 0.9])):
        out.append(dict(kind='kmu', n=n, L=2 * np.pi, kedges=[0.0, 1.0, 4.0], dtype='f8', nthread=2,
                        assign=[i % 2 for i in range(n)], mesh_seed=5, kfam='fault-mu-short', muedges=mu, mufam='short',
                        poles=[], expect_fault='oob'))
    # no k edges at all: Nk = -1, np.zeros raises ValueError (model: rejected)
    out.append(dict(kind='kmu', n=2, L=2 * np.pi, kedges=[], dtype='f8', nthread=1, assign=[0, 0], mesh_seed=5,
                    kfam='fault-no-edges', muedges=[0.0, 1.0], mufam='lin', poles=[], expect_fault='rejected'))
    return out


# --------------------------------------------------------------------------- model side

def model_line(c):
    n = c['n']
    kz = n // 2 + 1
    half = half_mesh(c)
    ek2 = sq_kedges(c)
    if c['kind'] == 'calc':
        half = raw_of(c, half)
    if float(half.max(initial=0)) == int(half.max(initial=0)) and np.all(half == np.rint(half)):
        mesh = ints(half.ravel())
    else:
        mesh = rats(half.ravel())
    head = '%d %d %d %d %d %s %s' % (n, n, n, kz if c.get('fourier', True) else n, c['nthread'], ints(c['assign']),
                                     rats(ek2))
    if c['kind'] in ('kmu', 'calc'):
        em2 = sq_mu(c['muedges'], c['dtype'])
        return 'kmu %s %s %s %s' % (head, rats(em2), ints(c['poles']), mesh)
    ep2 = sq_pi(c)
    return 'kppi %s %s %s' % (head, rats(ep2), mesh)


def parse_model(s, c):
    if s.startswith('err '):
        return {'err': s[4:]}
    if not s.startswith('ok '):
        return {'err': 'driver:' + s}
    parts = dict(p.split('=', 1) for p in s.split(' ')[1:])
    nk = len(c['kedges']) - 1
    out = {}
    if c['kind'] in ('kmu', 'calc'):
        nm = len(c['muedges']) - 1
    else:
        nm = c['npi']

    def il(x):
        return [] if x == '-' else [int(v) for v in x.split(',')]

    def fl(x):
        return [] if x == '-' else [Fraction(v) for v in x.split(',')]
    out['counts'] = np.array(il(parts['counts']), dtype=np.int64).reshape(nk, nm)
    out['mean'] = np.array(fl(parts['power']), dtype=object).reshape(nk, nm)
    if 'kq' in parts:
        bins = parts['kq'].split('|') if nk * nm else []
        qs = []
        for b in bins:
            l = []
            if b != '-':
                for e in b.split(';'):
                    qv, w = e.split(':')
                    l.extend([int(qv)] * int(w))
            qs.append(sorted(l))
        out['qs'] = [qs[i * nm:(i + 1) * nm] for i in range(nk)]
        out['poles'] = np.array(fl(parts['poles']), dtype=object).reshape(len(c['poles']), nk)
        out['cpoles'] = np.array(il(parts['cpoles']), dtype=np.int64)
    return out


# --------------------------------------------------------------------------- implementation side

def raw_of(c, half):
    """what get_raw_power returns for the fields the calc case builds (integer-valued, exact)"""
    if c.get('cross'):
        return half.copy()            # conj(1+0j) * (a+0j)
    return half * half                # |a+0j|^2


def run_kernel(ps, c, how):
    """how: 'jit' | 'py'.  Returns dict of numpy arrays or {'err': ...}"""
    n, L = c['n'], c['L']
    half = half_mesh(c)
    if c.get('raw_mesh'):
        half = raw_of(c, half)
    ke = np.array(c['kedges'], dtype=np.float64)
    dt = DT[c['dtype']]
    nth = 1 if how == 'py' else c['nthread']
    try:
        if c['kind'] == 'kmu':
            fn = pure(ps.bin_kmu) if how == 'py' else ps.bin_kmu
            pol = np.array(c['poles'], dtype=np.int64) if c['poles'] else np.empty(0, 'i8')
            r = fn(n, L, ke, np.array(c['muedges'], dtype=np.float64), half, pol, dtype=dt, fourier=c.get('fourier', True), nthread=nth)
            return dict(mean=r[0], counts=r[1], poles=r[2], cpoles=r[3], kavg=r[4])
        if c['kind'] == 'kppi':
            fn = pure(ps.bin_kppi) if how == 'py' else ps.bin_kppi
            r = fn(n, L, ke, c['pimax'], c['npi'], half, dtype=dt, fourier=c.get('fourier', True), nthread=nth)
            return dict(mean=r[0], counts=r[1])
        # calc_pk_from_deltak
        f2 = None
        if c.get('cross'):
            f1 = np.ones(half.shape, dtype=np.complex128)
            f2 = half.astype(np.complex128)
        else:
            f1 = half.astype(np.complex128)
        pol = np.array(c['poles'], dtype=np.int64) if c['poles'] else np.empty(0, 'i8')
        mu = np.array(c['muedges'], dtype=np.float64)
        r = ps.calc_pk_from_deltak(f1, L, ke, mu, field2_fft=f2, poles=pol, squeeze_mu_axis=c['squeeze'], nthread=nth)
        nk, nm = len(ke) - 1, len(mu) - 1
        shp = (nk,) if (c['squeeze'] and nm == 1) else (nk, nm)
        for k in ('power', 'N_mode', 'k_avg'):
            if r[k].shape != shp:
                return {'err': 'shape %s of %s, expected %s' % (r[k].shape, k, shp)}
        return dict(mean=np.asarray(r['power']).reshape(nk, nm), counts=np.asarray(r['N_mode']).reshape(nk, nm),
                    poles=np.asarray(r['binned_poles']), cpoles=np.asarray(r['N_mode_poles']),
                    kavg=np.asarray(r['k_avg']).reshape(nk, nm))
    except ValueError as e:
        return {'err': 'rejected', 'msg': str(e)[:200]}
    except (IndexError, SystemError) as e:
        cause = e if isinstance(e, IndexError) else e.__cause__
        if isinstance(cause, IndexError) or 'out of bounds' in repr(e) or 'exception set' in repr(e):
            return {'err': 'oob'}
        raise


def jsonable_result(r):
    return {k: (v.tolist() if isinstance(v, np.ndarray) else v) for k, v in r.items()}


def worker(inp):
    """bounds-checked run of the compiled kernels (NUMBA_BOUNDSCHECK=1 set by the parent): one JSON line per case"""
    from abacusnbody.analysis import power_spectrum as ps
    cases = json.loads(open(inp).read())
    for c in cases:
        if c['kind'] == 'calc':
            # the bin_kmu call calc_pk_from_deltak makes (float32 accumulators) on the raw power mesh
            c = dict(c, kind='kmu', dtype='f4', raw_mesh=True)
        r = run_kernel(ps, c, 'jit')
        r = {k: (np.asarray(v, dtype=np.float64) if isinstance(v, np.ndarray) and v.dtype.kind == 'f' else v)
             for k, v in r.items()}
        sys.stdout.write(json.dumps(jsonable_result(r)) + '\n')
        sys.stdout.flush()


# --------------------------------------------------------------------------- comparison

def classify_case(c, ek2):
    n = c['n']
    if n % 2 == 1:
        return 'odd-mesh'
    if float(ek2[-1]) > (n // 2) ** 2:
        return 'even-mesh-range-above-nyquist'
    return 'even-mesh'


class Checker:
    def __init__(self, ctx):
        self.ctx = ctx
        self.per_key = {}

    def fail(self, what, c, observed, expected, key):
        k = self.per_key.get(key, 0)
        self.per_key[key] = k + 1
        self.ctx.count('oracle-fail:' + key)
        if k < MAXFAIL_PER_KEY:
            self.ctx.fail(what, c, observed, expected, key=key)

    def tol(self, c, nterms, scale, exact_ok):
        """absolute tolerance on a mean whose |terms| sum to `scale*count` (scale = sum|terms|/count)"""
        u = U[c['dtype']]
        if exact_ok:
            return 4 * u * scale
        return (nterms + 8) * 2 * u * scale

    def cmp_means(self, c, label, impl, S, Sabs, counts, who, key, mul=1.0, exact=True, extra_u=0.0):
        """impl[b,m] should be S/counts (times mul) ; S exact in float64 for integer meshes"""
        bad = []
        dtlim = 2.0 ** 21 if c['dtype'] == 'f4' else 2.0 ** 50
        integer_mesh = c.get('mesh_kind', 'perm') != 'generic'
        for ix in np.ndindex(counts.shape):
            cn = int(counts[ix])
            exp = (S[ix] / cn if cn else S[ix]) * mul
            scale = (Sabs[ix] / cn if cn else Sabs[ix]) * abs(mul)
            exact_ok = exact and integer_mesh and Sabs[ix] < dtlim
            t = self.tol(c, cn, scale, exact_ok) + ((4 if mul != 1.0 else 0) + extra_u) * U[c['dtype']] * scale
            got = float(impl[ix])
            if not abs(got - exp) <= t:
                bad.append((ix, got, float(exp), t))
        if bad:
            obs = {'bin': list(bad[0][0]), 'value': bad[0][1], 'n_bad_bins': len(bad)}
            expd = {'value': bad[0][2], 'tolerance': bad[0][3]}
            if who == 'oracle':
                self.fail('%s differs from the mean over the full-mesh modes of the bin' % label, c, obs, expd, key)
            else:
                self.ctx.disagree(label, c, expd, obs)
        return not bad

    def check(self, c, m, runs, ps_label='jit'):
        """c: case, m: parsed model result, runs: {label: impl result}"""
        ctx = self.ctx
        kind = c['kind']
        ek2 = sq_kedges(c).astype(np.float64)
        cls = classify_case(c, ek2) if len(ek2) else 'no-edges'
        half = half_mesh(c)
        if kind == 'calc':
            half = raw_of(c, half)
        n = c['n']
        dk = dkc(c)
        mul = c['L'] ** 3 if kind == 'calc' else 1.0
        if kind in ('kmu', 'calc'):
            em2 = sq_mu(c['muedges'], c['dtype']).astype(np.float64)
            orc = oracle_kmu(n, ek2, em2, c['poles'], full_of(c, half))
            if orc['mu_unbinned']:
                ctx.count('skipped:mu-edges-short')
                return
        else:
            ep2 = sq_pi(c).astype(np.float64)
            orc = oracle_kppi(n, ek2, ep2, full_of(c, half))
        nbinned = int(orc['counts'].sum())
        ctx.case(dict(kind=kind, n=n, dtype=c['dtype'], kfam=c.get('kfam'), mufam=c.get('mufam'), pifam=c.get('pifam'),
                      kedges=c['kedges'], muedges=c.get('muedges'), pimax=c.get('pimax'), npi=c.get('npi'),
                      poles=c.get('poles'), nthread=c['nthread'], L=c['L'], mesh_seed=c['mesh_seed'],
                      fourier=c.get('fourier', True)),
                 nontrivial=nbinned > 0)
        ctx.count('kind:' + kind)
        ctx.count('n=%d' % n)
        ctx.count('dtype:' + c['dtype'])
        ctx.count('kfam:' + str(c.get('kfam')))
        ctx.count('space:' + ('fourier' if c.get('fourier', True) else 'configuration(fourier=False, full mesh)'))
        ctx.count('mesh:' + cls)
        if kind != 'kppi':
            ctx.count('mufam:%s' % c.get('mufam'))
            ctx.count('nmu=%d' % (len(c['muedges']) - 1))
            ctx.count('poles:' + ints(c['poles']))
        else:
            ctx.count('pifam:' + c['pifam'])
        ctx.count('nthread=%d' % c['nthread'])
        ctx.count('binned-modes:' + ('0' if nbinned == 0 else 'all' if nbinned == n ** 3 else 'some'))
        if c.get('nudged'):
            ctx.count('nudged-off-float-tie')
        # ---------------- model vs oracle vocabulary (consistency of the two statements of the convention)
        model_ok = 'err' not in m
        for label, r in runs.items():
            tag = '%s[%s]' % ({'kmu': 'bin_kmu', 'kppi': 'bin_kppi', 'calc': 'calc_pk_from_deltak'}[kind], label)
            ctx.count('run:' + label)
            if 'err' in r:
                if r['err'] == 'oob':
                    self.fail('%s indexes outside an array' % tag, c, r, 'no fault', 'oob:%s' % kind)
                else:
                    self.fail('%s raised: %s' % (tag, r), c, r, 'a result', 'raise:%s' % kind)
                if model_ok or m['err'] != r['err']:
                    ctx.disagree(tag + ' fault', c, m.get('err', 'ok'), r['err'])
                continue
            # ---- oracle: the real code against the full-mesh brute force
            ic = np.asarray(r['counts']).astype(np.int64)
            if ic.shape != orc['counts'].shape or not np.array_equal(ic, orc['counts']):
                self.fail('%s mode counts differ from the full-mesh count' % tag, c,
                          {'counts': ic.tolist()}, {'counts': orc['counts'].tolist()}, '%s-counts:%s' % (kind, cls))
                counts_ok = False
            else:
                counts_ok = True
            if counts_ok:
                self.cmp_means(c, tag + ' mean', np.asarray(r['mean'], dtype=np.float64), orc['S'], orc['Sabs'],
                               orc['counts'], 'oracle', '%s-mean:%s' % (kind, cls), mul)
            if kind != 'kppi':
                if not np.array_equal(np.asarray(r['cpoles']).astype(np.int64), orc['cpoles']):
                    self.fail('%s N_mode_poles differ from the full-mesh count' % tag, c,
                              {'cpoles': np.asarray(r['cpoles']).tolist()}, {'cpoles': orc['cpoles'].tolist()},
                              '%s-cpoles:%s' % (kind, cls))
                elif counts_ok:
                    self.cmp_means(c, tag + ' k_avg', np.asarray(r['kavg'], dtype=np.float64), orc['K'] * dk, orc['K'] * dk,
                                   orc['counts'], 'oracle', '%s-kavg:%s' % (kind, cls), exact=False, extra_u=8)
                    if len(c['poles']):
                        cp = np.broadcast_to(orc['cpoles'], orc['P'].shape)
                        # pole 0 is exact like the means; the others carry P_l(mu) rounding
                        for ip, ell in enumerate(c['poles']):
                            self.cmp_means(c, tag + ' pole %d' % ell, np.asarray(r['poles'], dtype=np.float64)[ip:ip + 1],
                                           orc['P'][ip:ip + 1], orc['Pabs'][ip:ip + 1], cp[ip:ip + 1], 'oracle',
                                           '%s-poles:%s' % (kind, cls), mul, exact=(ell == 0), extra_u=0 if ell == 0 else 64)
            # ---- correspondence: the real code against the model
            if not model_ok:
                ctx.disagree(tag + ' fault', c, m['err'], 'ok')
                continue
            if not np.array_equal(ic, m['counts']):
                ctx.disagree(tag + ' counts', c, m['counts'].tolist(), ic.tolist())
                continue
            ctx.traces_validated += 1
            cnts = m['counts']
            Sm = np.array([[float(m['mean'][ix] * int(cnts[ix])) if cnts[ix] else float(m['mean'][ix])] for ix in np.ndindex(cnts.shape)]
                          ).reshape(cnts.shape) if cnts.size else np.zeros(cnts.shape)
            self.cmp_means(c, tag + ' mean', np.asarray(r['mean'], dtype=np.float64), Sm, orc['Sabs'], cnts, 'model', None, mul)
            if kind != 'kppi':
                if not np.array_equal(np.asarray(r['cpoles']).astype(np.int64), m['cpoles']):
                    ctx.disagree(tag + ' N_mode_poles', c, m['cpoles'].tolist(), np.asarray(r['cpoles']).tolist())
                Km = np.array([[sum(np.sqrt(float(qv)) for qv in m['qs'][b][mm]) for mm in range(cnts.shape[1])]
                               for b in range(cnts.shape[0])]).reshape(cnts.shape) * dk
                self.cmp_means(c, tag + ' k_avg', np.asarray(r['kavg'], dtype=np.float64), Km, Km, cnts, 'model', None, exact=False, extra_u=8)
                for ip, ell in enumerate(c['poles']):
                    cp = m['cpoles']
                    Pm = np.array([float(m['poles'][ip][b] * int(cp[b])) if cp[b] else float(m['poles'][ip][b])
                                   for b in range(len(cp))]).reshape(1, -1)
                    self.cmp_means(c, tag + ' pole %d' % ell, np.asarray(r['poles'], dtype=np.float64)[ip:ip + 1], Pm,
                                   orc['Pabs'][ip:ip + 1], cp.reshape(1, -1), 'model', None, mul, exact=(ell == 0),
                                   extra_u=0 if ell == 0 else 64)
        # ---- model against the oracle's multiset of |k|^2 per bin (what the k average is a mean of)
        if model_ok and kind != 'kppi' and np.array_equal(m['counts'], orc['counts']):
            if m['qs'] != orc['qs']:
                ctx.disagree('model |k|^2 multiset per bin vs full-mesh enumeration', c, 'model', 'oracle')

    def thread_check(self, c, runs_by_T):
        """counts must not depend on the thread count"""
        ref_T, ref = next(iter(runs_by_T.items()))
        for T, r in runs_by_T.items():
            if 'err' in r or 'err' in ref:
                if ('err' in r) != ('err' in ref):
                    self.fail('fault depends on nthread', c, {str(T): r.get('err')}, {str(ref_T): ref.get('err')}, 'thread-dependence')
                continue
            if not np.array_equal(np.asarray(r['counts']), np.asarray(ref['counts'])):
                self.fail('mode counts depend on nthread', c, {'nthread': T, 'counts': np.asarray(r['counts']).tolist()},
                          {'nthread': ref_T, 'counts': np.asarray(ref['counts']).tolist()}, 'thread-dependence')


# --------------------------------------------------------------------------- run

def needs_boundscheck(c):
    """ranges that end below the largest mode (the searches are tempted past the last edge), and the fault cases"""
    if c.get('expect_fault'):
        return True
    n = c['n']
    h = n // 2
    ek2 = sq_kedges(c)
    if len(ek2) == 0:
        return False
    if c['kind'] == 'kppi':
        ep2 = sq_pi(c)
        return float(ep2[-1]) <= h * h or float(ek2[-1]) <= 2 * h * h
    return float(ek2[-1]) <= 3 * h * h


class Worker:
    """the bounds-checked kernels in a sub-process; results are read back one case at a time, in order"""

    def __init__(self, ctx, cases):
        import vcommon
        d = ctx.tmpdir()
        inp = os.path.join(d, 'bc_cases_%d.json' % len(os.listdir(d)))
        with open(inp, 'w') as f:
            json.dump(cases, f)
        self.errf = open(inp + '.stderr', 'w+')
        env = vcommon.impl_env({'NUMBA_BOUNDSCHECK': '1', 'NUMBA_NUM_THREADS': '16'})
        self.p = subprocess.Popen([vcommon.PY, '-B', os.path.abspath(__file__), '--worker', inp], env=env,
                                  stdout=subprocess.PIPE, stderr=self.errf, text=True)

    def next(self):
        import vcommon
        line = self.p.stdout.readline()
        if not line:
            self.p.wait()
            self.errf.seek(0)
            raise vcommon.Infra('bounds-check worker ended early rc=%s:\n%s' % (self.p.returncode, self.errf.read()[-2000:]))
        r = json.loads(line)
        return {k: (np.array(v) if isinstance(v, list) else v) for k, v in r.items()}

    def close(self):
        try:
            self.p.stdout.close()
            self.p.wait(timeout=60)
        except Exception:
            self.p.kill()
        self.errf.close()


def load_corpus():
    from vcommon import CORPUS
    out = []
    d = CORPUS / 'C08'
    if d.is_dir():
        for p in sorted(d.glob('*.json')):
            out.append(json.loads(p.read_text()))
    return out


def process(ctx, ps, cases):
    chk = Checker(ctx)
    kept = []
    for c in cases:
        if c.get('expect_fault') or settle_kmu(c):
            kept.append(c)
        else:
            ctx.count('skipped:float-fragile')
    cases = kept
    if not cases:
        return
    # every case goes through the bounds-checked kernel first; the unchecked kernel (as users run it) is only run
    # in this process on inputs on which the checked one stayed inside its arrays
    w = Worker(ctx, cases)
    try:
        mres = ctx.driver.query([model_line(c) for c in cases])
        models = [parse_model(s, c) for s, c in zip(mres, cases)]
        # (the two processes are not run side by side: two 16-thread numba pools on the same cores crawl)
        bres = [w.next() for _ in cases]
        for c, m, r in zip(cases, models, bres):
            ctx.count('boundscheck-runs')
            if needs_boundscheck(c):
                ctx.count('range-ends-below-largest-mode')
            if c.get('expect_fault'):
                ctx.case(dict(kind=c['kind'], n=c['n'], muedges=c['muedges'], kedges=c['kedges'], fault=c['expect_fault']), nontrivial=True)
                if r.get('err') != c['expect_fault'] or m.get('err') != c['expect_fault']:
                    ctx.disagree('precondition violated (mu edges short of 1: search runs past the mu edges; no k edges: '
                                 'ValueError): model and bounds-checked kernel must fault alike', c,
                                 m.get('err', 'ok'), r.get('err', 'ok'))
                continue
            run_one(ctx, ps, chk, c, m, r)
    finally:
        w.close()


def run_one(ctx, ps, chk, c, m, bres):
    """bres: result of the bounds-checked kernel"""
    runs = {}
    if 'err' in bres:
        # the compiled kernel is known to leave its arrays (or raise) on this input: do not run it unchecked here
        chk.check(c, m, {'boundscheck': bres})
        return
    if c['kind'] != 'calc':
        runs['boundscheck'] = bres
    byT = {}
    # every case at its own thread count; every fifth (thorough: third) case additionally at all four
    for T in (NTHREADS if c['mesh_seed'] % ctx.pick(5, 3) == 0 else (c['nthread'],)):
        cc = dict(c, nthread=T)
        byT[T] = run_kernel(ps, cc, 'jit')
        ctx.count('thread-sweeps' if T != c['nthread'] else 'own-thread-count')
    runs['jit'] = byT[c['nthread']]
    if c['n'] <= 6 and c['kind'] != 'calc':
        runs['py_func'] = run_kernel(ps, c, 'py')
    chk.check(c, m, runs)
    chk.thread_check(c, byT)


def run(ctx):
    from abacusnbody.analysis import power_spectrum as ps
    corpus = load_corpus()
    ctx.count('corpus', len(corpus))
    cases = corpus + fault_cases(ctx) + gen_cases(ctx, ps)
    process(ctx, ps, cases)
    pn_check(ctx, ps)
    pn_odd_check(ctx, ps)
    small_protocol_checks(ctx)
    edges_check(ctx, ps)
    sibling_observations(ctx, ps)
    ctx.extra['scope'] = 'all n in 1..%d x float32/float64 x 10 k-edge families x bin_kmu/bin_kppi/calc_pk_from_deltak' % ctx.pick(12, 24)


def pn_check(ctx, ps):
    """P_n as coded vs the model (exact) vs numpy's Legendre evaluation, even orders; orders > 10 raise ValueError"""
    xs = [0.0, 1.0, 0.25, 0.5, 0.75, 0.0625, 0.9375] + [float(np.round(v * 1024) / 1024) for v in ctx.rng.uniform(0, 1, 12)]
    lines, meta = [], []
    for n in (0, 2, 4, 6, 8, 10, 12):
        for x in xs:
            lines.append('pn %d %s' % (n, rat(x)))
            meta.append((n, x))
    res = ctx.driver.query(lines)
    for (n, x), s in zip(meta, res):
        ctx.count('pn-evals')
        try:
            v = float(ps.P_n(np.float64(x), n, np.float64))
            got = 'ok'
        except ValueError:
            got = 'rejected'
        if s.startswith('err '):
            if s[4:] != got:
                ctx.disagree('P_n fault', {'n': n, 'x': x}, s, got)
            continue
        mv = float(Fraction(s[3:]))
        if got != 'ok' or abs(v - mv) > 1e-9 * max(1.0, abs(mv)):
            ctx.disagree('P_n value', {'n': n, 'x': x}, mv, v if got == 'ok' else got)
        ref = float(np.polynomial.legendre.legval(np.sqrt(x), [0.0] * n + [1.0]))
        if got == 'ok' and abs(v - ref) > 1e-7:
            ctx.fail('P_n(mu^2, n) is not the Legendre polynomial P_n(mu)', {'n': n, 'x': x}, v, ref, key='P_n')


def pn_odd_check(ctx, ps):
    """P_n(mu^2, n) for every order 0..11 against the model's mu-parametrised form (x ** (0.5 (n - 2k)) = mu ** (n - 2k)
    for the non-negative root mu) and numpy's Legendre evaluation; mu dyadic so that mu^2 is exact"""
    mus = [0.0, 1.0, 0.5, 0.25, 0.75, 0.125, 0.875] + [float(np.round(v * 256) / 256) for v in ctx.rng.uniform(0, 1, 8)]
    lines, meta = [], []
    for n in range(0, 12):
        for mu in mus:
            lines.append('pnmu %d %s' % (n, rat(mu)))
            meta.append((n, mu))
    res = ctx.driver.query(lines)
    for (n, mu), s in zip(meta, res):
        ctx.count('pn-mu-evals(all orders)')
        try:
            v = float(ps.P_n(np.float64(mu * mu), n, np.float64))
            got = 'ok'
        except ValueError:
            got = 'rejected'
        if s.startswith('err '):
            if s[4:] != got:
                ctx.disagree('P_n fault (mu form)', {'n': n, 'mu': mu}, s, got)
            continue
        mv = float(Fraction(s[3:]))
        if got != 'ok' or abs(v - mv) > 1e-9 * max(1.0, abs(mv)):
            ctx.disagree('P_n value (mu form)', {'n': n, 'mu': mu}, mv, v if got == 'ok' else got)
        ref = float(np.polynomial.legendre.legval(mu, [0.0] * n + [1.0]))
        if got == 'ok' and abs(v - ref) > 1e-7:
            ctx.fail('P_n(mu^2, n) is not the Legendre polynomial P_n(mu)', {'n': n, 'mu': mu}, v, ref, key='P_n')


def ulp_dist(x, exact):
    """|x - exact| in units of the spacing of float64 at x (exact: Fraction)"""
    if Fraction(x) == exact:
        return 0.0
    sp = float(np.spacing(abs(x))) if x != 0 else 5e-324
    return float(abs(Fraction(x) - exact) / Fraction(sp))


def edges_check(ctx, ps):
    """get_k_mu_edges against the model's exact-rational linspace (linear k edges, mu edges) and, for logk, against
    the defining relation of a geometric sequence; plus the preconditions the theorems need"""
    rng = ctx.rng
    cfgs = []
    for kb in (1, 2, 3, 4, 5, 7, 8, 16, 25):
        for mb in (1, 2, 3, 4, 6):
            L = float(rng.choice([1000.0, 2 * np.pi, 7.5, 250.0, 512.0]))
            kmax = float(rng.choice([1.0, 0.5, 3.0, float(rng.uniform(0.05, 4.0)), np.pi * 16 / L]))
            cfgs.append((L, kmax, kb, mb))
    lines = []
    for (L, kmax, kb, mb) in cfgs:
        lines.append('linspace 0 %s %d' % (rat(kmax), kb + 1))
        lines.append('linspace 0 1 %d' % (mb + 1))
    res = ctx.driver.query(lines)
    worst = {'linear-k': 0.0, 'mu': 0.0, 'log-k(relative, in units of N*2^-52)': 0.0}
    nexact = 0
    for idx, (L, kmax, kb, mb) in enumerate(cfgs):
        case = {'L': L, 'kmax': kmax, 'kbins': kb, 'mubins': mb}
        ke, mu = ps.get_k_mu_edges(L, kmax, kb, mb, False)
        mk = [Fraction(v) for v in res[2 * idx].split(',')]
        mm = [Fraction(v) for v in res[2 * idx + 1].split(',')]
        ctx.count('get_k_mu_edges-configs')
        for name, real, model in (('linear-k', ke, mk), ('mu', mu, mm)):
            if len(real) != len(model):
                ctx.disagree('get_k_mu_edges %s length' % name, case, len(model), len(real))
                continue
            d = max(ulp_dist(float(x), q) for x, q in zip(real, model))
            worst[name] = max(worst[name], d)
            nexact += int(d == 0.0)
            # endpoints exact; interior: numpy computes fl(i * fl((b - a) / N)), two roundings, so within 2 ulp of the
            # exact rational (bit-exact whenever step and products are representable)
            if float(real[0]) != float(model[0]) or float(real[-1]) != float(model[-1]) or d > 2.0:
                ctx.disagree('get_k_mu_edges %s edges differ from linspace by more than 2 ulp' % name, case,
                             [str(q) for q in model], [float(x) for x in real])
            # the property's preconditions (what kmu_search_inbounds / get_k_mu_edges_wellformed state)
            r = np.asarray(real, dtype=np.float64)
            if not (np.all(np.diff(r) > 0) and r[0] == 0.0 and (name != 'mu' or r[-1] == 1.0)):
                ctx.fail('get_k_mu_edges %s edges are not strictly increasing from 0%s' % (name, ' to 1' if name == 'mu' else ''),
                         case, [float(x) for x in real], 'strictly increasing', key='edges')
        # log k edges: geomspace(k_min, k_max, kbins + 1) with k_min = (1 - 1e-4) 2 pi / L
        if kmax > 2 * np.pi / L:
            kl, _ = ps.get_k_mu_edges(L, kmax, kb, mb, True)
            kmin = (1.0 - 1.0e-4) * 2.0 * np.pi / L
            a, b = Fraction(kmin), Fraction(kmax)
            ok = len(kl) == kb + 1 and float(kl[0]) == kmin and float(kl[-1]) == kmax and bool(np.all(np.diff(kl) > 0))
            for i, x in enumerate(kl):
                # x^N = a^(N-i) b^i  up to N roundings
                rel = abs(Fraction(float(x)) ** kb / (a ** (kb - i) * b ** i) - 1)
                worst['log-k(relative, in units of N*2^-52)'] = max(worst['log-k(relative, in units of N*2^-52)'],
                                                                    float(rel) / (kb * 2.0 ** -52))
                if rel > 64 * kb * 2.0 ** -52:      # 10 ** linspace(log10 a, log10 b): the power amplifies the exponent's rounding
                    ok = False
            if not ok:
                ctx.fail('get_k_mu_edges log k edges are not the geometric sequence from k_min to k_max', case,
                         [float(x) for x in kl], 'geometric sequence within 64 ulp, strictly increasing, exact end points', key='edges')
        # array-like binnings are returned unchanged
        arr_k, arr_mu = np.array([0.1, 0.2, 0.7]), np.array([0.0, 0.3, 1.0])
        rk, rm = ps.get_k_mu_edges(L, kmax, arr_k, arr_mu, bool(idx % 2))
        if rk is not arr_k or rm is not arr_mu:
            ctx.disagree('get_k_mu_edges array-like binnings returned unchanged', case, 'same objects', 'different')
    ctx.extra['get_k_mu_edges'] = {'configs': len(cfgs), 'edge_lists_bit_exact': nexact,
                                   'worst_ulp_distance_to_exact_rational': worst}


def sibling_observations(ctx, ps):
    """OBSERVATIONS (never a failure): expand_poles_to_3d, get_smoothing, get_delta_mu2 fold with `i < n1d // 2`.
    Each is run (py_func: the same source) and compared with a reference built on the model's `foldOld` (as coded)
    and with one built on the fftfreq convention (`fold`); what differs for odd n is recorded in the evidence."""
    nmax = ctx.pick(7, 10)
    ns = list(range(1, nmax + 1))
    lines = []
    for n in ns:
        for i in range(n):
            lines.append('foldold %d %d' % (n, i))
            lines.append('fold %d %d' % (n, i))
    res = [int(v) for v in ctx.driver.query(lines)]
    obs = {}
    pos = 0
    L, R = 10.0, 1.3
    dk = 2.0 * np.pi / L
    rng = np.random.default_rng(int(ctx.rng.integers(0, 2 ** 31)))
    for n in ns:
        fo = np.array(res[pos:pos + 2 * n:2]); ff = np.array(res[pos + 1:pos + 2 * n:2]); pos += 2 * n
        if [int(v) for v in np.rint(np.fft.fftfreq(n) * n)] != ff.tolist():
            ctx.disagree('model fold vs numpy.fft.fftfreq', {'n': n}, ff.tolist(), 'fftfreq')
        kz = n // 2 + 1
        K = np.arange(kz)

        def grids(f):
            q = (f[:, None, None] ** 2 + f[None, :, None] ** 2 + K[None, None, :] ** 2).astype(np.float64)
            mu2 = np.where(q > 0, (K[None, None, :] ** 2) / np.where(q > 0, q, 1.0), 0.0)
            return q, mu2
        delta = (rng.normal(size=(n, n, kz)) + 1j * rng.normal(size=(n, n, kz))).astype(np.complex128)
        k_ell = np.linspace(0.0, 2.5 * n * dk / 2, 12)
        poles = np.array([0, 2, 4])
        P_ell = rng.normal(size=(3, 12)) + 3.0

        def refs(f):
            q, mu2 = grids(f)
            kk = np.sqrt(q) * dk
            ex = np.zeros_like(q)
            for ip, ell in enumerate(poles):
                t = np.interp(kk, k_ell, P_ell[ip])
                if ell != 0:
                    t = t * np.polynomial.legendre.legval(np.sqrt(mu2), [0.0] * int(ell) + [1.0])
                ex += t
            return {'get_smoothing': np.exp(-q * dk ** 2 * R ** 2 / 2.0), 'get_delta_mu2': delta * mu2,
                    'expand_poles_to_3d': ex}
        real = {'get_smoothing': pure(ps.get_smoothing)(n, L, R, dtype=np.float64),
                'get_delta_mu2': pure(ps.get_delta_mu2)(delta, n, np.complex128, np.float64),
                'expand_poles_to_3d': pure(ps.expand_poles_to_3d)(k_ell, P_ell, n, L, poles, dtype=np.float64)}
        rc, rf = refs(fo), refs(ff)
        for name in real:
            as_coded = bool(np.allclose(real[name], rc[name], rtol=2e-5, atol=1e-7))
            as_fft = bool(np.allclose(real[name], rf[name], rtol=2e-5, atol=1e-7))
            diff = ~np.isclose(real[name], rf[name], rtol=2e-5, atol=1e-7)
            ctx.count('observation:%s:%s' % (name, 'as-coded-fold' if as_coded else 'fftfreq-fold' if as_fft else 'neither'))
            ent = obs.setdefault(name, {'matches_fold_as_coded(i < n//2)': [], 'matches_fftfreq_convention': [],
                                        'cells_differing_from_fftfreq_convention': {}, 'unexplained': []})
            if as_coded:
                ent['matches_fold_as_coded(i < n//2)'].append(n)
            if as_fft:
                ent['matches_fftfreq_convention'].append(n)
            if not as_coded and not as_fft:
                ent['unexplained'].append(n)
            if diff.any():
                rows = sorted(set(int(v) for v in np.argwhere(diff)[:, 0]) | set(int(v) for v in np.argwhere(diff)[:, 1]))
                den = np.maximum(np.abs(rf[name]), 1e-300)
                ent['cells_differing_from_fftfreq_convention'][str(n)] = {
                    'n_cells': int(diff.sum()), 'of': int(diff.size), 'row_or_column_indices': rows,
                    'max_relative_difference': float(np.max(np.abs(real[name] - rf[name])[diff] / den[diff]))}
    ctx.extra['sibling_fold_observations'] = {
        'note': 'not part of C08 and never a failure: these loops fold with `i < n1d // 2`; by theorem '
                'sibling_fold_differs_only_odd_middle this differs from fftfreq only on the middle index (n-1)/2 of an odd '
                'mesh, which is sent to -(n+1)/2',
        'meshes': ns, 'functions': obs}


def small_protocol_checks(ctx):
    """fold / fftfreq of the model against numpy.fft.fftfreq"""
    nmax = ctx.pick(40, 200)
    res = ctx.driver.query(['fftfreq %d' % n for n in range(1, nmax + 1)])
    for n, s in zip(range(1, nmax + 1), res):
        ref = [int(v) for v in np.rint(np.fft.fftfreq(n) * n)]
        if [int(v) for v in s.split(',')] != ref:
            ctx.disagree('fftfreq', {'n': n}, s, ref)
        ctx.count('fftfreq-sizes')


def intensify(ctx):
    from abacusnbody.analysis import power_spectrum as ps
    cases = gen_cases(ctx, ps, nmax=ctx.pick(10, 16), reps=3)
    process(ctx, ps, cases)


def replay(ctx, doc):
    from abacusnbody.analysis import power_spectrum as ps
    c = doc['failure']['case'] if 'failure' in doc else doc
    print('model:', ctx.driver.query([model_line(c)])[0][:2000])
    process(ctx, ps, [c])


if __name__ == '__main__':
    if len(sys.argv) == 3 and sys.argv[1] == '--worker':
        worker(sys.argv[2])
    else:
        print(__doc__)
