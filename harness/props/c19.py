"""C19 — cumsum writes exactly the selected partial sums for every length (DESIGN.md §7 C19)."""
from vcommon import pure
import os

os.environ['NUMBA_BOUNDSCHECK'] = '1'   # must precede the first numba import in this process

import numpy as np  # noqa: E402

THEOREMS = [
    'AbacusVerif.Cumsum.cumsum_bad_length',
    'AbacusVerif.Cumsum.selected_eq',
    'AbacusVerif.Cumsum.cumsum_spec',
    'AbacusVerif.Cumsum.cumsum_output',
    'AbacusVerif.Cumsum.cumsum_matches_numpy',
    'AbacusVerif.Cumsum.cumsum_inbounds',
    'AbacusVerif.Cumsum.psum_append',
    'AbacusVerif.Cumsum.cumsum_chain',      # A then B through the RETURNED total = partial sums of A ++ B (the reader's A -> B chaining)
    # the output used as an OFFSET TABLE by the callers (Props/C19Offsets.lean)
    'AbacusVerif.Cumsum.selected_step',     # cell k+1 = cell k + arr[k], cell 0 = offset (no law of +)
    'AbacusVerif.Cumsum.psum_mono',         # natural counts: the table is non-decreasing
    'AbacusVerif.Cumsum.slice_within',      # every row's slice lies in [offset, total)
    'AbacusVerif.Cumsum.slices_disjoint',   # earlier row's slice ends before a later row's slice starts
    'AbacusVerif.Cumsum.offsets_spec',      # initial=True, final=False, |out| = N
    'AbacusVerif.Cumsum.offsets_spec_full', # initial=final=True, |out| = N+1: the package's own call pattern
]
LEAN_MODULES = ['AbacusVerif.Props.C19', 'AbacusVerif.Props.C19Chain', 'AbacusVerif.Props.C19Offsets']
DRIVER = 'drv_c19'
RULE = ('exhaustive small scope: every input length N in 0..Nmax x initial/final x output length in '
        'expected-1..expected+1 x offsets x dtype pairings (int64->int64, uint32->uint64 with wrap-around, '
        'float64 dyadic, Python list->int64), each run on the bounds-checked compiled kernel and as py_func '
        'on index-recording arrays; a case is non-trivial when N >= 1 or an output is written; '
        'distinct = distinct (dtype pairing, flags, outLen, offset, values)')
TRUSTED = ['float64 sums compared exactly only on dyadic inputs (multiples of 1/8)',
           'NUMBA_BOUNDSCHECK=1 turns every out-of-range access of the compiled kernel into IndexError']
ASSUMPTIONS = ['numba negative-index wrap-around and bounds checking behave as in Model/Common.lean pyIndex']

SENT = -777


class Rec:
    """index-recording view of a numpy array for py_func runs"""

    def __init__(self, arr, name, logl):
        self.a = arr
        self.name = name
        self.log = logl
        self.dtype = arr.dtype

    def __len__(self):
        return len(self.a)

    def _norm(self, i):
        i = int(i)
        n = len(self.a)
        if i < 0:
            i += n
        if not (0 <= i < n):
            self.log.append(('oob', self.name, int(i)))
            raise IndexError('recorded oob %s[%d]' % (self.name, i))
        return i

    def __getitem__(self, i):
        k = self._norm(i)
        self.log.append(('r', self.name, k))
        return self.a[k]

    def __setitem__(self, i, v):
        k = self._norm(i)
        self.log.append(('w', self.name, k))
        self.a[k] = v


def gen_cases(ctx):
    nmax = ctx.pick(8, 16)
    rng = ctx.rng
    cases = []
    for kind in ('i64', 'u32u64', 'f64', 'list'):
        for N in range(0, nmax + 1):
            for ini in (0, 1):
                for fin in (0, 1):
                    exp = N - 1 + ini + fin
                    for outLen in (exp - 1, exp, exp + 1):
                        if outLen < 0:
                            continue
                        if kind == 'i64' or kind == 'list':
                            offs = [0, 5, -3]
                            vals = [int(v) for v in rng.integers(-9, 10, N)]
                        elif kind == 'u32u64':
                            offs = [0, 5, 2 ** 63, 2 ** 64 - 3]
                            vals = [int(v) for v in rng.choice([0, 1, 7, 2 ** 31, 2 ** 32 - 1], N)]
                        else:
                            offs = [0, 5]
                            vals = [int(v) for v in rng.integers(-64, 65, N)]   # eighths
                        for off in offs:
                            if outLen != exp and off != offs[0]:
                                continue
                            cases.append(dict(kind=kind, N=N, ini=ini, fin=fin, outLen=outLen, off=off, vals=vals))
    return cases


def model_line(c):
    mode = 'u64' if c['kind'] == 'u32u64' else 'int'
    off = c['off'] * 8 if c['kind'] == 'f64' else c['off']
    arr = ','.join(str(v) for v in c['vals']) if c['vals'] else '-'
    return 'cumsum %s %d %d %d %d %s' % (mode, c['ini'], c['fin'], c['outLen'], off, arr)


def parse_model(s):
    if s.startswith('err '):
        return {'err': s[4:]}
    parts = dict(p.split('=', 1) for p in s.split(' ')[1:])
    ws = [] if parts['writes'] == '-' else [tuple(int(x) for x in w.split(':')) for w in parts['writes'].split(',')]
    tr = [] if parts['trace'] == '-' else parts['trace'].split(',')
    return {'total': int(parts['total']), 'writes': ws, 'trace': tr}


def make_arrays(c):
    kind = c['kind']
    if kind == 'i64':
        arr = np.array(c['vals'], dtype=np.int64)
        out = np.full(c['outLen'], SENT, dtype=np.int64)
        off = c['off']
    elif kind == 'list':
        arr = list(c['vals'])
        out = np.full(c['outLen'], SENT, dtype=np.int64)
        off = c['off']
    elif kind == 'u32u64':
        arr = np.array(c['vals'], dtype=np.uint32)
        out = np.full(c['outLen'], 2 ** 64 - 777, dtype=np.uint64)
        off = np.uint64(c['off'])
    else:
        arr = np.array(c['vals'], dtype=np.float64) / 8
        out = np.full(c['outLen'], SENT, dtype=np.float64)
        off = float(c['off'])
    return arr, out, off


def canon_value(c, v):
    if c['kind'] == 'f64':
        w = float(v) * 8
        assert w == int(w)
        return int(w)
    return int(v)


def run_impl(c, fn, record):
    """returns dict(total=, out=[...]) or dict(err=...) ; with record also trace"""
    arr, out, off = make_arrays(c)
    logl = []
    try:
        with np.errstate(over='ignore'):
            if record:
                arr_r = Rec(np.array(arr, dtype=np.int64) if isinstance(arr, list) else arr, 'arr', logl)
                out_r = Rec(out, 'out', logl)
                total = fn(arr_r, out_r, initial=bool(c['ini']), final=bool(c['fin']), offset=off)
            else:
                if isinstance(arr, list) and len(arr) == 0:
                    # numba cannot type an empty reflected list; menv.py never passes one
                    return {'skip': 'empty-list'}
                total = fn(arr, out, initial=bool(c['ini']), final=bool(c['fin']), offset=off)
    except ValueError:
        res = {'err': 'bad-length'}
    except IndexError:
        res = {'err': 'oob'}
    else:
        res = {'total': canon_value(c, total)}
    res['out'] = [canon_value(c, v) for v in out]
    if record:
        res['trace'] = [('r%d' % k if (t, n) == ('r', 'arr') else 'w%d' % k if (t, n) == ('w', 'out') else '%s:%s:%d' % (t, n, k))
                        for (t, n, k) in logl]
    return res


def spec(c):
    """the property, restated directly (numpy.cumsum as the oracle): expected outcome on the real code"""
    N, ini, fin = c['N'], c['ini'], c['fin']
    exp = N - 1 + ini + fin
    sent = canon_value(c, SENT) if c['kind'] != 'u32u64' else 2 ** 64 - 777
    if c['outLen'] != exp:
        return {'err': 'bad-length', 'out': [sent] * c['outLen']}
    mod = 2 ** 64 if c['kind'] == 'u32u64' else None
    off = c['off'] * 8 if c['kind'] == 'f64' else c['off']
    sums = [off]
    for v in c['vals']:
        s = sums[-1] + v
        sums.append(s % mod if mod else s)
    # cross-check the running sums with numpy.cumsum on exact Python ints
    if N:
        npc = np.cumsum(np.array(c['vals'], dtype=object))
        assert all(((off + int(x)) % mod if mod else off + int(x)) == s for x, s in zip(npc, sums[1:]))
    sel = sums[(0 if ini else 1):(len(sums) if fin else len(sums) - 1)]
    return {'total': sums[-1], 'out': sel}


def check_case(ctx, c, mres, fn_compiled, fn_py):
    m = parse_model(mres)
    sp = spec(c)
    nontrivial = c['N'] >= 1 or (c['outLen'] > 0 and c['outLen'] == c['N'] - 1 + c['ini'] + c['fin'])
    ctx.case(c, nontrivial=nontrivial)
    ctx.count('kind:' + c['kind'])
    ctx.count('N=%d' % c['N'] if c['N'] < 3 else 'N>=3')
    ctx.count('len:' + ('ok' if 'err' not in sp else 'wrong'))
    for label, fn, record in (('compiled', fn_compiled, False), ('py_func', fn_py, True)):
        r = run_impl(c, fn, record)
        if 'skip' in r:
            ctx.count('skipped:' + r['skip'])
            continue
        # ---- oracle: implementation vs the property itself
        obs = {k: r.get(k) for k in ('err', 'total', 'out') if k in r}
        expd = dict(sp)
        if obs != expd:
            kind = 'empty-input' if c['N'] == 0 else 'general'
            ctx.fail('cumsum[%s] %s differs from the selected partial sums' % (label, kind), c, obs, expd,
                     key='cumsum:%s' % kind)
        # ---- correspondence: implementation vs model
        if 'err' in m:
            mobs = {'err': m['err']}
        else:
            mout = [None] * c['outLen']
            for k, v in m['writes']:
                mout[k] = v
            sent = sp['out'][0] if ('err' in sp and sp['out']) else None
            mobs = {'total': m['total'], 'out': mout}
        iobs = {'err': r['err']} if 'err' in r else {'total': r['total'], 'out': r['out']}
        if 'err' not in m and 'err' not in r and None in mobs['out']:
            # cells the model leaves unwritten keep the sentinel on the implementation side
            sentinel = (2 ** 64 - 777) if c['kind'] == 'u32u64' else canon_value(c, SENT)
            mobs['out'] = [sentinel if v is None else v for v in mobs['out']]
        if mobs != iobs:
            ctx.disagree('cumsum[%s] result' % label, c, mobs, iobs)
        if record and 'err' not in m and 'err' not in r:
            ctx.traces_validated += 1
            if m['trace'] != r['trace']:
                ctx.disagree('cumsum[py_func] access trace', c, m['trace'], r['trace'])


def run(ctx):
    from abacusnbody.util import cumsum
    cases = []
    corpus = ctx_corpus()
    cases.extend(corpus)
    cases.extend(gen_cases(ctx))
    ctx.count('corpus', len(corpus))
    outs = ctx.driver.query([model_line(c) for c in cases])
    for c, mres in zip(cases, outs):
        check_case(ctx, c, mres, cumsum, pure(cumsum))
    check_chain(ctx, cumsum)
    check_offsets(ctx, cumsum)
    ctx.exhaustive = True
    ctx.extra['scope'] = 'N in 0..%d, all flag pairs, outLen in expected-1..expected+1' % ctx.pick(8, 16)


def check_chain(ctx, cumsum):
    """the real routine, chained through its RETURN value as the catalogue reader does (A, then B from A's total):
    every stored element and the final total must be the partial sums of the concatenated array (cumsum_chain)"""
    import itertools
    import numpy as np
    rng = np.random.default_rng([ctx.seed, 19])
    for NA, NB in itertools.product(range(0, ctx.pick(4, 7)), repeat=2):
        for iA, fA, iB, fB in itertools.product((0, 1), repeat=4):
            # typed offsets too: the accumulator must have the OUTPUT dtype whatever the type of `offset` is (a uint64
            # offset with int64 data would otherwise be accumulated in float64 and lose integers above 2^53)
            for dt, off in ((np.uint32, 0), (np.uint32, 2 ** 32 - 2), (np.int64, -3), (np.int64, np.uint64(2 ** 53)),
                            (np.int64, np.uint64(2 ** 62 + 1)), (np.uint32, np.uint64(2 ** 53 + 1))):
                a = rng.integers(0, 6, NA).astype(dt) | dt(1)      # odd values: every partial sum above 2^53 needs its last bit
                b = rng.integers(0, 6, NB).astype(dt) | dt(1)
                nA, nB = NA - 1 + iA + fA, NB - 1 + iB + fB
                if nA < 0 or nB < 0:
                    continue
                odt = np.uint64 if dt is np.uint32 else np.int64
                oA, oB = np.full(nA, 77, dtype=odt), np.full(nB, 77, dtype=odt)
                case = dict(kind='chain', a=[int(v) for v in a], b=[int(v) for v in b], iA=iA, fA=fA, iB=iB, fB=fB, off=int(off), dt=np.dtype(dt).name)
                ctx.case(case, nontrivial=NA + NB > 0)
                ctx.count('chain')
                try:
                    tA = cumsum(a, oA, initial=bool(iA), final=bool(fA), offset=off)
                    tB = cumsum(b, oB, initial=bool(iB), final=bool(fB), offset=tA)
                except Exception as e:   # noqa: BLE001
                    ctx.fail('chained cumsum raised', case, '%s: %s' % (type(e).__name__, str(e)[:200]), 'partial sums of a ++ b', key='cumsum:chain')
                    continue
                ps = [int(off)]
                for v in list(a) + list(b):
                    ps.append(ps[-1] + int(v))
                selA = ps[:NA + 1][(0 if iA else 1):(NA + 1 if fA else NA)]
                selB = ps[NA:][(0 if iB else 1):(NB + 1 if fB else NB)]
                got = ([int(v) for v in oA], [int(v) for v in oB], int(tA), int(tB))
                exp = (selA, selB, ps[NA], ps[-1])
                if got != exp:
                    ctx.fail('chained cumsum (B started from the total A returned) is not the cumulative sum of a ++ b', case,
                             dict(outA=got[0], outB=got[1], totalA=got[2], totalB=got[3]), dict(outA=exp[0], outB=exp[1], totalA=exp[2], totalB=exp[3]),
                             key='cumsum:chain')


def check_offsets(ctx, cumsum):
    """the real routine used as the callers use it — counts in, OFFSET TABLE out (offsets_spec / offsets_spec_full):
    cell 0 is the offset, cell k+1 - cell k is counts[k] (rows contiguous), the table is non-decreasing, and the
    last row's slice ends at the returned total.  Call patterns of compaso_halo_catalog (uint32/int counts -> uint64
    table, initial=final=True, N+1 cells), menv.py (a Python list of lengths -> int64 table) and the N-cell variant."""
    import itertools
    import numpy as np
    rng = np.random.default_rng([ctx.seed, 1919])
    Nmax = ctx.pick(7, 13)
    for N, final, (kind, off) in itertools.product(range(0, Nmax), (0, 1),
                                                     (('u32u64', 0), ('u32u64', 2 ** 40 + 5), ('list', 0), ('i64', 3), ('u64u64', np.uint64(2 ** 62 + 1)))):
        for rep in range(ctx.pick(2, 4)):
            counts = rng.integers(0, 5, N) * rng.integers(0, 2, N)        # about half the rows are empty
            if kind == 'u32u64':
                arr, odt = counts.astype(np.uint32), np.uint64
            elif kind == 'u64u64':
                arr, odt = counts.astype(np.uint64), np.uint64
            elif kind == 'i64':
                arr, odt = counts.astype(np.int64), np.int64
            else:
                arr, odt = [int(v) for v in counts], np.int64
                if N == 0:
                    continue        # numba cannot type an empty reflected list (same exclusion as in run_impl)
            n_out = N + final
            out = np.full(n_out, 77, dtype=odt)
            case = dict(kind='offsets', dt=kind, counts=[int(v) for v in counts], final=final, off=int(off))
            ctx.case(case, nontrivial=N > 0)
            ctx.count('offsets')
            try:
                total = cumsum(arr, out, initial=True, final=bool(final), offset=off)
            except Exception as e:   # noqa: BLE001
                ctx.fail('cumsum used as an offset table raised', case, '%s: %s' % (type(e).__name__, str(e)[:200]), 'offset table', key='cumsum:offsets')
                continue
            tab = [int(v) for v in out]
            bad = None
            if n_out and tab[0] != int(off):
                bad = 'cell 0 is not the offset'
            for k in range(N):
                nxt = tab[k + 1] if k + 1 < n_out else int(total)
                if k < n_out and tab[k] + int(counts[k]) != nxt:
                    bad = bad or 'row %d: start + count != next start (or the returned total for the last row)' % k
            if any(tab[k] > tab[k + 1] for k in range(n_out - 1)):
                bad = bad or 'table decreases'
            if int(total) != int(off) + int(counts.sum()):
                bad = bad or 'returned total is not offset + sum(counts)'
            if bad:
                ctx.fail('cumsum output is not an offset table: ' + bad, case, dict(table=tab, total=int(total)),
                         'starts[0]=off, starts[k]+counts[k]=starts[k+1], last slice ends at the total', key='cumsum:offsets')


def ctx_corpus():
    import json
    from vcommon import CORPUS
    out = []
    d = CORPUS / 'C19'
    if d.is_dir():
        for p in sorted(d.glob('*.json')):
            out.append(json.loads(p.read_text()))
    return out


def intensify(ctx):
    """a proof or the correspondence broke: look harder for an input on which the real code is wrong"""
    from abacusnbody.util import cumsum
    rng = ctx.rng
    cases = []
    for _ in range(3000):
        kind = ['i64', 'u32u64', 'f64', 'list'][int(rng.integers(0, 4))]
        N = int(rng.integers(0, 40))
        ini, fin = int(rng.integers(0, 2)), int(rng.integers(0, 2))
        exp = N - 1 + ini + fin
        outLen = max(0, exp + int(rng.choice([0, 0, 0, -1, 1])))
        vals = [int(v) for v in (rng.integers(-9, 10, N) if kind != 'u32u64' else rng.choice([0, 1, 2 ** 32 - 1], N))]
        off = [0, 5][int(rng.integers(0, 2))] if kind != 'u32u64' else [0, 2 ** 63, 2 ** 64 - 3][int(rng.integers(0, 3))]
        cases.append(dict(kind=kind, N=N, ini=ini, fin=fin, outLen=outLen, off=off, vals=vals))
    outs = ctx.driver.query([model_line(c) for c in cases]) if not ctx.driver.error else ['err oob'] * len(cases)
    for c, mres in zip(cases, outs):
        check_case(ctx, c, mres, cumsum, pure(cumsum))


def replay(ctx, doc):
    from abacusnbody.util import cumsum
    c = doc['failure']['case'] if 'failure' in doc else doc
    if c.get('kind') == 'chain':
        check_chain(ctx, cumsum)
        return
    if c.get('kind') == 'offsets':
        check_offsets(ctx, cumsum)
        return
    mres = ctx.driver.query([model_line(c)])[0]
    print('model:', mres)
    check_case(ctx, c, mres, cumsum, pure(cumsum))
