"""C10 — the galaxy catalogue is identical for every thread count (DESIGN.md §7 C10).

Real entry points driven: GRAND_HOD.gen_gal_cat (-> gen_gals -> gen_cent / gen_sats / fast_concatenate),
GRAND_HOD.fast_concatenate directly, abacus_hod._searchsorted_parallel, and the expression
np.rint(np.linspace(0, H, T + 1)).astype(np.int64) under numpy and under numba with the kernels' flags.
"""
import json
import os

# scheduling knobs only (must precede the first numba import): allow 16 threads on smaller machines and let
# idle OpenMP workers sleep instead of spinning (the sandbox is shared; spinning makes a call with >= 10
# threads take ~1 s instead of ~20 ms).  Neither changes the code under test.
os.environ.setdefault('NUMBA_NUM_THREADS', str(max(16, os.cpu_count() or 1)))
os.environ.setdefault('OMP_WAIT_POLICY', 'passive')

import numpy as np  # noqa: E402

import hodgen10 as hg  # noqa: E402

THEOREMS = [
    'AbacusVerif.TwoPass.twoPass_run',
    'AbacusVerif.TwoPass.fill_is_filter',
    'AbacusVerif.TwoPass.thread_count_independent',
    'AbacusVerif.TwoPass.count_fill_agree',
    'AbacusVerif.TwoPass.blocks_partition',
    'AbacusVerif.TwoPass.applyWrites_perm',
    'AbacusVerif.TwoPass.schedule_independent',
    'AbacusVerif.TwoPass.fastConcat_spec',
    'AbacusVerif.TwoPass.fastConcat_branches',
    'AbacusVerif.TwoPass.fastConcat_schedule_independent',
    'AbacusVerif.TwoPass.schedule_independent_all',
    'AbacusVerif.TwoPass.fastConcat_threads',
    'AbacusVerif.TwoPass.searchsorted_pointwise',
    'AbacusVerif.TwoPass.searchsorted_spec',
    'AbacusVerif.TwoPass.store_interleave',
    'AbacusVerif.TwoPass.fill_interleave',
    'AbacusVerif.TwoPass.count_interleave',
    'AbacusVerif.TwoPass.fastConcat_interleave',
    'AbacusVerif.HodLink.records_rowsOf',
    'AbacusVerif.HodLink.fastConcat_any',
    'AbacusVerif.HodLink.catalogue_is_c09_filter',
    'AbacusVerif.HodLink.catalogue_real_is_c09',
    'AbacusVerif.HodLink.catalogue_thread_independent_c09',
    'AbacusVerif.TwoPass.rint_linspace_blocks',
    'AbacusVerif.TwoPass.fastConcat_concrete',
    'AbacusVerif.TwoPass.twoPass_concrete',
]
DRIVER = 'drv_c10'
LEAN_MODULES = ['AbacusVerif.Props.C10', 'AbacusVerif.Props.C10Conc', 'AbacusVerif.Props.C10LinkC09']
NMAX = 16
RULE = ('one evaluation = one real run at one thread count: gen_gal_cat(tables, tracers, Nthread=n) for n = 1..16 on '
        'synthetic halo/particle tables (sizes 0..40 / 0..200 incl. every size not divisible by n and fewer rows than '
        'threads, all 7 tracer subsets, rsd on/off, ranks on/off, two parameter variants), each compared bitwise with '
        'n = 1, checked row by row against the input tables, and against the Lean model\'s row placement; plus '
        'fast_concatenate for ALL (N1, N2 <= 12, T <= 16) x {int64, float64}, _searchsorted_parallel on sorted tables, '
        'and rint(linspace(0,H,T+1)) for ALL (H <= 300, T <= 64); non-trivial = at least one galaxy row / one element / '
        'T >= 2; distinct = distinct (kind, sizes, tracers, flags, table seed, thread count)')
TRUSTED = ['OMP_WAIT_POLICY=passive and NUMBA_NUM_THREADS>=16 are set by the harness (scheduling knobs only)',
           'placement of a galaxy row is observed through the unique x coordinate and id of its host / particle',
           'the CPU memory model and numba\'s prange scheduler are not modelled: the theorems quantify over every '
           'order of the writes (sequentially consistent cell writes), the runs sample the real scheduler',
           'the block boundaries computed inside the kernels are not observable; the theorems hold for every monotone '
           'block sequence and the harness checks that rint(linspace) (numpy and numba, fastmath, parallel) is one']
ASSUMPTIONS = ['array sizes < 2^40 so that floor(T*N1/(N1+N2)) in float64 equals the exact floor',
               'in the harness runs keep codes are read from the real run; in the theorems they are C09\'s keepCode '
               '(Props/C10LinkC09.lean: catalogue_is_c09_filter); the widths remain inputs of C09',
               'np.searchsorted is a binary search on a sorted table']

_state = {}


# --------------------------------------------------------------------------- real code access

def real():
    """import the real modules once; wrap gen_cent to record the keep array it returns"""
    if 'G' in _state:
        return _state
    import numba
    from numba import njit
    from abacusnbody.hod import GRAND_HOD as G
    from abacusnbody.hod.abacus_hod import _searchsorted_parallel
    orig = G.gen_cent
    rec = {}
    if not getattr(orig, '_c10_wrapped', False):
        def gen_cent_recording(*a, **k):
            r = orig(*a, **k)
            rec['keep'] = np.array(r[-1]).astype(np.int64)
            return r
        gen_cent_recording._c10_wrapped = True
        G.gen_cent = gen_cent_recording

    @njit(parallel=True, fastmath=True)
    def hstart_numba_par(H, T):
        a = np.rint(np.linspace(0, H, T + 1)).astype(np.int64)
        s = 0
        for i in numba.prange(2):
            s += i
        return a

    @njit(fastmath=True)
    def hstart_numba(H, T):
        return np.rint(np.linspace(0, H, T + 1)).astype(np.int64)

    _state.update(G=G, ss=_searchsorted_parallel, rec=rec, hs_par=hstart_numba_par, hs=hstart_numba, numba=numba)
    return _state


def run_cat(tables, tracers, params, n, rsd, ranks):
    st = real()
    st['rec'].pop('keep', None)
    halo, part = tables
    out = st['G'].gen_gal_cat(halo, part, tracers, params, Nthread=n, enable_ranks=ranks, rsd=rsd, nfw=False,
                              write_to_disk=False, verbose=False)
    return out, st['rec'].get('keep')


def poison(out):
    """overwrite a result in place before it is released, so that a later np.empty that gets the same memory
    shows poison (not plausible stale numbers) in every cell it fails to write"""
    for tr in out.values():
        for k, v in tr.items():
            if isinstance(v, np.ndarray) and v.size and v.flags.writeable:
                v[...] = -12345


def same_bytes(a, b):
    return a.dtype == b.dtype and a.shape == b.shape and a.tobytes() == b.tobytes()


# --------------------------------------------------------------------------- catalogue cases

def build_case_tables(c):
    """family A and family B tables of a case: identical in every column that decides the keep codes,
    different payload (positions, velocities, ids).  Running A and B alternately makes stale memory of the
    previous run visible: a row that a run fails to write holds the *other* family's numbers."""
    rng = np.random.default_rng(c['tseed'])
    halo, part = hg.make_tables(rng, c['H'], c['P'])
    xoff = float(rng.integers(0, 64)) * 0.125
    halo['hpos'][:, 0] += xoff
    part['ppos'][:, 0] += xoff
    hb, pb = hg.copy_tables(halo, part)
    H, P = c['H'], c['P']
    hb['hpos'][:, 0] = halo['hpos'][:, 0] + 4096.5
    hb['hpos'][:, 1] = rng.integers(-1600, 1600, H) / 4.0
    hb['hpos'][:, 2] = rng.integers(-2048, 2048, H) / 4.0
    hb['hvel'] = rng.integers(-600, 601, (H, 3)).astype(np.float64)
    hb['hveldev'] = rng.integers(-40, 41, (H, 3)).astype(np.float64)
    hb['hid'] = halo['hid'] + 500000
    pb['ppos'][:, 0] = part['ppos'][:, 0] + 4096.5
    pb['ppos'][:, 1] = rng.integers(-1600, 1600, P) / 4.0
    pb['ppos'][:, 2] = rng.integers(-2048, 2048, P) / 4.0
    pb['pvel'] = rng.integers(-600, 601, (P, 3)).astype(np.float64)
    if c.get('origin'):
        # light-cone RSD displaces x, y and z: rows are then recognised by (id, vx) instead of x, so give the
        # particles of a host pairwise different vx (vx = hv + alpha_s (pv - hv) is injective in pv)
        part['pvel'][:, 0] = rng.permutation(P).astype(np.float64) - 350.0
        pb['pvel'][:, 0] = rng.permutation(P).astype(np.float64) - 350.0
    pb['phvel'] = hb['hvel'][part['pinds']].copy()
    pb['phid'] = hb['hid'][part['pinds']].copy()
    return (halo, part), (hb, pb)


def structural_oracle(c, n, fam, tables, tracers, out, keep_cent):
    """the property restated on one real output: centrals then satellites, every row an unmodified input row,
    rows in table order, no row twice, Ncent = number of kept hosts.  Returns (problems, placement) where
    placement[tracer] = (host rows of the centrals, particle rows of the satellites), None where a row is not
    an input row."""
    halo, part = tables
    lightcone = bool(c.get('origin')) and c['rsd']
    if not lightcone:
        hx = {float(x): i for i, x in enumerate(halo['hpos'][:, 0])}
        px = {float(x): i for i, x in enumerate(part['ppos'][:, 0])}
    else:
        hx = {int(v): i for i, v in enumerate(halo['hid'])}
        px = {}
    problems = []
    placement = {}
    used_h, used_p = {}, {}
    code = {'LRG': 1, 'ELG': 2, 'QSO': 3}
    for tr in out:
        o = out[tr]
        nc = int(o['Ncent'])
        x = o['x']
        ntot = len(x)
        for col in hg.COLUMNS:
            if len(o[col]) != ntot:
                problems.append('%s: column %s has %d rows, x has %d' % (tr, col, len(o[col]), ntot))
        if nc > ntot:
            problems.append('%s: Ncent %d > rows %d' % (tr, nc, ntot))
            nc = ntot
        if not lightcone:
            cen = [hx.get(float(v)) for v in x[:nc]]
            sat = [px.get(float(v)) for v in x[nc:]]
        else:
            a_s = tracers[tr].get('alpha_s', 1.0)
            pvx = part['phvel'][:, 0] + a_s * (part['pvel'][:, 0] - part['phvel'][:, 0])
            px = {(int(i), float(v)): k for k, (i, v) in enumerate(zip(part['phid'], pvx))}
            cen = [hx.get(int(v)) for v in o['id'][:nc]]
            sat = [px.get((int(i), float(v))) for i, v in zip(o['id'][nc:], o['vx'][nc:])]
        placement[tr] = (cen, sat)
        for name, rows, used in (('central', cen, used_h), ('satellite', sat, used_p)):
            if any(r is None for r in rows):
                problems.append('%s: %s row(s) %s hold numbers that are not an input row (unwritten / stale / misplaced)'
                                % (tr, name, [k for k, r in enumerate(rows) if r is None][:5]))
            good = [r for r in rows if r is not None]
            if any(a >= b for a, b in zip(good, good[1:])):
                problems.append('%s: %s rows not in increasing table order (or a row twice): %s' % (tr, name, good[:12]))
            for r in good:
                if r in used:
                    problems.append('%s: %s source row %d also used by %s' % (tr, name, r, used[r]))
                used[r] = tr
        # payload of each row = payload of its source row
        hd = tracers[tr]
        ci = np.array([r for r in cen if r is not None], dtype=np.int64)
        ck = np.array([k for k, r in enumerate(cen) if r is not None], dtype=np.int64)
        si = np.array([r for r in sat if r is not None], dtype=np.int64)
        sk = np.array([nc + k for k, r in enumerate(sat) if r is not None], dtype=np.int64)
        exp = {}
        exp['id'] = (halo['hid'][ci], part['phid'][si])
        exp['mass'] = (halo['hmass'][ci], part['phmass'][si])
        if not lightcone:
            exp['y'] = (halo['hpos'][ci, 1], part['ppos'][si, 1])
        ac, as_ = hd.get('alpha_c', 0.0), hd.get('alpha_s', 1.0)
        for a, nm in enumerate(('vx', 'vy', 'vz')):
            exp[nm] = (halo['hvel'][ci, a] + ac * halo['hveldev'][ci, a],
                       part['phvel'][si, a] + as_ * (part['pvel'][si, a] - part['phvel'][si, a]))
        if not c['rsd']:
            exp['z'] = (halo['hpos'][ci, 2], part['ppos'][si, 2])
        elif lightcone:
            pass        # displaced along the line of sight (sqrt under fastmath): covered by the bitwise oracle only
        else:
            def wrapz(z):
                z = np.where(z >= hg.LBOX / 2, z - hg.LBOX, z)
                return np.where(z < -hg.LBOX / 2, z + hg.LBOX, z)
            exp['z'] = (wrapz(halo['hpos'][ci, 2] + exp['vz'][0] / hg.VELZ2KMS),
                        wrapz(part['ppos'][si, 2] + exp['vz'][1] / hg.VELZ2KMS))
        for col, (ec, es) in exp.items():
            if not (np.array_equal(o[col][ck], ec) and np.array_equal(o[col][sk], es)):
                problems.append('%s: column %s of a row differs from its source row' % (tr, col))
        if keep_cent is not None and len(keep_cent) == c['H']:
            want = [int(i) for i in np.nonzero(keep_cent == code[tr])[0]]
            if [r for r in cen] != want:
                problems.append('%s: centrals are hosts %s but gen_cent kept hosts %s' % (tr, cen[:12], want[:12]))
    if keep_cent is None or len(keep_cent) != c['H']:
        problems.append('gen_cent returned a keep array of length %s for %d hosts' % (None if keep_cent is None else len(keep_cent), c['H']))
    return problems, placement


def model_lines(c, n, placement, keep_cent):
    """two requests per run: the host table and the particle table, on the replicated real boundaries"""
    st = real()
    code = {'LRG': 1, 'ELG': 2, 'QSO': 3}
    keep_p = [0] * c['P']
    for tr, (cen, sat) in placement.items():
        for r in sat:
            if r is not None:
                keep_p[r] = code[tr]
    keep_h = [int(v) for v in keep_cent] if keep_cent is not None else [0] * c['H']
    lines = []
    for keep, size in ((keep_h, c['H']), (keep_p, c['P'])):
        b = [int(v) for v in st['hs_par'](size, n)]
        lines.append('twopass %d %s %s' % (n, ','.join(map(str, keep)) or '-', ','.join(map(str, b))))
    return lines


def parse_twopass(s):
    if not s.startswith('ok '):
        return {'err': s}
    parts = dict(p.split('=', 1) for p in s.split(' ')[1:])

    def rows(v):
        return [] if v == '-' else [None if t == 'x' else int(t) for t in v.split(',')]
    return {'N': [int(v) for v in parts['N'].split(':')], 'r': [rows(parts['r1']), rows(parts['r2']), rows(parts['r3'])],
            'gstart': parts['gstart'], 'cur': parts['cur'], 'nwrites': 0 if parts['writes'] == '-' else parts['writes'].count(',') + 1}


def check_cat_case(ctx, c):
    """all thread counts on one input (two payload families, run alternately)"""
    tabA, tabB = build_case_tables(c)
    tracers = hg.make_tracers(tuple(c['subset']), variant=c['variant'])
    params = hg.make_params(origin=np.array(c['origin'], dtype=np.float64) if c.get('origin') else None)
    code = {'LRG': 1, 'ELG': 2, 'QSO': 3}
    ref = {}
    held = []
    queries = []
    ns = c.get('ns') or list(range(1, NMAX + 1))
    pristine = [{k: v.copy() for k, v in t.items()} for t in (tabA[0], tabA[1], tabB[0], tabB[1])]
    nfail0 = len(ctx.failures)
    for n in ns:
        if len(ctx.failures) > nfail0 + 3:
            # fail fast: a real run that misplaces rows may also have written outside its arrays; do not keep
            # driving a process whose heap may be corrupt before the failures found so far are reported
            ctx.count('cat:case-cut-short-after-failures')
            break
        for fam, tab in (('A', tabA), ('B', tabB)):
            case_n = dict(c, n=n, fam=fam)
            ctx.about(case_n, 'gen_gal_cat')
            try:
                out, keep = run_cat(tab, tracers, params, n, c['rsd'], c['ranks'])
            except Exception as e:  # the real code must not raise on any of these inputs
                ctx.fail('gen_gal_cat raised %s' % type(e).__name__, case_n, repr(e)[:300], 'a catalogue',
                         key='cat:raises')
                continue
            held.append(out)
            ngal = sum(len(o['x']) for o in out.values())
            ctx.case(case_n, nontrivial=ngal > 0)
            ctx.count('cat:runs')
            if c.get('origin'):
                ctx.count('cat:lightcone-origin-runs' + ('' if c['rsd'] else ':rsd-off'))
            ctx.count('cat:H<n' if c['H'] < n else ('cat:H%n!=0' if c['H'] % n else 'cat:H%n==0'))
            if ngal == 0:
                ctx.count('cat:empty-catalogue')
            # ---- oracle 1: bitwise identical to the single-thread run of the same family
            if (fam, 'out') not in ref:
                ref[(fam, 'out')] = out
                ref[(fam, 'keep')] = keep
                ref[(fam, 'n')] = n
            else:
                r = ref[(fam, 'out')]
                diffs = []
                if list(out) != list(r):
                    diffs.append('tracers %s vs %s' % (list(out), list(r)))
                for tr in out:
                    if tr not in r:
                        continue
                    if out[tr]['Ncent'] != r[tr]['Ncent']:
                        diffs.append('%s Ncent %s vs %s' % (tr, out[tr]['Ncent'], r[tr]['Ncent']))
                    if list(out[tr]) != list(r[tr]):
                        diffs.append('%s columns %s vs %s' % (tr, list(out[tr]), list(r[tr])))
                    for col in hg.COLUMNS:
                        if not same_bytes(out[tr][col], r[tr][col]):
                            diffs.append('%s.%s' % (tr, col))
                if keep is not None and ref[(fam, 'keep')] is not None and not np.array_equal(keep, ref[(fam, 'keep')]):
                    diffs.append('keep codes of gen_cent')
                if diffs:
                    ctx.fail('catalogue for Nthread=%d differs from Nthread=%d' % (n, ref[(fam, 'n')]), case_n,
                             diffs[:8], 'bitwise identical', key='cat:thread-count-dependent')
            # ---- oracle 2: the catalogue restated from the input tables
            problems, placement = structural_oracle(c, n, fam, tab, tracers, out, keep)
            if problems:
                ctx.fail('catalogue rows are not the kept input rows in table order', case_n, problems[:6],
                         'centrals then satellites, each kept row exactly once, in table order',
                         key='cat:rows')
            # ---- correspondence with the model (placement per tracer)
            queries.append((case_n, placement, keep, {tr: int(out[tr]['Ncent']) for tr in out},
                            model_lines(c, n, placement, keep)))
    # inputs must not have been modified
    for t, p in zip((tabA[0], tabA[1], tabB[0], tabB[1]), pristine):
        for k in t:
            if not same_bytes(t[k], p[k]):
                ctx.fail('gen_gal_cat modified its input column %s' % k, c, 'changed', 'unchanged', key='cat:input-modified')
    # model
    lines = [l for q in queries for l in q[4]]
    resp = ctx.driver.query(lines)
    for qi, (case_n, placement, keep, ncent, _) in enumerate(queries):
        mh, mp = parse_twopass(resp[2 * qi]), parse_twopass(resp[2 * qi + 1])
        if 'err' in mh or 'err' in mp:
            ctx.disagree('model faults on the boundaries the real code uses', case_n, (mh, mp), 'no fault')
            continue
        ctx.traces_validated += 1
        for tr in ('LRG', 'ELG', 'QSO'):
            k = code[tr] - 1
            if tr in placement:
                cen, sat = placement[tr]
                if mh['r'][k] != cen or mh['N'][k] != ncent[tr]:
                    ctx.disagree('central placement / Ncent of %s' % tr, case_n, (mh['N'][k], mh['r'][k]), (ncent[tr], cen))
                if mp['r'][k] != sat:
                    ctx.disagree('satellite placement of %s' % tr, case_n, mp['r'][k], sat)
            else:
                if mh['N'][k] != 0:
                    ctx.disagree('gen_cent keeps hosts for the disabled tracer %s' % tr, case_n, mh['N'][k], 0)
    for out in held:
        poison(out)


def cat_cases(ctx):
    rng = ctx.rng
    cases = []

    def mk(H, P, subset, rsd, variant=0, ranks=False):
        if H == 0:
            P = 0
        return dict(kind='cat', H=int(H), P=int(P), subset=list(subset), rsd=bool(rsd), variant=int(variant),
                    ranks=bool(ranks), tseed=int(rng.integers(0, 2 ** 31)))
    # (a) every host-table size 0..40; particle sizes cycle through 0..200
    pcycle = [0, 1, 2, 3, 5, 7, 11, 13, 15, 16, 17, 23, 31, 32, 33, 47, 63, 64, 65, 97, 100, 127, 128, 129, 150, 199, 200]
    for H in range(0, 41):
        cases.append(mk(H, pcycle[(H * 5 + int(rng.integers(0, 3))) % len(pcycle)], hg.SUBSETS[(H + 6) % 7], H % 2 == 0,
                        variant=(H // 2) % 2, ranks=(H % 3 == 0)))
    # (b) particle-table sizes
    psizes = list(range(0, 201)) if not ctx.quick else sorted(set(list(range(0, 20)) + [int(v) for v in rng.integers(20, 201, 8)] + [199, 200]))
    for P in psizes:
        cases.append(mk(int(rng.integers(1, 9)), P, hg.SUBSETS[P % 7], P % 2 == 1, variant=P % 2, ranks=(P % 4 == 0)))
    # (c) all tracer subsets x rsd x variant
    for subset in hg.SUBSETS:
        for rsd in (False, True):
            for variant in ((0,) if ctx.quick else (0, 1)):
                cases.append(mk(int(rng.integers(17, 41)), int(rng.integers(40, 201)), subset, rsd, variant=variant,
                                ranks=bool(variant)))
    if not ctx.quick:
        # light-cone RSD (`origin` is an array instead of None: a second numba signature of gen_cent/gen_sats,
        # ~30 s of compilation, hence thorough tier only)
        for k, subset in enumerate(hg.SUBSETS):
            for rsd in (True, False):
                cc = mk(int(rng.integers(0, 41)) if k else 23, int(rng.integers(0, 201)), subset, rsd, variant=k % 2,
                        ranks=bool(k % 2))
                cc['origin'] = [-1000.5, -2000.25, 3000.125]
                cases.append(cc)
        for k in range(300):
            hmax, pmax = (41, 201) if k % 3 else (130, 700)
            cases.append(mk(int(rng.integers(0, hmax)), int(rng.integers(0, pmax)), hg.SUBSETS[int(rng.integers(0, 7))],
                            bool(rng.integers(0, 2)), variant=int(rng.integers(0, 2)), ranks=bool(rng.integers(0, 2))))
    return cases


# --------------------------------------------------------------------------- fast_concatenate

def check_fastconcat(ctx, nmax=12, tmax=16, dtypes=(np.int64, np.float64), only=None):
    st = real()
    fc = st['G'].fast_concatenate
    cases = []
    lines = []
    serial = 0
    for dt in dtypes:
        for N1 in range(0, nmax + 1):
            for N2 in range(0, nmax + 1):
                for T in range(1, tmax + 1):
                    if only is None or (N1, N2, T) in only:
                        cases.append((np.dtype(dt).name, N1, N2, T))
    # model once per (N1, N2, T): element values are labels
    for (dn, N1, N2, T) in cases:
        if dn == np.dtype(dtypes[0]).name:
            lines.append('fastconcat %d %s %s' % (T, ','.join(str(1000 + i) for i in range(N1)) or '-',
                                                  ','.join(str(2000 + j) for j in range(N2)) or '-'))
    resp = ctx.driver.query(lines)
    model = {}
    for l, r in zip(lines, resp):
        t = l.split(' ')
        key = (0 if t[2] == '-' else t[2].count(',') + 1, 0 if t[3] == '-' else t[3].count(',') + 1, int(t[1]))
        model[key] = r
    for (dn, N1, N2, T) in cases:
        serial += 1
        base = (serial % 97) * 10000            # fresh labels every call: stale memory never matches
        a1 = (np.arange(N1) + 1000 + base).astype(dn)
        a2 = (np.arange(N2) + 2000 + base).astype(dn)
        c = dict(kind='fastconcat', dtype=dn, N1=N1, N2=N2, T=T)
        ctx.case(c, nontrivial=(N1 > 0 and N2 > 0))
        ctx.count('fastconcat:calls')
        ctx.about(c, 'fast_concatenate')
        try:
            res = fc(a1, a2, T)
        except Exception as e:
            ctx.fail('fast_concatenate raised %s' % type(e).__name__, c, repr(e)[:200], 'concatenation', key='fastconcat:raises')
            continue
        exp = np.concatenate((a1, a2))
        if not same_bytes(np.asarray(res), exp):
            ctx.fail('fast_concatenate differs from np.concatenate', c, [float(v) for v in res][:30],
                     [float(v) for v in exp][:30], key='fastconcat:wrong')
        m = model[(N1, N2, T)]
        if not m.startswith('ok '):
            ctx.disagree('fastconcat model faults', c, m, 'ok')
        else:
            parts = dict(p.split('=', 1) for p in m.split(' ')[1:] if '=' in p)
            mres = [] if parts['res'] == '-' else [None if v == 'x' else int(v) + base for v in parts['res'].split(',')]
            if mres != [int(v) for v in res]:
                ctx.disagree('fastconcat result', c, mres, [int(v) for v in res])
            kind = 'same2' if N1 == 0 else 'same1' if N2 == 0 else 'fresh'
            if kind not in m:
                ctx.disagree('fastconcat branch', c, m[-40:], kind)
            else:
                ctx.count('fastconcat:branch:' + ('T=1' if kind == 'fresh' and T == 1 else kind))
            # the aliasing branches return the very array (no copy)
            if kind != 'fresh' and (N1 + N2) > 0:
                src = a2 if N1 == 0 else a1
                if not np.shares_memory(res, src):
                    ctx.disagree('fastconcat N=0 branch returns a copy', c, kind, 'copy')
        if isinstance(res, np.ndarray) and res.size and N1 and N2:
            res[...] = -1                       # poison before release
    if only is None:
        ctx.extra['fastconcat_scope'] = 'all N1, N2 in 0..%d, T in 1..%d, dtypes %s' % (nmax, tmax, [np.dtype(d).name for d in dtypes])


# --------------------------------------------------------------------------- rint(linspace)

def rhe_div(num, den):
    """round-half-even of num/den (integers, den > 0); returns (value, is_tie)"""
    f, r = divmod(num, den)
    if 2 * r < den:
        return f, False
    if 2 * r > den:
        return f + 1, False
    return (f if f % 2 == 0 else f + 1), True


def check_blocks(ctx, hmax=300, tmax=64):
    st = real()
    lines = ['blocks %d %d' % (H, T) for H in range(0, hmax + 1) for T in range(1, tmax + 1)]
    resp = ctx.driver.query(lines)
    k = 0
    ties = 0
    for H in range(0, hmax + 1):
        for T in range(1, tmax + 1):
            r = resp[k]
            k += 1
            c = dict(kind='blocks', H=H, T=T)
            ctx.case(c, nontrivial=(H > 0 and T > 1))
            m = [int(v) for v in r[3:].split(',')]
            ex = [rhe_div(i * H, T) for i in range(T + 1)]
            exact = [e[0] for e in ex]
            if m != exact:
                ctx.disagree('rintLinspace vs exact round-half-even of i*H/T', c, m, exact)
            variants = (('numpy', np.rint(np.linspace(0, H, T + 1)).astype(np.int64)),
                        ('numba-fastmath', st['hs'](H, T)), ('numba-parallel-fastmath', st['hs_par'](H, T)))
            for name, arr in variants:
                arr = [int(v) for v in arr]
                ok = len(arr) == T + 1 and arr[0] == 0 and arr[-1] == H and all(a <= b for a, b in zip(arr, arr[1:]))
                if not ok:
                    # the premise of every theorem about the passes
                    ctx.fail('rint(linspace(0,H,T+1)) [%s] is not a monotone block sequence from 0 to H' % name, c, arr,
                             'b_0 = 0 <= ... <= b_T = H', key='blocks:not-a-block-sequence')
                    continue
                if arr == m:
                    continue
                for i, v in enumerate(arr):
                    if ex[i][1]:
                        # exact tie: float64 linspace may land on either side (i*step is rounded); both are block sequences
                        ties += 1
                        lo = (i * H) // T
                        if v not in (lo, lo + 1):
                            ctx.disagree('block boundary [%s] at a tie' % name, dict(c, i=i), (lo, lo + 1), v)
                        elif v != m[i]:
                            ctx.count('blocks:tie-rounded-other-way:' + name)
                    elif v != m[i]:
                        ctx.disagree('block boundary [%s]' % name, dict(c, i=i), m[i], v)
    ctx.count('blocks:ties-in-sequences-that-differ-from-exact', ties)
    ctx.extra['blocks_scope'] = 'all H in 0..%d, T in 1..%d; numpy, numba(fastmath), numba(parallel, fastmath)' % (hmax, tmax)


# --------------------------------------------------------------------------- _searchsorted_parallel

def check_searchsorted(ctx, ncases):
    st = real()
    rng = ctx.rng
    cases = []
    for k in range(ncases):
        na = int(rng.integers(0, 30)) if k % 5 else k // 5 % 4
        nb = int(rng.integers(0, 40)) if k % 7 else 0
        step = int(rng.integers(0, 4))
        a = np.sort(rng.integers(-5, 5 + step * max(na, 1), na)).astype(np.int64)
        if k % 3 == 0 and na:
            a = np.unique(a)                                  # strictly increasing (host ids)
        b = rng.integers(-8, 8 + step * max(len(a), 1), nb).astype(np.int64)
        if len(a) and nb and k % 2:
            b[: nb // 2] = rng.choice(a, nb // 2)             # exact hits, as particles' host ids are
        cases.append((a, b))
    lines = ['searchsorted %s %s' % (','.join(map(str, a.tolist())) or '-', ','.join(map(str, b.tolist())) or '-') for a, b in cases]
    resp = ctx.driver.query(lines)
    for (a, b), r in zip(cases, resp):
        c = dict(kind='searchsorted', a=a.tolist(), b=b.tolist())
        ctx.case(c, nontrivial=len(a) > 0 and len(b) > 0)
        ctx.count('searchsorted:calls')
        res = st['ss'](a, b)
        exp = np.searchsorted(a, b)
        if not (res.dtype == np.int64 and np.array_equal(res, exp)):
            ctx.fail('_searchsorted_parallel differs from np.searchsorted', c, res.tolist(), exp.tolist(), key='searchsorted:wrong')
        own = [int(np.sum(a < v)) for v in b]
        if own != exp.tolist():
            ctx.fail('np.searchsorted is not the count of smaller entries on a sorted table', c, exp.tolist(), own, key='searchsorted:numpy')
        m = [] if r == 'ok -' else [None if v == 'x' else int(v) for v in r[3:].split(',')] if r.startswith('ok ') else r
        if m != res.tolist():
            ctx.disagree('searchsortedPar', c, m, res.tolist())


# --------------------------------------------------------------------------- entry points

def corpus_cases():
    from vcommon import CORPUS
    out = []
    d = CORPUS / 'C10'
    if d.is_dir():
        for p in sorted(d.glob('*.json')):
            out.append(json.loads(p.read_text()))
    return out


def check_rejects_zero_threads(ctx):
    """Nthread = 0 is rejected (numba.set_num_threads), as the model says"""
    rng = np.random.default_rng(5)
    tab = hg.make_tables(rng, 3, 4)
    c = dict(kind='cat-T0', H=3, P=4)
    ctx.case(c, nontrivial=False)
    m = ctx.driver.query(['twopass 0 1,2,3 0'])[0]
    try:
        run_cat(tab, hg.make_tracers(('LRG',)), hg.make_params(), 0, False, False)
        impl = 'ok'
    except ValueError:
        impl = 'err rejected'
    except Exception as e:
        impl = 'raised %s' % type(e).__name__
    if m != impl:
        ctx.disagree('Nthread = 0', c, m, impl)


def run_inner(ctx):
    import time
    t0 = time.time()
    real()
    cc = corpus_cases()
    ctx.count('corpus', len(cc))
    for c in cc:
        dispatch(ctx, c)
    check_rejects_zero_threads(ctx)
    t1 = time.time()
    for c in cat_cases(ctx):
        if len(ctx.failures) >= 12:
            ctx.count('cat:sweep-cut-short-after-failures')
            break
        check_cat_case(ctx, c)
    t2 = time.time()
    check_fastconcat(ctx, nmax=ctx.pick(12, 18), dtypes=(np.int64, np.float64))
    t3 = time.time()
    check_blocks(ctx)
    t4 = time.time()
    check_searchsorted(ctx, ctx.pick(150, 1500))
    t5 = time.time()
    ctx.extra['wall_parts_s'] = {'import+compile+corpus': round(t1 - t0, 1), 'catalogue sweep': round(t2 - t1, 1),
                                 'fast_concatenate': round(t3 - t2, 1), 'blocks': round(t4 - t3, 1),
                                 'searchsorted': round(t5 - t4, 1)}
    ctx.exhaustive = True
    ctx.extra['exhaustive_parts'] = ['fast_concatenate (N1, N2 <= 12, T <= 16)', 'rint(linspace) (H <= 300, T <= 64)',
                                     'host-table sizes 0..40 x thread counts 1..16']
    ctx.extra['thread_counts'] = '1..%d (NUMBA_NUM_THREADS=%s, layer %s)' % (NMAX, os.environ.get('NUMBA_NUM_THREADS'),
                                                                          _state['numba'].threading_layer())


def dispatch(ctx, c):
    kind = c.get('kind')
    if kind == 'cat':
        c = {k: v for k, v in c.items() if k not in ('n', 'fam')}
        check_cat_case(ctx, c)
    elif kind == 'fastconcat':
        check_fastconcat(ctx, nmax=max(c['N1'], c['N2']), tmax=c['T'], dtypes=(np.dtype(c.get('dtype', 'int64')).type,),
                         only={(c['N1'], c['N2'], c['T'])})
    elif kind == 'blocks':
        check_blocks(ctx, hmax=c['H'], tmax=c['T'])
    elif kind == 'searchsorted':
        check_searchsorted(ctx, 50)
    elif kind == 'cat-T0':
        check_rejects_zero_threads(ctx)


def intensify_inner(ctx):
    """a proof or the correspondence broke: look harder for an input on which the real code is wrong"""
    rng = ctx.rng
    for _ in range(ctx.pick(150, 400)):
        H = int(rng.integers(0, 80))
        c = dict(kind='cat', H=H, P=int(rng.integers(0, 400)) if H else 0, subset=list(hg.SUBSETS[int(rng.integers(0, 7))]),
                 rsd=bool(rng.integers(0, 2)), variant=int(rng.integers(0, 2)), ranks=bool(rng.integers(0, 2)),
                 tseed=int(rng.integers(0, 2 ** 31)))
        check_cat_case(ctx, c)
        if len(ctx.failures) > 20:
            return
    check_fastconcat(ctx, nmax=20, tmax=16, dtypes=(np.int64,))
    check_searchsorted(ctx, 2000)


def replay_inner(ctx, doc):
    c = doc['failure']['case'] if 'failure' in doc else doc
    real()
    dispatch(ctx, c)


# --------------------------------------------------------------------------- process isolation
#
# A broken two-pass (e.g. fill cursors starting at the wrong offset) writes outside its arrays; glibc then
# aborts the process some allocations later.  The real code therefore runs in a child process that streams
# every event (case, count, failure, disagreement) to a file as it happens; the parent replays the events into
# the real Ctx, so failures found before a crash still produce the VIOLATION verdict.

class EventCtx:
    def __init__(self, path, tier, seed):
        self._f = open(path, 'w', buffering=1)
        self.tier = tier
        self.seed = seed
        self.rng = np.random.default_rng(seed)
        self.failures = []
        self.disagreements = []
        self.traces_validated = 0
        self.extra = {}
        self.exhaustive = False
        self.driver = None

    @property
    def quick(self):
        return self.tier == 'quick'

    def pick(self, q, t):
        return q if self.quick else t

    def emit(self, **ev):
        from vcommon import _jsonable
        self._f.write(json.dumps(ev, default=_jsonable) + '\n')
        self._f.flush()

    def case(self, case, nontrivial=True, key=None):
        self.emit(ev='case', case=case, nontrivial=bool(nontrivial))

    def count(self, key, n=1):
        self.emit(ev='count', key=key, n=int(n))

    def about(self, case, what):
        """written just before the real code is called: if the interpreter dies inside the call (a broken kernel
        that writes outside its arrays), the parent knows the input it died on"""
        self.emit(ev='about', case=case, what=what)

    def fail(self, what, case, observed, expected, key=None):
        self.failures.append(what)
        self.emit(ev='fail', what=what, case=case, observed=observed, expected=expected, key=key)

    def disagree(self, what, case, model, impl):
        self.disagreements.append(what)
        self.emit(ev='disagree', what=what, case=case, model=model, impl=impl)

    def tie(self, what, detail):
        self.emit(ev='tie', what=what, detail=str(detail)[:3000])

    def finish(self):
        self.emit(ev='end', traces=self.traces_validated, extra=self.extra, exhaustive=bool(self.exhaustive))
        self._f.close()


def child_main(argv):
    import traceback
    import vcommon
    vcommon.setup_import_path()
    mode, tier, seed, evpath = argv[0], argv[1], int(argv[2]), argv[3]
    ctx = EventCtx(evpath, tier, seed)
    try:
        ctx.driver = vcommon.Driver(DRIVER)
        if ctx.driver.error:
            ctx.tie('driver-build', ctx.driver.error)
        if mode == 'run':
            run_inner(ctx)
        elif mode == 'intensify':
            intensify_inner(ctx)
        else:
            replay_inner(ctx, json.loads(open(argv[4]).read()))
    except Exception:
        ctx.tie('harness-exception', traceback.format_exc()[-3000:])
    ctx.finish()


def in_child(ctx, mode, doc=None):
    import subprocess
    import vcommon
    tmp = ctx.tmpdir()
    evpath = os.path.join(tmp, 'events-%s.jsonl' % mode)
    cmd = [vcommon.PY, '-B', os.path.abspath(__file__), mode, ctx.tier, str(int(ctx.seed)), evpath]
    if doc is not None:
        dpath = os.path.join(tmp, 'replay-doc.json')
        with open(dpath, 'w') as f:
            json.dump(doc, f)
        cmd.append(dpath)
    p = subprocess.run(cmd, env=vcommon.impl_env(), stdout=subprocess.PIPE, stderr=subprocess.STDOUT, text=True,
                       timeout=ctx.pick(1500, 3000))
    ended = False
    nfail = 0
    pending = None          # the last call of the real code that was announced; cleared by any later event
    if os.path.exists(evpath):
        for line in open(evpath):
            try:
                ev = json.loads(line)
            except ValueError:
                continue                      # a line cut short by a crash
            k = ev.pop('ev')
            if k == 'about':
                pending = ev
                continue
            pending = None
            if k == 'case':
                ctx.case(ev['case'], nontrivial=ev['nontrivial'])
            elif k == 'count':
                ctx.count(ev['key'], ev['n'])
            elif k == 'fail':
                nfail += 1
                ctx.fail(ev['what'], ev['case'], ev['observed'], ev['expected'], key=ev['key'])
            elif k == 'disagree':
                ctx.disagree(ev['what'], ev['case'], ev['model'], ev['impl'])
            elif k == 'tie':
                ctx.tie(ev['what'], ev['detail'])
            elif k == 'end':
                ended = True
                ctx.traces_validated += ev['traces']
                ctx.extra.update(ev['extra'])
                ctx.exhaustive = ctx.exhaustive or ev['exhaustive']
    if p.returncode != 0 or not ended:
        tail = (p.stdout or '')[-1500:]
        if nfail:
            # the runs that broke the property also corrupted memory; the failures above are the verdict
            ctx.count('child-crashed-after-failures')
            vcommon.log('[C10] the process running the real code ended with rc=%s after %d failure(s): %s'
                        % (p.returncode, nfail, tail[-300:]))
        elif pending is not None and p.returncode < 0:
            # killed by a signal INSIDE a call of the real code on an input from the property's domain: that input is
            # the failing input (no catalogue at this thread count, hence not "identical for every thread count")
            ctx.case(pending['case'], nontrivial=True)
            ctx.fail('%s killed the interpreter (signal %d) on a valid input' % (pending['what'], -p.returncode), pending['case'],
                     'process ended with rc=%s inside the call' % p.returncode, 'a result, identical for every thread count',
                     key='crash:' + pending['what'])
        else:
            raise vcommon.Infra('the process running the real code ended with rc=%s before reporting a failure:\n%s'
                                % (p.returncode, tail))


def run(ctx):
    in_child(ctx, 'run')


def intensify(ctx):
    in_child(ctx, 'intensify')


def replay(ctx, doc):
    in_child(ctx, 'replay', doc)


if __name__ == '__main__':
    import sys
    child_main(sys.argv[1:])
