"""C15 — pack9 streams decode one particle per record relative to its cell header (DESIGN.md §7 C15).

Correspondence: the compiled Lean model `drv_c15` (Model/C15.lean) against the real
`pack9.unpack_pack9` (compiled, bounds-checked), `pack9._unpack_pack9.py_func` and
`pack9._expand_to_short` on the same byte streams.  Oracle: the format restated with Python
integers / Fractions (divmod arithmetic, no bit operations), independent of the model.
"""
from vcommon import pure
import os

os.environ['NUMBA_BOUNDSCHECK'] = '1'   # must precede the first numba import in this process

import json  # noqa: E402
import warnings  # noqa: E402
from fractions import Fraction  # noqa: E402

import numpy as np  # noqa: E402

THEOREMS = [
    'AbacusVerif.Pack9.fields_lt',
    'AbacusVerif.Pack9.pack_expand',
    'AbacusVerif.Pack9.expand_pack',
    'AbacusVerif.Pack9.expand_range',
    'AbacusVerif.Pack9.isHeader_iff',
    'AbacusVerif.Pack9.unpack_count',
    'AbacusVerif.Pack9.unpack_write_index',
    'AbacusVerif.Pack9.unpack_short_output_faults',
    'AbacusVerif.Pack9.unpack_alloc_slice',
    'AbacusVerif.Pack9.unpack_opts_independent',
    'AbacusVerif.Pack9.header_decode',
    'AbacusVerif.Pack9.pos_roundtrip',
    'AbacusVerif.Pack9.vel_roundtrip',
    'AbacusVerif.Pack9.stream_roundtrip',
]
DRIVER = 'drv_c15'
RULE = ('byte streams of 9-byte records: random interleavings of headers and particles (header probability '
        '0..1, consecutive headers, header-only, empty, no leading header), every value 0..4095 of each of the six '
        'particle fields and of each of the five header fields crossed with random other fields, raw random bytes; '
        'x position/velocity option in {allocate, False, supplied(len)}^2 x float32/float64 x box/velocity scales; '
        'run on unpack_pack9 (compiled, NUMBA_BOUNDSCHECK=1), _unpack_pack9.py_func and _expand_to_short; '
        'a case is non-trivial when it has at least one record; distinct = distinct (stream, options, dtype, box, velz)')
TRUSTED = ['float outputs are compared with the model\'s exact rationals within 6 ulp (of the output dtype) of the '
           'magnitude of the summed terms |sh*pscale| + |(cell+1/2)*csize| + box/2 (positions) or of the value (velocities); '
           'counts, shapes, untouched sentinel rows and errors are compared exactly',
           'NUMBA_BOUNDSCHECK=1 turns an out-of-range row write of the compiled kernel into IndexError']
ASSUMPTIONS = ['data is an (N, 9) ubyte array (a record is nine bytes); supplied outputs are (L, 3) float arrays',
               'IEEE rounding of the float32/float64 arithmetic inside the kernel is not modelled (bounded, see trusted base)']

SENT = 777.25
KULP = 6
EPS = {'f4': float(np.finfo(np.float32).eps), 'f8': float(np.finfo(np.float64).eps)}
DT = {'f4': np.float32, 'f8': np.float64}

# ----------------------------------------------------------------------------- the format, restated (oracle)


def enc(f):
    """six 12-bit fields -> nine bytes: byte0 = top 8 bits of f0, byte1 = (top nibble of f1, low nibble of f0),
    byte2 = low 8 bits of f1; likewise (f2, f3) and (f4, f5)"""
    out = []
    for a, b in ((f[0], f[1]), (f[2], f[3]), (f[4], f[5])):
        qa, ra = divmod(a, 16)
        qb, rb = divmod(b, 256)
        out += [qa, qb * 16 + ra, rb]
    return out


def dec(c):
    """nine bytes -> six 12-bit fields (inverse of enc, integer arithmetic only)"""
    f = []
    for k in (0, 3, 6):
        hi, lo = divmod(c[k + 1], 16)
        f += [c[k] * 16 + lo, hi * 256 + c[k + 2]]
    return f


def oracle_decode(recs, box, velz):
    """the documented meaning of a stream: list of particles (pos[3], vel[3], pos scale[3], vel scale[3]) with
    exact Fractions (None = NaN, before any header), or 'zerodiv' if a header has cells-per-dimension 0"""
    hdr = None
    parts = []
    for c in recs:
        f = dec(c)
        assert enc(f) == list(c)
        if c[0] == 255:
            cpd = f[1] - 48            # = (f1 - 2048) + 2000
            if cpd == 0:
                return 'zerodiv'
            csize = Fraction(box) / cpd
            vs = Fraction(f[2] - 48, 2000) / cpd * Fraction(velz)
            cen = [(Fraction(f[3 + k] - 48) + Fraction(1, 2)) * csize - Fraction(box) / 2 for k in range(3)]
            cmag = [abs((Fraction(f[3 + k] - 48) + Fraction(1, 2)) * csize) + abs(Fraction(box)) / 2 for k in range(3)]
            hdr = (csize / 2000, vs, cen, cmag)
        else:
            if hdr is None:
                parts.append(([None] * 3, [None] * 3, [0] * 3, [0] * 3))
            else:
                ps, vs, cen, cmag = hdr
                pos = [(f[k] - 2048) * ps + cen[k] for k in range(3)]
                pmag = [abs((f[k] - 2048) * ps) + cmag[k] for k in range(3)]
                vel = [(f[3 + k] - 2048) * vs for k in range(3)]
                parts.append((pos, vel, pmag, [abs(v) for v in vel]))
    return parts


# ----------------------------------------------------------------------------- generators

CPDS = [1, 2, 3, 5, 16, 27, 64, 125, 405, 1701, 1875, 2047, 4047]
BOXES = [1.0, 2000.0, 500.0, 1000.1, 7250.5, 0.3]
VELZ = [1.0, 2.5, 1234.567, 0.01]


def rand_header(rng, wild=False):
    if wild:
        f1 = int(rng.integers(0, 4096))
        if f1 == 48:
            f1 = 49
        return [0xFF0 + int(rng.integers(0, 16)), f1] + [int(v) for v in rng.integers(0, 4096, 4)]
    cpd = int(rng.choice(CPDS))
    cell = [int(v) for v in rng.integers(0, cpd, 3)]
    return [0xFF0 + int(rng.integers(0, 16)), cpd + 48, int(rng.integers(0, 4096))] + [c + 48 for c in cell]


def rand_particle(rng, wild=False):
    if wild:
        f = [int(v) for v in rng.integers(0, 4096, 6)]
        f[0] = int(rng.integers(0, 0xFF0))
        return f
    return [int(v) + 2048 for v in rng.integers(-1000, 1001, 3)] + [int(v) + 2048 for v in rng.integers(-2000, 2001, 3)]


def hexstream(recs):
    return ''.join('%02x' % b for c in recs for b in c) or '-'


def recs_of_hex(h):
    if h == '-':
        return []
    b = bytes.fromhex(h)
    return [list(b[i:i + 9]) for i in range(0, len(b), 9)]


def opt_pair(rng, npart, n, allow_short=False):
    def one():
        r = rng.random()
        if r < 0.4:
            return 'A'
        if r < 0.6:
            return 'F'
        ch = [npart, npart + 3, n, n + 1]
        if allow_short and npart > 0:
            ch += [npart - 1, 0]
        return 'S%d' % int(rng.choice(ch))
    return one(), one()


def mk_case(kind, recs, rng, dtype=None, po=None, vo=None, allow_short=False, pyfunc=False):
    npart = sum(1 for c in recs if c[0] != 255)
    if po is None:
        po, vo = opt_pair(rng, npart, len(recs), allow_short)
    return dict(kind=kind, box=float(rng.choice(BOXES)), velz=float(rng.choice(VELZ)),
                dtype=dtype or str(rng.choice(['f4', 'f8'])), po=po, vo=vo, hex=hexstream(recs), pyfunc=bool(pyfunc))


def gen_random_streams(ctx, n_streams):
    rng = ctx.rng
    cases = []
    for s in range(n_streams):
        n = int(rng.choice([0, 1, 2, 3, 5, 8, 13, 21, 40]))
        ph = float(rng.choice([0.0, 0.1, 0.3, 0.5, 0.9, 1.0]))
        wild = rng.random() < 0.3
        lead = rng.random() < 0.85
        recs = []
        for i in range(n):
            if (i == 0 and lead) or rng.random() < ph:
                recs.append(enc(rand_header(rng, wild)))
            else:
                recs.append(enc(rand_particle(rng, wild)))
        kind = 'random' if (not recs or recs[0][0] == 255 or all(c[0] == 255 for c in recs)) else 'no-leading-header'
        cases.append(mk_case(kind, recs, rng, pyfunc=True))
    # raw random bytes (first byte forced to 0xFF for a quarter of the records); cpd 0 avoided
    for s in range(max(4, n_streams // 8)):
        n = int(rng.integers(1, 30))
        raw = rng.integers(0, 256, (n, 9))
        raw[rng.random(n) < 0.25, 0] = 255
        raw[0, 0] = 255
        recs = [[int(b) for b in r] for r in raw]
        for c in recs:
            if c[0] == 255 and dec(c)[1] == 48:
                c[2] = 49
        cases.append(mk_case('raw-bytes', recs, rng, pyfunc=True))
    return cases


def gen_sweeps(ctx):
    """every value of every particle field / header field, crossed with random others"""
    rng = ctx.rng
    cases = []
    reps = ctx.pick(1, 4)
    for rep in range(reps):
        for j in range(6):
            recs = [enc(rand_header(rng))]
            for v in range(4096):
                f = rand_particle(rng, wild=True)
                if j == 0 and v >= 0xFF0:
                    f = rand_header(rng, wild=True)    # first byte 0xFF: this *is* a header
                f[j] = v
                recs.append(enc(f))
                if j == 0 and v >= 0xFF0:
                    recs.append(enc(rand_particle(rng)))
            for dt in ('f4', 'f8'):
                cases.append(mk_case('sweep-particle-f%d' % j, recs, rng, dtype=dt, po='A', vo='A'))
        for j in range(1, 6):
            recs = []
            for v in range(4096):
                if j == 1 and v == 48:
                    continue
                f = rand_header(rng)
                f[j] = v
                if j == 1:
                    cpd = v - 48
                    if cpd > 0:
                        for k in range(3):
                            f[3 + k] = 48 + int(rng.integers(0, cpd))
                recs.append(enc(f))
                recs.append(enc(rand_particle(rng)))
            for dt in ('f4', 'f8'):
                cases.append(mk_case('sweep-header-f%d' % j, recs, rng, dtype=dt, po='A', vo='A'))
    return cases


def gen_boundary(ctx):
    rng = ctx.rng
    H = enc([0xFF0, 48 + 4, 48 + 100, 49, 50, 51])
    P = enc([2048 + 10, 2048 - 20, 2048 + 30, 2049, 2047, 2053])
    Z = enc([0xFF0, 48, 148, 48, 48, 48])
    cases = []
    for dt in ('f4', 'f8'):
        for po in ('A', 'F', 'S0', 'S1', 'S2', 'S3', 'S5'):
            for vo in ('A', 'F', 'S0', 'S1', 'S2', 'S3', 'S5'):
                for recs, kind in (([H, P, P], 'basic'), ([], 'empty'), ([H], 'header-only'), ([H, H, H], 'header-only'),
                                   ([P, P], 'no-leading-header'), ([P, H, P], 'no-leading-header'),
                                   ([H, P, H, H, P, P], 'basic')):
                    c = mk_case(kind, recs, rng, dtype=dt, po=po, vo=vo, pyfunc=True)
                    c['box'], c['velz'] = 1000.0, 2.5
                    cases.append(c)
        for recs in ([Z], [H, P, Z, P], [Z, P], [P, Z]):
            for po, vo in (('A', 'A'), ('F', 'A'), ('S0', 'F')):
                cases.append(mk_case('zero-cpd', recs, rng, dtype=dt, po=po, vo=vo))
    # 0xFF in a byte other than the first is not a header; first byte 0xFE is not a header
    for c0 in (0xFE, 0xFF, 0x00, 0x7F, 0xF0):
        for pos in range(1, 9):
            r = [int(v) for v in rng.integers(0, 255, 9)]
            r[0] = c0
            r[pos] = 0xFF
            if r[0] == 255 and dec(r)[1] == 48:
                r[2] = 50
            cases.append(mk_case('ff-byte', [H, r, P], rng, po='A', vo='A', pyfunc=True))
    return cases


def gen_malformed(ctx, n):
    """short supplied outputs (IndexError under bounds checking), cpd = 0 in random places"""
    rng = ctx.rng
    cases = []
    for s in range(n):
        m = int(rng.integers(1, 12))
        recs = [enc(rand_header(rng))]
        for i in range(m):
            r = rng.random()
            if r < 0.15:
                recs.append(enc(rand_header(rng)))
            elif r < 0.25 and s % 2 == 0:
                recs.append(enc([0xFF3, 48, 5, 48, 49, 50]))
            else:
                recs.append(enc(rand_particle(rng)))
        cases.append(mk_case('malformed', recs, rng, allow_short=True))
    return cases


# ----------------------------------------------------------------------------- model side

def model_line(c):
    box = Fraction(float(DT[c['dtype']](c['box'])))
    velz = Fraction(float(DT[c['dtype']](c['velz'])))
    return 'unpack %s %s %s %s %s' % (frac_s(box), frac_s(velz), c['po'], c['vo'], c['hex'])


def frac_s(q):
    return '%d/%d' % (q.numerator, q.denominator) if q.denominator != 1 else '%d' % q.numerator


def pval(s):
    return None if s == 'nan' else Fraction(s)


def prow(s):
    return [pval(x) for x in s.split(',')]


def parse_model(s):
    if s.startswith('err '):
        return {'err': s[4:]}
    if not s.startswith('ok '):
        return {'err': 'protocol:' + s[:60]}
    d = dict(p.split('=', 1) for p in s.split(' ')[1:])

    def ret(x):
        if x.startswith('cnt:'):
            return int(x[4:])
        body = x[4:]
        return [] if body == '-' else [None if r == 'uninit' else prow(r) for r in body.split(';')]

    def ws(x):
        if x == '-':
            return []
        out = []
        for w in x.split(';'):
            k, v = w.split(':', 1)
            out.append((int(k), prow(v)))
        return out
    return {'npart': int(d['npart']), 'rp': ret(d['rp']), 'rv': ret(d['rv']), 'pw': ws(d['pw']), 'vw': ws(d['vw'])}


# ----------------------------------------------------------------------------- implementation side

def run_impl(c, entry):
    """-> dict(err=...) or dict(rp=, rv=, posbuf=, velbuf=) with arrays"""
    from abacusnbody.data import pack9
    recs = recs_of_hex(c['hex'])
    data = np.array(recs, dtype=np.uint8).reshape(len(recs), 9)
    dt = DT[c['dtype']]

    def buf(o):
        if o.startswith('S'):
            return np.full((int(o[1:]), 3), SENT, dtype=dt)
        return None
    pb, vb = buf(c['po']), buf(c['vo'])
    try:
        if entry == 'compiled':
            kw = {}
            if c['po'] == 'F':
                kw['posout'] = False
            elif pb is not None:
                kw['posout'] = pb
            if c['vo'] == 'F':
                kw['velout'] = False
            elif vb is not None:
                kw['velout'] = vb
            rp, rv = pack9.unpack_pack9(data, c['box'], c['velz'], float_dtype=dt, **kw)
        else:
            # the body of unpack_pack9 around the pure-Python kernel
            n = len(data)
            _p = np.full((n, 3), SENT, dtype=dt) if c['po'] == 'A' else pb
            _v = np.full((n, 3), SENT, dtype=dt) if c['vo'] == 'A' else vb
            with warnings.catch_warnings(), np.errstate(all='ignore'):
                warnings.simplefilter('ignore')
                npart = pure(pack9._unpack_pack9)(data, c['box'], c['velz'], _p, _v, dt)
            rp = _p[:npart] if c['po'] == 'A' else (0 if c['po'] == 'F' else npart)
            rv = _v[:npart] if c['vo'] == 'A' else (0 if c['vo'] == 'F' else npart)
    except ZeroDivisionError:
        return {'err': 'rejected'}
    except IndexError:
        return {'err': 'oob'}
    return {'rp': rp, 'rv': rv, 'posbuf': pb, 'velbuf': vb}


def close(c, got, exp, mag):
    """got: float from the implementation; exp: Fraction or None (NaN); mag: magnitude of the summed terms"""
    if exp is None:
        return bool(np.isnan(got))
    if np.isnan(got) or np.isinf(got):
        return False
    tol = KULP * EPS[c['dtype']] * float(mag)
    return abs(Fraction(float(got)) - exp) <= Fraction(tol)


def cmp_rows(c, arr, rows, mags, what):
    """arr (k,3) ndarray vs list of rows of Fractions/None; returns first mismatch description or None"""
    if arr.shape != (len(rows), 3):
        return '%s shape %s, expected (%d, 3)' % (what, arr.shape, len(rows))
    if arr.dtype != DT[c['dtype']]:
        return '%s dtype %s' % (what, arr.dtype)
    for i, (row, mg) in enumerate(zip(rows, mags)):
        for k in range(3):
            if not close(c, arr[i, k], row[k], mg[k]):
                return '%s[%d,%d] = %r, expected %s' % (what, i, k, float(arr[i, k]),
                                                         'nan' if row[k] is None else float(row[k]))
    return None


def expected_from(c, npart, prows, vrows):
    """what the call must return / leave in supplied buffers, given the particle list"""
    exp = {}
    for name, o, rows in (('p', c['po'], prows), ('v', c['vo'], vrows)):
        if o == 'A':
            exp[name] = ('arr', rows)
        elif o == 'F':
            exp[name] = ('cnt', 0)
        else:
            exp[name] = ('cnt', npart)
    return exp


def check_against(c, r, npart, prows, vrows, pmags, vmags):
    """compare an implementation result with a particle list; -> None or a description"""
    for name, o, ret, bufr, rows, mags in (('pos', c['po'], r['rp'], r['posbuf'], prows, pmags),
                                           ('vel', c['vo'], r['rv'], r['velbuf'], vrows, vmags)):
        if o == 'A':
            if not isinstance(ret, np.ndarray):
                return '%s return is %r, expected an array' % (name, ret)
            m = cmp_rows(c, ret, rows, mags, name)
            if m:
                return m
        elif o == 'F':
            if isinstance(ret, np.ndarray) or ret != 0:
                return '%s return is %r, expected 0' % (name, ret)
        else:
            if isinstance(ret, np.ndarray) or int(ret) != npart:
                return '%s return is %r, expected the count %d' % (name, ret, npart)
            L = int(o[1:])
            m = cmp_rows(c, bufr[:npart], rows, mags, name + 'out')
            if m:
                return m
            if not np.all(bufr[npart:] == DT[c['dtype']](SENT)):
                return '%s rows beyond npart=%d were written (L=%d)' % (name + 'out', npart, L)
    return None


def check_case(ctx, c, mres, entries=('compiled', 'py_func')):
    recs = recs_of_hex(c['hex'])
    m = parse_model(mres)
    dt = DT[c['dtype']]
    box = float(dt(c['box']))
    velz = float(dt(c['velz']))
    orc = oracle_decode(recs, box, velz)
    nhdr = sum(1 for r in recs if r[0] == 255)
    ctx.case(c, nontrivial=len(recs) > 0, key=[c['hex'], c['po'], c['vo'], c['dtype'], c['box'], c['velz']])
    ctx.count('kind:' + c['kind'])
    ctx.count('dtype:' + c['dtype'])
    ctx.count('opts:%s%s' % (c['po'][0], c['vo'][0]))
    ctx.count('records', len(recs))
    ctx.count('headers', nhdr)
    # ---- what the property demands (oracle)
    if orc == 'zerodiv':
        o_exp = {'err': 'rejected'}
    else:
        npart = len(orc)
        short = any(o.startswith('S') and int(o[1:]) < npart for o in (c['po'], c['vo']))
        o_exp = {'err': 'oob'} if short else {'npart': npart}
    ctx.count('outcome:' + o_exp.get('err', 'ok'))
    # the zero-cpd header may come after a short-output fault or before it: the first one in stream order wins
    if orc == 'zerodiv':
        o_exp = None   # decided by the model; the oracle only demands *an* error
    for entry in entries:
        if entry == 'py_func' and (not c.get('pyfunc') or orc == 'zerodiv'):
            continue    # (pure Python float division by a zero cpd gives inf, not an exception: numpy semantics, not numba's)
        ctx.count('entry:' + entry)
        r = run_impl(c, entry)
        # ---- oracle vs implementation
        if orc == 'zerodiv':
            if 'err' not in r:
                ctx.fail('pack9[%s]: a header with cells-per-dimension 0 was accepted' % entry, c, 'returned', 'an error',
                         key='pack9:zero-cpd')
        elif 'err' in o_exp:
            if r.get('err') != 'oob':
                ctx.fail('pack9[%s]: supplied output shorter than the particle count' % entry, c, r.get('err', 'returned'),
                         'IndexError', key='pack9:short-output')
        else:
            if 'err' in r:
                ctx.fail('pack9[%s]: well-formed call raised' % entry, c, r['err'], 'ok', key='pack9:raised')
            else:
                why = check_against(c, r, len(orc), [p[0] for p in orc], [p[1] for p in orc],
                                    [p[2] for p in orc], [p[3] for p in orc])
                if why:
                    kind = 'no-header' if c['kind'] == 'no-leading-header' else 'decode'
                    ctx.fail('pack9[%s]: result differs from the documented format' % entry, c, why,
                             'one particle per non-header record, decoded relative to the latest header', key='pack9:' + kind)
        # ---- model vs implementation
        if 'err' in m or 'err' in r:
            if m.get('err') != r.get('err'):
                ctx.disagree('unpack_pack9[%s] outcome' % entry, c, m.get('err', 'ok'), r.get('err', 'ok'))
            continue
        # model particle list from its write lists / returned slices
        npart = m['npart']
        if orc != 'zerodiv' and len(orc) == npart:
            pm, vm = [p[2] for p in orc], [p[3] for p in orc]
        else:
            pm = vm = [[1.0] * 3] * npart
        prows = m['rp'] if isinstance(m['rp'], list) else [w[1] for w in m['pw']]
        vrows = m['rv'] if isinstance(m['rv'], list) else [w[1] for w in m['vw']]
        bad = None
        if c['po'] != 'F' and ([w[0] for w in m['pw']] != list(range(npart)) or None in prows):
            bad = 'model position writes are not 0..npart-1'
        if c['vo'] != 'F' and ([w[0] for w in m['vw']] != list(range(npart)) or None in vrows):
            bad = 'model velocity writes are not 0..npart-1'
        if bad is None:
            # model return values
            for o, mr in ((c['po'], m['rp']), (c['vo'], m['rv'])):
                want = None if o == 'A' else (0 if o == 'F' else npart)
                if want is not None and mr != want:
                    bad = 'model return %r for option %s' % (mr, o)
        if bad is None:
            bad = check_against(c, r, npart, prows if c['po'] != 'F' else [], vrows if c['vo'] != 'F' else [], pm, vm)
        if bad:
            ctx.disagree('unpack_pack9[%s] result' % entry, c, bad, 'see case')


def check_expand(ctx, n_random):
    """_expand_to_short (compiled) vs model `expand` vs oracle dec() − 2048; and model `pack` vs oracle enc()"""
    from abacusnbody.data import pack9
    rng = ctx.rng
    recs = []
    for j in range(6):
        for v in range(4096):
            f = [int(x) for x in rng.integers(0, 4096, 6)]
            f[j] = v
            recs.append(enc(f))
    recs += [[int(b) for b in r] for r in rng.integers(0, 256, (n_random, 9))]
    recs += [[0] * 9, [255] * 9, [0xF0] * 9, [0x0F] * 9]
    if not ctx.quick:
        # all 256^2 values of each byte pair that shares a nibble byte: (c0,c1), (c1,c2), (c3,c4), (c4,c5), (c6,c7), (c7,c8)
        for a, b in ((0, 1), (1, 2), (3, 4), (4, 5), (6, 7), (7, 8)):
            base = rng.integers(0, 256, (65536, 9))
            base[:, a] = np.repeat(np.arange(256), 256)
            base[:, b] = np.tile(np.arange(256), 256)
            recs += base.tolist()
        ctx.count('byte-pair-sweeps', 6)
    outs = ctx.driver.query(['expand ' + hexstream([r]) for r in recs])
    outs2 = ctx.driver.query(['pack ' + ','.join(str(v) for v in dec(r)) for r in recs])
    s = np.empty(6, dtype=np.int16)
    for r, mo, mp in zip(recs, outs, outs2):
        ctx.evaluations += 1
        pack9._expand_to_short(np.array(r, dtype=np.uint8), s)
        impl = [int(v) for v in s]
        want = [v - 2048 for v in dec(r)]
        model = [int(v) for v in mo[3:].split(',')] if mo.startswith('ok ') else mo
        if impl != want:
            ctx.fail('_expand_to_short differs from the documented nibble layout', dict(kind='expand', rec=r), impl, want,
                     key='pack9:expand')
        if model != impl:
            ctx.disagree('_expand_to_short', dict(kind='expand', rec=r), model, impl)
        if mp != 'ok ' + hexstream([r]):
            ctx.disagree('model pack is not the inverse of the documented layout', dict(kind='pack', rec=r), mp, hexstream([r]))
    ctx.count('expand-records', len(recs))
    ctx.distinct.add(b'expand-sweep')


def corpus_cases():
    from vcommon import CORPUS
    out = []
    d = CORPUS / 'C15'
    if d.is_dir():
        for p in sorted(d.glob('*.json')):
            out.append(json.loads(p.read_text()))
    return out


def run_cases(ctx, cases):
    outs = ctx.driver.query([model_line(c) for c in cases])
    for c, mres in zip(cases, outs):
        check_case(ctx, c, mres)


def check_supplied_other_dtype(ctx):
    """'the result does not depend ... on the float type beyond rounding, or on preallocated outputs': a supplied
    output buffer of the OTHER float type than `float_dtype` must receive the same particles (to float32 rounding of
    the box scale) as the allocated result, and the count must be returned.  (Oracle on the implementation only.)"""
    from abacusnbody.data import pack9
    rng = ctx.rng
    for trial in range(ctx.pick(12, 60)):
        n = int(rng.integers(1, 12))
        data = rng.integers(0, 256, (n, 9)).astype(np.uint8)
        hdr = rng.random(n) < 0.3
        hdr[0] = True
        data[hdr, 0] = 0xFF
        data[~hdr, 0] = np.minimum(data[~hdr, 0], 0xFE)
        # keep cells-per-dimension away from 0: field 1 of a header is bytes 1 (high nibble) and 2
        data[hdr, 1] |= 0x80
        box, velz = float(rng.choice([500.0, 2000.0])), float(rng.choice([100.0, 1234.5]))
        for fd, od in ((np.float32, np.float64), (np.float64, np.float32)):
            for which in ('pos', 'vel', 'both'):
                case = dict(kind='supplied-other-dtype', hex=data.tobytes().hex(), box=box, velz=velz,
                            float_dtype=np.dtype(fd).name, buffer_dtype=np.dtype(od).name, which=which)
                ctx.case(case)
                ctx.count('kind:supplied-other-dtype')
                ap, av = pack9.unpack_pack9(data, box, velz, float_dtype=fd)
                npart = len(ap)
                pb = np.full((n, 3), SENT, dtype=od)
                vb = np.full((n, 3), SENT, dtype=od)
                kw = dict(posout=pb if which in ('pos', 'both') else False, velout=vb if which in ('vel', 'both') else False)
                rp, rv = pack9.unpack_pack9(data, box, velz, float_dtype=fd, **kw)
                for name, ret, bufr, alloc, scale in (('pos', rp, pb, ap, box), ('vel', rv, vb, av, velz * 3)):
                    if not (which == name or which == 'both'):
                        continue
                    if isinstance(ret, np.ndarray) or int(ret) != npart:
                        ctx.fail('pack9: supplied %sout of another float type: returned %r, expected the count' % (name, ret),
                                 case, repr(ret), npart, key='pack9:supplied-dtype')
                        continue
                    got = bufr[:npart].astype(np.float64)
                    want = alloc.astype(np.float64)
                    ok = np.all((np.abs(got - want) <= 4 * np.finfo(np.float32).eps * abs(scale)) | (np.isnan(got) & np.isnan(want)))
                    if not ok:
                        ctx.fail('pack9: a supplied %sout buffer of dtype %s (float_dtype=%s) does not receive the decoded particles'
                                 % (name, np.dtype(od).name, np.dtype(fd).name), case, bufr[:min(npart, 3)].tolist(),
                                 alloc[:min(npart, 3)].tolist(), key='pack9:supplied-dtype')


def run(ctx):
    check_supplied_other_dtype(ctx)
    corpus = corpus_cases()
    ctx.count('corpus', len(corpus))
    cases = list(corpus)
    cases += gen_boundary(ctx)
    cases += gen_random_streams(ctx, ctx.pick(300, 3000))
    cases += gen_malformed(ctx, ctx.pick(60, 400))
    cases += gen_sweeps(ctx)
    run_cases(ctx, cases)
    check_expand(ctx, ctx.pick(2000, 50000))
    ctx.extra['scope'] = ('all 4096 values of each particle field and each header field; random/raw streams up to 40 records; '
                          'option pairs {A,F,S<len>}^2; float32 and float64')


def intensify(ctx):
    cases = gen_random_streams(ctx, 3000) + gen_malformed(ctx, 300)
    if ctx.driver.error:
        outs = ['err driver'] * len(cases)
    else:
        outs = ctx.driver.query([model_line(c) for c in cases])
    for c, mres in zip(cases, outs):
        check_case(ctx, c, mres)


def replay(ctx, doc):
    c = doc['failure']['case'] if 'failure' in doc else doc
    if c.get('kind') in ('expand', 'pack'):
        print(json.dumps(c))
        check_expand(ctx, 10)
        return
    mres = ctx.driver.query([model_line(c)])[0]
    print('model:', mres[:2000])
    check_case(ctx, c, mres)
