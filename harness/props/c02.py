"""C02 — a halo column's values do not depend on what else was requested (DESIGN.md §7 C02).

extract : the shared translator (harness/extract/loaders.py) regenerates Generated/Loaders.lean + Dtypes.lean.
run     : on random catgen catalogs (snapshot with cleaning files, light cone), the real CompaSOHaloCatalog is
          loaded with many `fields` requests: every valid column alone, random subsets in random order,
          'all', the defaults; cleaned on/off; subsamples off / A / B / A+B.
          * oracle (the property itself): a column's values are bit-identical (dtype, shape, bytes) in
            every load that contains it, and no valid request raises                        -> fail
          * correspondence: the compiled model (`drv_c02`, Model/C02.lean) is given the same request and
            must predict cat.fields, cat.cleaned_fields, dependency_info (fields_with_deps, extra_fields,
            raw_dependencies as a set), the final column names / dtypes / shapes, and for every column a
            value term (loader closure applications and dtype casts) which the harness evaluates with the
            real closures on catgen's raw arrays and compares bit for bit with the loaded column
                                                                                              -> disagree
          * passthrough mode (`passthrough=True`, snapshot catalogs): 'all', `['N']` and random lists of raw / cleaned
            raw columns (index columns, repeats, unknown names; any order) x cleaned on/off x subsamples off /
            dict(A, rvint) / dict(B, packedpid) / True (a fresh dict per load): every returned column bytewise equal
            to the `fields='all'` passthrough load and to catgen's raw array; no valid request raises; the model
            (`loadpt`) predicts fields, dependency info, final columns, dtypes and values          -> fail / disagree
          * edge requests (repeats, unknown / wrong-kind names, empty lists; fixed list + random): the real
            class, the model and `validRequest` (the guard of the theorem no_request_dependent_failure, evaluated
            by the driver) must agree on accept / reject; a request the guard accepts and the real class
            rejects is an oracle failure                                                      -> fail / disagree
"""
import json
import re
import warnings

import numpy as np

THEOREMS = [
    'AbacusVerif.Fields.deps_order',
    'AbacusVerif.Fields.deps_ok',
    'AbacusVerif.Fields.column_independent',
    'AbacusVerif.Fields.column_independent_pair',
    'AbacusVerif.Fields.no_request_dependent_failure_partial',
    'AbacusVerif.Fields.no_request_dependent_failure',
    'AbacusVerif.Fields.generated_wfFull',
    'AbacusVerif.Fields.datamodel_provides',
    'AbacusVerif.Fields.all_and_defaults_valid',
    'AbacusVerif.Fields.snapshot_constructs',
    'AbacusVerif.Fields.passthrough_table',
    'AbacusVerif.Fields.passthrough_column_independent',
    'AbacusVerif.Fields.passthrough_column_independent_pair',
    'AbacusVerif.Fields.passthrough_no_request_dependent_failure',
    'AbacusVerif.Fields.pt_datamodel_files',
    'AbacusVerif.Fields.setupFields_index_cols',
    'AbacusVerif.Fields.generated_wf',
    'AbacusVerif.Fields.generated_wf2',
]
LEAN_MODULES = ['AbacusVerif.Props.C02']
DRIVER = 'drv_c02'
RULE = ('one case = one constructor call of the real class (catalog, cleaned, subsample selection, fields request) '
        'whose every returned column is compared with the same column loaded alone / through "all" / the defaults and '
        'with the model; non-trivial when the request is a list (not all/default) or carries subsamples; '
        'distinct = distinct (layout, cleaned, subsamples, request list in order)')
TRUSTED = ['astropy Table column views / in-place assignment (halos[k][:] = v) behave as numpy assignment with casting',
           'harness/catgen.py defines the raw records',
           'npstart/npout{A,B} are re-indexed when subsamples are loaded (documented): they are compared only between '
           'loads with the same subsample selection']
ASSUMPTIONS = ['a "valid" request is a list of distinct declared column names that exist for the catalog kind '
               '(cleaning columns only with cleaned=True; light cones: L2 columns and halo_lc_dt columns)']

SUBS = {'-': False, 'A': dict(A=True, rv=True), 'B': dict(B=True, pid=True), 'AB': dict(A=True, B=True, pos=True, pid=True)}
INDEX_COLS = ('npstartA', 'npstartB', 'npoutA', 'npoutB')


# --------------------------------------------------------------------------- catalogs and loads

class World:
    """one synthetic catalog + the per-mode truth tables"""

    def __init__(self, ctx, tag, layout, catseed):
        import catgen
        import os
        self.layout = layout
        self.catseed = catseed
        rng = np.random.default_rng(catseed)
        root = os.path.join(ctx.tmpdir(), tag)
        if layout == 'lc':
            self.cat = catgen.make_lc_catalog(root, rng, nhalo=int(rng.integers(4, 9)))
        else:
            self.cat = catgen.make_catalog(root, rng, nslabs=2, nhalos=(2, 5), cleaned=True)
        self.raw = {k: np.concatenate([s.raw[k] for s in self.cat.slabs]) for k in self.cat.slabs[0].raw}
        self.clean = {}
        if layout != 'lc':
            self.clean = {k: np.concatenate([s.clean[k] for s in self.cat.slabs]) for k in self.cat.slabs[0].clean}
        self.cache = {}

    def load(self, ctx, fields, cleaned, sub):
        """-> ('ok', cat) | ('err', exception)"""
        import catgen
        key = (json.dumps(fields), cleaned, sub)
        if key in self.cache:
            return self.cache[key]
        kw = dict(fields=fields, subsamples=dict(SUBS[sub]) if SUBS[sub] else False)
        if self.layout != 'lc':
            kw['cleaned'] = cleaned
        try:
            c = catgen.load(self.cat, **kw)
            res = ('ok', c)
        except Exception as ex:      # the oracle decides whether this request was valid
            res = ('err', ex)
        ctx.count('loads')
        if isinstance(fields, str) or len(fields) == 1:
            self.cache[key] = res
        return res


def snapshot(col):
    a = np.asarray(col)
    return (str(a.dtype), a.shape, a.tobytes())


def same(x, y):
    return x[0] == y[0] and x[1] == y[1] and x[2] == y[2]


def valid_names(dts, layout, cleaned):
    user = [r[0] for r in dts['user_dt']]
    if layout == 'lc':
        lc = [r[0] for r in dts['halo_lc_dt']]
        return [n for n in dict.fromkeys(user + lc) if 'L2' in n or n in lc]
    if cleaned:
        return user + [r[0] for r in dts['clean_dt_progen']]
    return list(user)


def out_name(name, cleaned, layout):
    """the column under which a requested name is returned"""
    if layout != 'lc' and cleaned and name in ('N', 'N_total'):
        return 'N'
    return name


def default_names(dts, layout, cleaned):
    user = [r[0] for r in dts['user_dt']]
    if layout == 'lc':
        return valid_names(dts, layout, cleaned)
    return user + ([r[0] for r in dts['clean_dt']] if cleaned else [])


# --------------------------------------------------------------------------- model

def model_line(world, fields, cleaned, sub):
    req = fields if isinstance(fields, str) else 'list:' + (','.join(fields) if fields else '-')
    req = {'DEFAULT_FIELDS': 'default'}.get(req, req)
    ab = {'-': '-', 'A': 'A', 'B': 'B', 'AB': 'A,B'}[sub]
    import catgen
    return 'load %s %d %s %d %d %s %s' % (req, int(cleaned), ab, int(world.layout == 'lc'), catgen.NPREV,
                                         ','.join(world.raw), ','.join(world.clean) if world.clean else '-')


def parse_list(s):
    return [] if s == '-' else s.split(',')


def parse_term(s):
    """`<f32>name(arg,arg)` -> ('cast', 'f32', term) | ('app', name, [terms]) | ('uninit',)"""
    pos = [0]

    def term():
        if s[pos[0]] == '?':
            pos[0] += 1
            return ('uninit',)
        if s[pos[0]] == '<':
            j = s.index('>', pos[0])
            dt = s[pos[0] + 1:j]
            pos[0] = j + 1
            return ('cast', dt, term())
        j = s.index('(', pos[0])
        name = s[pos[0]:j]
        pos[0] = j + 1
        args = []
        while s[pos[0]] != ')':
            args.append(term())
            if s[pos[0]] == ',':
                pos[0] += 1
        pos[0] += 1
        return ('app', name, args)
    t = term()
    assert pos[0] == len(s), s
    return t


def parse_model(s):
    if not s.startswith('ok '):
        return {'err': s}
    parts = dict(p.split('=', 1) for p in s[3:].split(' '))
    cols = []
    if parts['cols'] != '-':
        for item in parts['cols'].split(';'):
            n, dt, term = item.split(':', 2)
            cols.append((n, dt, term))
    return {'fields': parse_list(parts['fields']), 'cleaned': parse_list(parts['cleaned']),
            'fwd': parse_list(parts['fwd']), 'extra': parse_list(parts['extra']), 'raw': parse_list(parts['raw']),
            'cols': cols}


def np_dtype(dt):
    m = re.fullmatch(r'([uif])(\d+)((?:x\d+)*)', dt)
    base = np.dtype('%s%d' % (m[1], int(m[2]) // 8))
    shape = tuple(int(x) for x in m[3].split('x')[1:])
    return base, shape


class TermEval:
    """evaluates the model's value terms with the real closures on catgen's raw arrays"""

    def __init__(self, world, ctx):
        from extract import loaders
        self.loaders = loaders
        mod = loaders.module()
        h = world.cat.header
        self.stub = loaders.make_stub(mod, h['BoxSize'], h['VelZSpace_to_kms'], True)
        self.raw = dict(world.raw)
        self.raw.update(world.clean)
        self.byname = {e['name']: e for e in ctx.loader_table[1]}
        self.memo = {}

    def ev(self, t):
        key = repr(t)
        if key in self.memo:
            return self.memo[key]
        if t[0] == 'uninit':
            raise ValueError('model says the column is never written')
        if t[0] == 'cast':
            base, _ = np_dtype(t[1])
            with np.errstate(invalid='ignore', over='ignore'):
                v = np.asarray(self.ev(t[2])).astype(base)
        else:
            name, args = t[1], t[2]
            if name.startswith('new:'):
                raise KeyError(name)
            if name.startswith('raw:'):          # passthrough: the raw column itself
                v = np.asarray(self.raw[name[4:]])
                self.memo[key] = v
                return v
            e = self.byname[name]
            vals = [self.ev(a) for a in args]

            class H(dict):
                colnames = [name]
            halos = H(zip(e['haloDeps'], vals))
            m, fn = self.loaders.find_loader(self.stub, name)
            with np.errstate(invalid='ignore', over='ignore', divide='ignore'):
                res = fn(m, self.raw, halos)
            v = np.asarray(res[name] if isinstance(res, dict) else res)
        self.memo[key] = v
        return v


def compare_model(ctx, world, case, mres, res, te):
    m = parse_model(mres)
    status, cat = res
    if 'err' in m:
        if status == 'ok':
            ctx.disagree('model rejects a request the real code loads', case, mres, 'loaded')
        return
    if status != 'ok':
        ctx.disagree('model loads a request the real code rejects', case, 'ok', repr(cat)[:200])
        return
    obs = {'fields': list(cat.fields), 'cleaned': list(cat.cleaned_fields),
           'fwd': list(cat.dependency_info['fields_with_deps']), 'extra': list(cat.dependency_info['extra_fields'])}
    for k in obs:
        if obs[k] != m[k]:
            ctx.disagree('model vs real: %s' % k, case, m[k], obs[k])
            return
    if set(cat.dependency_info['raw_dependencies']) != set(m['raw']):
        ctx.disagree('model vs real: raw_dependencies (as sets)', case, sorted(m['raw']), sorted(cat.dependency_info['raw_dependencies']))
        return
    real_cols = [(n, str(cat.halos[n].dtype), tuple(cat.halos[n].shape[1:])) for n in cat.halos.colnames]
    mod_cols = []
    for n, dt, _ in m['cols']:
        base, shape = np_dtype(dt)
        mod_cols.append((n, str(base), shape))
    if real_cols != mod_cols:
        ctx.disagree('model vs real: final columns (name, dtype, shape)', case, mod_cols, real_cols)
        return
    for n, dt, term in m['cols']:
        if term.startswith('new:') or 'new:' in term:
            ctx.count('model:reindexed-column')
            continue
        try:
            v = te.ev(parse_term(term))
        except Exception as ex:
            ctx.disagree('model value term cannot be evaluated', dict(case, column=n), term, repr(ex)[:200])
            continue
        a = np.asarray(cat.halos[n])
        ctx.count('model:value-terms')
        if not (v.dtype == a.dtype and v.shape == a.shape and v.tobytes() == a.tobytes()):
            ctx.disagree('model value term vs loaded column', dict(case, column=n), term,
                         {'loaded': a[:2].tolist(), 'term': np.asarray(v)[:2].tolist(), 'dtypes': [str(a.dtype), str(v.dtype)]})


# --------------------------------------------------------------------------- the oracle

def check_request(ctx, world, dts, fields, cleaned, sub, te, lines_meta):
    """load one request; compare every returned column with its stand-alone load"""
    layout = world.layout
    case = dict(layout=layout, catseed=world.catseed, cleaned=bool(cleaned), subsamples=sub, fields=fields)
    nontrivial = (not isinstance(fields, str)) or sub != '-'
    ctx.case(case, nontrivial=nontrivial)
    ctx.count('request:%s' % ('all' if fields == 'all' else 'default' if fields == 'DEFAULT_FIELDS' else
                             'single' if len(fields) == 1 else 'subset'))
    ctx.count('mode:%s:%s:sub=%s' % (layout, 'cleaned' if cleaned else 'uncleaned', sub))
    res = world.load(ctx, fields, cleaned, sub)
    lines_meta.append((model_line(world, fields, cleaned, sub), case, res))
    status, cat = res
    if status != 'ok':
        ctx.fail('a valid request raises %s' % type(cat).__name__, case, repr(cat)[:300], 'a catalog',
                 key='c02:raises:%s' % type(cat).__name__)
        return
    requested = valid_names(dts, layout, cleaned) if fields == 'all' else \
        default_names(dts, layout, cleaned) if fields == 'DEFAULT_FIELDS' else list(fields)
    for name in requested:
        out = out_name(name, cleaned, layout)
        m = re.fullmatch(r'np(?:start|out)([AB])_merge', name)
        if m and m[1] in sub:
            # consumed by the re-indexing of the subsample columns (`_update_subsample_index_cols`)
            if out in cat.halos.colnames:
                ctx.fail('a merge index column survives the re-indexing', dict(case, column=name), cat.halos.colnames, 'removed',
                         key='c02:merge-column-survives')
            continue
        if out not in cat.halos.colnames:
            ctx.fail('a requested column is missing from the result', dict(case, column=name), cat.halos.colnames, out,
                     key='c02:missing-column')
            continue
        got = snapshot(cat.halos[out])
        if out in INDEX_COLS and sub != '-':
            # re-indexed into the subsample table: compare with fields='all' under the same subsample selection
            rs, rc = world.load(ctx, 'all', cleaned, sub)
            ref_desc = "fields='all', same subsamples"
        else:
            rs, rc = world.load(ctx, [name], cleaned, '-')
            ref_desc = 'fields=[%r] alone, no subsamples' % name
        if rs != 'ok':
            ctx.fail('a valid request raises %s' % type(rc).__name__,
                     dict(case, fields=[name] if 'alone' in ref_desc else 'all'), repr(rc)[:300], 'a catalog',
                     key='c02:raises:%s' % type(rc).__name__)
            continue
        ref = snapshot(rc.halos[out])
        ctx.count('column-comparisons')
        if not same(got, ref):
            a, b = np.asarray(cat.halos[out]), np.asarray(rc.halos[out])
            ctx.fail('column %s differs from %s' % (out, ref_desc), dict(case, column=name),
                     {'dtype': got[0], 'shape': got[1], 'values': a[:3].tolist()},
                     {'dtype': ref[0], 'shape': ref[1], 'values': b[:3].tolist()},
                     key='c02:value-differs')


def flush_model(ctx, world, te, lines_meta):
    if ctx.driver is None or ctx.driver.error or not lines_meta:
        return
    outs = ctx.driver.query([l for l, _, _ in lines_meta])
    for (l, case, res), mres in zip(lines_meta, outs):
        ctx.count('model:requests')
        compare_model(ctx, world, case, mres, res, te)
    lines_meta.clear()


def shared_raw_pairs(entries):
    """(c, d): c's own raw column (same name) is also read by the loader of d"""
    out = []
    for e in entries:
        if e['name'] in e['rawDeps']:
            for o in entries:
                if o['name'] != e['name'] and e['name'] in (o['rawDeps'] + o.get('rawAll', [])):
                    out.append((e['name'], o['name']))
    return out


def special_columns(entries):
    return [e['name'] for e in entries if e['haloDeps'] or e['group']]


def random_subset(rng, names, special, kmax=7):
    k = int(rng.integers(2, kmax + 1))
    pool = list(names)
    picks = []
    # bias towards the columns with dependencies / groups and the columns they depend on
    sp = [n for n in special if n in pool]
    if sp and rng.random() < 0.7:
        picks.append(sp[int(rng.integers(0, len(sp)))])
    while len(picks) < min(k, len(pool)):
        n = pool[int(rng.integers(0, len(pool)))]
        if n not in picks and not (n == 'N_total' and 'N' in picks) and not (n == 'N' and 'N_total' in picks):
            picks.append(n)
    order = rng.permutation(len(picks))
    return [picks[i] for i in order]


def modes_of(world):
    return [('lc', True)] if world.layout == 'lc' else [('snap', True), ('snap', False)]


def subs_of(world):
    return ['-', 'A'] if world.layout == 'lc' else ['-', 'A', 'B', 'AB']


def run_world(ctx, world, dts, entries, n_subsets, alone_all_modes, pairs):
    rng = ctx.rng
    te = TermEval(world, ctx)
    special = special_columns(entries)
    lm = []
    # references: 'all' and the defaults in every mode, with and without subsamples
    for _, cleaned in modes_of(world):
        for sub in subs_of(world):
            check_request(ctx, world, dts, 'all', cleaned, sub, te, lm)
        check_request(ctx, world, dts, 'DEFAULT_FIELDS', cleaned, '-', te, lm)
        check_request(ctx, world, dts, 'DEFAULT_FIELDS', cleaned, subs_of(world)[-1], te, lm)
    flush_model(ctx, world, te, lm)
    # every valid column alone
    for _, cleaned in modes_of(world):
        for name in valid_names(dts, world.layout, cleaned):
            if not alone_all_modes and world.layout == 'snap' and not cleaned and name not in special and rng.random() < 0.75:
                continue
            check_request(ctx, world, dts, [name], cleaned, '-', te, lm)
    flush_model(ctx, world, te, lm)
    # two columns computed from the same raw column, in both orders (a loader must not alter the raw table that a
    # later loader reads: fields are loaded in reverse request order)
    shared = shared_raw_pairs(entries)
    for _, cleaned in modes_of(world):
        names = valid_names(dts, world.layout, cleaned)
        groups = {}
        for c, d in shared:
            if c in names and d in names:
                groups.setdefault(c, []).append(d)
        for c, ds in groups.items():
            picks = ds if pairs else [ds[int(rng.integers(0, len(ds)))]]
            if not pairs and not cleaned and world.layout == 'snap':
                continue                       # quick tier: one mode per catalog is enough
            for d in picks:
                check_request(ctx, world, dts, [c, d], cleaned, '-', te, lm)
                check_request(ctx, world, dts, [d, c], cleaned, '-', te, lm)
    flush_model(ctx, world, te, lm)
    # one index column of a loaded subsample without its partner
    for _, cleaned in modes_of(world):
        idx = [(['npstartA'], 'A'), (['npoutB', 'N'], 'AB')] if world.layout != 'lc' else [(['npstartA'], 'A')]
        if cleaned and world.layout != 'lc':
            idx += [(['npstartA_merge'], 'A'), (['npoutB_merge', 'npstartB'], 'B')]
        for fields, sub in idx:
            check_request(ctx, world, dts, fields, cleaned, sub, te, lm)
    flush_model(ctx, world, te, lm)
    # a column with nothing else but a subsample selection (the automatic index / merge columns)
    for _, cleaned in modes_of(world):
        for sub in subs_of(world)[1:]:
            for name in ['N', 'npoutA']:
                if name in valid_names(dts, world.layout, cleaned):
                    check_request(ctx, world, dts, [name], cleaned, sub, te, lm)
    flush_model(ctx, world, te, lm)
    # random subsets, random order, random mode and subsample selection
    for _ in range(n_subsets):
        _, cleaned = modes_of(world)[int(rng.integers(0, len(modes_of(world))))]
        sub = subs_of(world)[int(rng.integers(0, len(subs_of(world))))] if rng.random() < 0.5 else '-'
        names = valid_names(dts, world.layout, cleaned)
        check_request(ctx, world, dts, random_subset(rng, names, special), cleaned, sub, te, lm)
    flush_model(ctx, world, te, lm)
    # pairs (c, d) for the columns with halo dependencies or groups
    if pairs:
        for _, cleaned in modes_of(world):
            names = valid_names(dts, world.layout, cleaned)
            for c in [n for n in special if n in names]:
                e = next(x for x in entries if x['name'] == c)
                if e['haloDeps'] or c in ('pos_interp', 'vel_interp'):
                    others = [d for d in names if d != c]
                else:
                    others = [g for g in e['group'] if g != c] + [names[int(i)] for i in rng.integers(0, len(names), 4)]
                for d in others:
                    if d == c:
                        continue
                    pair = [c, d] if rng.random() < 0.5 else [d, c]
                    check_request(ctx, world, dts, pair, cleaned, '-', te, lm)
                flush_model(ctx, world, te, lm)


# --------------------------------------------------------------------------- edge requests: the guard `validRequest`

EDGE_FIXED = [
    ('snap', False, '-', ['x_com', 'x_com']), ('snap', False, '-', ['N', 'N']), ('snap', False, 'A', ['npoutA', 'npoutA']),
    ('snap', True, '-', ['N', 'N']), ('snap', True, '-', ['N_total', 'N_total']), ('snap', True, '-', ['haloindex', 'haloindex']),
    ('snap', True, '-', ['N', 'N_total']), ('snap', True, 'A', ['npstartA_merge', 'npstartA_merge']),
    ('snap', False, '-', []), ('snap', True, '-', []), ('snap', False, 'AB', []), ('snap', True, 'AB', []),
    ('snap', False, '-', ['N_total']), ('snap', False, '-', ['foo']), ('snap', True, '-', ['foo']),
    ('lc', True, '-', ['N', 'N']), ('lc', True, '-', ['x_com']), ('lc', True, '-', ['N_total']),
    ('lc', True, '-', ['v_L2com_mainprog']), ('lc', True, 'A', []), ('lc', True, '-', ['x_L2com', 'x_L2com', 'x_com', 'x_com']),
    ('lc', True, 'A', ['haloindex']), ('lc', True, '-', ['foo']), ('lc', True, '-', ['fooL2']),
]


def valid_line(world, fields, cleaned, sub):
    req = 'list:' + (','.join(fields) if fields else '-')
    ab = {'-': '-', 'A': 'A', 'B': 'B', 'AB': 'A,B'}[sub]
    return 'valid %s %d %s %d' % (req, int(cleaned), ab, int(world.layout == 'lc'))


def random_edge(rng, dts, world):
    allnames = [r[0] for t in ('user_dt', 'clean_dt_progen', 'halo_lc_dt') for r in dts[t]] + ['foo', 'fooL2']
    k = int(rng.integers(0, 5))
    picks = [allnames[int(i)] for i in rng.integers(0, len(allnames), k)]
    if picks and rng.random() < 0.5:
        picks.append(picks[int(rng.integers(0, len(picks)))])        # a repeat
    cleaned = bool(rng.integers(0, 2)) if world.layout != 'lc' else True
    sub = subs_of(world)[int(rng.integers(0, len(subs_of(world))))] if rng.random() < 0.4 else '-'
    return (world.layout, cleaned, sub, picks)


def run_edges(ctx, worlds, dts, n_random):
    """accept / reject: the real class, the model of the constructor and the guard of the theorem must agree"""
    if ctx.driver is None or ctx.driver.error:
        return
    cases = [c for c in EDGE_FIXED]
    for w in worlds.values():
        for _ in range(n_random):
            cases.append(random_edge(ctx.rng, dts, w))
    for layout, cleaned, sub, fields in cases:
        w = worlds[layout]
        case = dict(layout=layout, catseed=w.catseed, cleaned=cleaned, subsamples=sub, fields=fields, edge=True)
        status, cat = w.load(ctx, list(fields), cleaned, sub)
        mres, vres = ctx.driver.query([model_line(w, list(fields), cleaned, sub), valid_line(w, fields, cleaned, sub)])
        ctx.case(case, nontrivial=True)
        ctx.count('edge:%s:%s' % (vres, 'loads' if status == 'ok' else 'raises'))
        if mres.startswith('ok') != (status == 'ok'):
            ctx.disagree('model vs real: accept/reject of an edge request', case, mres[:80],
                         'loads' if status == 'ok' else repr(cat)[:200])
        if vres == 'valid' and status != 'ok':
            ctx.fail('a valid request raises %s' % type(cat).__name__, case, repr(cat)[:300], 'a catalog',
                     key='c02:raises:%s' % type(cat).__name__)
        if vres == 'invalid' and status == 'ok':
            ctx.disagree('validRequest (the guard of no_request_dependent_failure) rejects a request the real code loads',
                         case, 'invalid', cat.halos.colnames)


# --------------------------------------------------------------------------- passthrough mode

# a FRESH dict for every load: the reader pops keys from the user's `subsamples` dict
PT_SUBS = {'-': lambda: False, 'A': lambda: dict(A=True, rvint=True), 'B': lambda: dict(B=True, packedpid=True),
           'AB': lambda: True}


def dt_str(arr):
    a = np.asarray(arr)
    return '%s%d%s' % (a.dtype.kind, a.dtype.itemsize * 8, ''.join('x%d' % n for n in a.shape[1:]))


def file_schema(world):
    """column names in FILE order with their dtypes, read back from the first halo_info / cleaned_halo_info file"""
    if not hasattr(world, '_schema'):
        import asdf
        out = []
        for key in ('halo_info', 'clean_info'):
            with asdf.open(world.cat.slabs[0].files[key], lazy_load=True, memmap=False) as af:
                out.append([(k, dt_str(af['data'][k])) for k in af['data']])
        world._schema = tuple(out)
    return world._schema


def load_pt(ctx, world, fields, cleaned, sub):
    import catgen
    key = ('pt', json.dumps(fields), cleaned, sub)
    if key in world.cache:
        return world.cache[key]
    try:
        c = catgen.load(world.cat, fields=list(fields) if not isinstance(fields, str) else fields, cleaned=cleaned,
                        passthrough=True, subsamples=PT_SUBS[sub]())
        res = ('ok', c)
    except Exception as ex:
        res = ('err', ex)
    ctx.count('loads')
    ctx.count('passthrough:loads')
    if isinstance(fields, str):
        world.cache[key] = res
    return res


def model_line_pt(world, fields, cleaned, sub):
    rawf, cleanf = file_schema(world)
    req = fields if isinstance(fields, str) else 'list:' + (','.join(fields) if fields else '-')
    ab = {'-': '-', 'A': 'A', 'B': 'B', 'AB': 'A,B'}[sub]
    return 'loadpt %s %d %s %s %s' % (req, int(cleaned), ab, ','.join('%s:%s' % p for p in rawf),
                                     ','.join('%s:%s' % p for p in cleanf))


def pt_available(world, cleaned):
    rawf, cleanf = file_schema(world)
    return [n for n, _ in rawf] + ([n for n, _ in cleanf] if cleaned else [])


def check_pt_request(ctx, world, fields, cleaned, sub, te, lines_meta, expect_valid=True):
    case = dict(layout='snap', catseed=world.catseed, cleaned=bool(cleaned), subsamples=sub, fields=fields, passthrough=True)
    ctx.case(case, nontrivial=True)
    ctx.count('passthrough:%s:sub=%s' % ('cleaned' if cleaned else 'uncleaned', sub))
    res = load_pt(ctx, world, fields, cleaned, sub)
    lines_meta.append((model_line_pt(world, fields, cleaned, sub), case, res))
    status, cat = res
    if not expect_valid:
        return
    if status != 'ok':
        ctx.fail('passthrough: a valid request raises %s' % type(cat).__name__, case, repr(cat)[:300], 'a catalog',
                 key='c02:passthrough-raises:%s' % type(cat).__name__)
        return
    avail = pt_available(world, cleaned)
    requested = avail if fields == 'all' else [n for n in dict.fromkeys(fields) if n in avail]
    truth = dict(world.raw)
    truth.update(world.clean)
    for name in requested:
        m = re.fullmatch(r'np(?:start|out)([AB])_merge', name)
        if m and cleaned and m[1] in sub:
            continue                                   # consumed by the re-indexing
        if name not in cat.halos.colnames:
            ctx.fail('passthrough: a requested raw column is missing from the result', dict(case, column=name),
                     cat.halos.colnames, name, key='c02:passthrough-missing-column')
            continue
        got = snapshot(cat.halos[name])
        if name in INDEX_COLS and name[-1] in sub:
            rs, rc = load_pt(ctx, world, 'all', cleaned, sub)
            refs = [("fields='all' (passthrough), same subsamples", snapshot(rc.halos[name]) if rs == 'ok' else None)]
        else:
            rs, rc = load_pt(ctx, world, 'all', cleaned, '-')
            refs = [("fields='all' (passthrough), no subsamples", snapshot(rc.halos[name]) if rs == 'ok' else None),
                    ('the raw column written by catgen', snapshot(truth[name]))]
        if rs != 'ok':
            ctx.fail('passthrough: a valid request raises %s' % type(rc).__name__, dict(case, fields='all'), repr(rc)[:300],
                     'a catalog', key='c02:passthrough-raises:%s' % type(rc).__name__)
            continue
        for desc, ref in refs:
            ctx.count('column-comparisons')
            if not same(got, ref):
                ctx.fail('passthrough: column %s differs from %s' % (name, desc), dict(case, column=name),
                         {'dtype': got[0], 'shape': got[1], 'values': np.asarray(cat.halos[name])[:3].tolist()},
                         {'dtype': ref[0], 'shape': ref[1]}, key='c02:passthrough-value-differs')


def random_pt_request(rng, world, cleaned):
    rawf, cleanf = file_schema(world)
    pool = [n for n, _ in rawf] + [n for n, _ in cleanf] + ['foo']
    index = ['N', 'N_total', 'npstartA', 'npoutA', 'npstartB', 'npoutB', 'npstartA_merge', 'npoutB_merge']
    k = int(rng.integers(1, 7))
    picks = [pool[int(i)] for i in rng.integers(0, len(pool), k)]
    if rng.random() < 0.5:
        picks.append(index[int(rng.integers(0, len(index)))])
    if rng.random() < 0.3:
        picks.append(picks[int(rng.integers(0, len(picks)))])
    order = rng.permutation(len(picks))
    return [picks[i] for i in order]


def run_passthrough(ctx, world, n_random):
    rng = ctx.rng
    te = TermEval(world, ctx)
    lm = []
    subs = ['-', 'A', 'B', 'AB']
    for cleaned in (True, False):
        for sub in subs:
            check_pt_request(ctx, world, 'all', cleaned, sub, te, lm)
        # a column that is not an index column, with every subsample selection (the defect repaired in 7d0940d)
        for sub in subs[1:]:
            check_pt_request(ctx, world, ['N'], cleaned, sub, te, lm)
    flush_model(ctx, world, te, lm)
    done = 0
    while done < n_random:
        cleaned = bool(rng.integers(0, 2))
        sub = subs[int(rng.integers(0, 4))]
        fields = random_pt_request(rng, world, cleaned)
        valid = sub != '-' or any(n in pt_available(world, cleaned) for n in fields)
        if not valid:
            continue            # an empty resolved field list is not a valid request
        check_pt_request(ctx, world, fields, cleaned, sub, te, lm)
        done += 1
    # requests that resolve to nothing: model and real class must both reject
    for cleaned, fields in ((False, ['haloindex']), (True, ['foo']), (False, []), (True, 'DEFAULT_FIELDS')):
        check_pt_request(ctx, world, fields, cleaned, '-', te, lm, expect_valid=False)
    flush_model(ctx, world, te, lm)


def corpus_cases():
    from vcommon import CORPUS
    out = []
    d = CORPUS / 'C02'
    if d.is_dir():
        for p in sorted(d.glob('*.json')):
            out.append(json.loads(p.read_text()))
    return out


def run_case(ctx, c, dts, entries, worlds):
    key = (c['layout'], c['catseed'])
    if key not in worlds:
        worlds[key] = World(ctx, 'corpus%d' % len(worlds), c['layout'], c['catseed'])
    w = worlds[key]
    te = TermEval(w, ctx)
    lm = []
    if c.get('passthrough'):
        check_pt_request(ctx, w, c['fields'], c['cleaned'], c['subsamples'], te, lm)
    else:
        check_request(ctx, w, dts, c['fields'], c['cleaned'], c['subsamples'], te, lm)
    flush_model(ctx, w, te, lm)


def extract(ctx):
    from extract import loaders
    loaders.extract(ctx)


def _ensure_table(ctx):
    if not hasattr(ctx, 'loader_table'):
        from extract import loaders
        loaders.extract(ctx)


def run(ctx):
    warnings.simplefilter('ignore')
    _ensure_table(ctx)
    dts, entries = ctx.loader_table
    worlds = {}
    for c in corpus_cases():
        ctx.count('corpus')
        run_case(ctx, c, dts, entries, worlds)
    rng = ctx.rng
    snap = World(ctx, 'snap0', 'snap', int(rng.integers(0, 2 ** 31)))
    lc = World(ctx, 'lc0', 'lc', int(rng.integers(0, 2 ** 31)))
    run_edges(ctx, {'snap': snap, 'lc': lc}, dts, ctx.pick(6, 150))
    run_passthrough(ctx, snap, ctx.pick(14, 200))
    if ctx.quick:
        run_world(ctx, snap, dts, entries, n_subsets=40, alone_all_modes=False, pairs=False)
        run_world(ctx, lc, dts, entries, n_subsets=15, alone_all_modes=True, pairs=False)
    else:
        run_world(ctx, snap, dts, entries, n_subsets=420, alone_all_modes=True, pairs=True)
        run_world(ctx, lc, dts, entries, n_subsets=130, alone_all_modes=True, pairs=True)


def intensify(ctx):
    warnings.simplefilter('ignore')
    _ensure_table(ctx)
    dts, entries = ctx.loader_table
    rng = ctx.rng
    snap = World(ctx, 'isnap', 'snap', int(rng.integers(0, 2 ** 31)))
    run_passthrough(ctx, snap, 100)
    run_world(ctx, snap, dts, entries, n_subsets=150, alone_all_modes=True, pairs=True)


def replay(ctx, doc):
    warnings.simplefilter('ignore')
    _ensure_table(ctx)
    dts, entries = ctx.loader_table
    c = doc['failure']['case'] if 'failure' in doc else doc
    run_case(ctx, {k: c[k] for k in ('layout', 'catseed', 'cleaned', 'subsamples', 'fields', 'passthrough') if k in c},
             dts, entries, {})
