"""
Translator (C09):  /repo/abacusnbody/hod/GRAND_HOD.py  ->  lean/AbacusVerif/Generated/HodWidths.lean

What is extracted, semantically, from the *current working tree* (source of the functions as imported):

1. the WIDTH EXPRESSIONS of the first pass of `gen_cent` and `gen_sats`.  The loop body is executed
   symbolically (a small interpreter over `ast`): names bound from `X_hod_dict['key']` become parameters
   (tracer, key); `arr[i]` of a function parameter becomes the table column that `gen_gals` passes for that
   parameter (resolved at the CALL SITE in `gen_gals`, e.g. `halos_array['hmass']`, `subsample['pweights']`);
   `+`, `*` build sums of products; `10 ** e` and calls of the six occupation functions are kept as nodes;
   `if want_X`, `if enable_ranks`, `if keep_cent[i] == 1 / elif == 2` are decided by the configuration under
   which the body is run (all 8 enable patterns x ranks on/off x central code other/1/2).  The value added to
   a marker must be a product  occupation(args) * factor * factor ...;  it is emitted as a table row
   (pass, tracer, ranks, code, occupation function, argument expressions, other factors);
2. the MARKER STRUCTURE: for every enable pattern, which tracers' widths each of LRG_marker, ELG_marker,
   QSO_marker is the sum of;
3. the COMPARISON CHAIN that assigns keep[i]: per branch the `want_X` guard, the comparison operator, the
   marker compared with randoms[i], and the code written; and the code of the final else.

Anything the interpreter cannot interpret raises TieBroken (reported by vcommon as a broken tie), it never
guesses.  `Props/C09Widths.lean` compares the tables with the specification written from the property
statement by `decide`, so dropping `ic_E`, using the wrong alpha in a conformity branch, starting ELG_marker
from 0, `<` for `<=` or a missing `want_X` guard break a proof deterministically.
"""
from __future__ import annotations

import ast
import inspect
import textwrap
from pathlib import Path

VERIF = Path(__file__).resolve().parent.parent
OUT = VERIF / 'lean' / 'AbacusVerif' / 'Generated' / 'HodWidths.lean'

OCC = ['n_cen_LRG', 'N_cen_ELG_v1', 'N_cen_QSO', 'n_sat_LRG_modified', 'N_sat_elg', 'N_sat_generic']
PARS = ['logM_cut', 'logM1', 'sigma', 'alpha', 'kappa', 'ic', 'Acent', 'Asat', 'Bcent', 'Bsat', 'Ccent', 'Csat',
        'p_max', 'Q', 'gamma', 'A_s', 's', 's_v', 's_p', 's_r', 'logM1_EE', 'alpha_EE', 'logM1_EL', 'alpha_EL',
        'alpha_c', 'alpha_s', 'f_sigv', 'exp_frac', 'exp_scale', 'nfw_rescale']
# table key (as used by gen_gals at the call site) -> column of the specification
KEY2COL = {'hmass': 'mass', 'phmass': 'mass', 'hmultis': 'multis', 'pweights': 'weights',
           'hdeltac': 'deltac', 'pdeltac': 'deltac', 'hfenv': 'fenv', 'pfenv': 'fenv', 'hshear': 'shear',
           'pshear': 'shear', 'pranks': 'ranks', 'pranksv': 'ranksv', 'pranksp': 'ranksp', 'pranksr': 'ranksr',
           'pranksc': 'ranksc', 'hrandoms': 'random', 'prandoms': 'random'}
COLS = ['mass', 'multis', 'weights', 'deltac', 'fenv', 'shear', 'ranks', 'ranksv', 'ranksp', 'ranksr', 'ranksc', 'random']
TRACER_OF_DICT = {'LRG_hod_dict': 'LRG', 'ELG_hod_dict': 'ELG', 'QSO_hod_dict': 'QSO'}
WANT = {'want_LRG': 'LRG', 'want_ELG': 'ELG', 'want_QSO': 'QSO'}
TR = ['LRG', 'ELG', 'QSO']


class TieBroken(Exception):
    pass


# ----------------------------------------------------------------------------- symbolic values
# Poly: ('poly', [term, ...]) with term = [atom, ...]; atom = ('lit', n) | ('par', T, key) | ('col', name)
# ('pow10', poly) ; ('prod', (fn, [arg, ...]), [poly, ...]) ; ('marker', [tracer, ...]) ; ('opaque', why)

def poly(terms):
    return ('poly', terms)


def is_poly(v):
    return v[0] == 'poly'


def p_add(a, b):
    return poly(a[1] + b[1])


def p_mul(a, b):
    return poly([ta + tb for ta in a[1] for tb in b[1]])


class Interp:
    def __init__(self, fn_name, params_cols, par_env, config):
        self.fn = fn_name
        self.cols = params_cols          # parameter name -> column name (or None when not a table column)
        self.env = dict(par_env)         # local name -> symbolic value
        self.cfg = config                # dict(en={T: bool}, ranks=bool, kc=int)
        self.width = {}                  # tracer -> value added to its marker
        self.chain = None
        self.tagname = None              # local that holds the keep code when the chain does not store it directly
        self.keep_from_tag = False

    def fail(self, node, why):
        raise TieBroken('%s line %s: %s (%s)' % (self.fn, getattr(node, 'lineno', '?'), why,
                                                 ast.unparse(node)[:80] if isinstance(node, ast.AST) else node))

    # --- expressions
    def ev(self, e):
        if isinstance(e, ast.Constant):
            if isinstance(e.value, bool) or not isinstance(e.value, (int, float)) or e.value != int(e.value) or e.value < 0:
                self.fail(e, 'constant is not a small non-negative integer')
            return poly([[('lit', int(e.value))]])
        if isinstance(e, ast.Name):
            if e.id in self.env:
                return self.env[e.id]
            self.fail(e, 'name has no symbolic value here')
        if isinstance(e, ast.Subscript):
            if isinstance(e.value, ast.Name) and isinstance(e.slice, ast.Name) and e.slice.id == 'i':
                col = self.cols.get(e.value.id)
                if col is None:
                    self.fail(e, 'array is not a table column passed by gen_gals')
                return poly([[('col', col)]])
            self.fail(e, 'subscript other than <parameter>[i]')
        if isinstance(e, ast.BinOp):
            if isinstance(e.op, ast.Pow):
                if isinstance(e.left, ast.Constant) and e.left.value == 10:
                    x = self.ev(e.right)
                    if not is_poly(x):
                        self.fail(e, 'exponent of 10 ** . is not a sum of products')
                    return ('pow10', x)
                self.fail(e, 'power other than 10 ** .')
            a, b = self.ev(e.left), self.ev(e.right)
            if isinstance(e.op, ast.Add):
                if a[0] == 'marker' or b[0] == 'marker':
                    self.fail(e, 'marker arithmetic outside `marker += width`')
                if is_poly(a) and is_poly(b):
                    return p_add(a, b)
                self.fail(e, 'sum of non-polynomial values')
            if isinstance(e.op, ast.Mult):
                if is_poly(a) and is_poly(b):
                    return p_mul(a, b)
                if a[0] == 'prod' and is_poly(b):
                    return ('prod', a[1], a[2] + [b])
                if b[0] == 'prod' and is_poly(a):
                    return ('prod', b[1], [a] + b[2])
                self.fail(e, 'product that is not occupation(...) * factors')
            self.fail(e, 'operator %s' % type(e.op).__name__)
        if isinstance(e, ast.Call):
            if isinstance(e.func, ast.Name) and e.func.id in OCC:
                if e.keywords:
                    self.fail(e, 'keyword arguments in an occupation call')
                args = [self.ev(a) for a in e.args]
                for a in args:
                    if a[0] not in ('poly', 'pow10'):
                        self.fail(e, 'occupation argument is neither a sum of products nor 10 ** (sum of products)')
                return ('prod', (e.func.id, args), [])
            self.fail(e, 'call of something that is not an occupation function')
        self.fail(e, 'expression form %s' % type(e).__name__)

    # --- conditions
    def cond(self, t):
        if isinstance(t, ast.Name) and t.id in WANT:
            return self.cfg['en'][WANT[t.id]]
        if isinstance(t, ast.Name) and t.id == 'enable_ranks':
            return self.cfg['ranks']
        if (isinstance(t, ast.Compare) and len(t.ops) == 1 and isinstance(t.ops[0], ast.Eq)
                and isinstance(t.left, ast.Subscript) and isinstance(t.left.value, ast.Name)
                and self.cols.get(t.left.value.id) == '@keep_cent' and isinstance(t.comparators[0], ast.Constant)):
            return self.cfg['kc'] == t.comparators[0].value
        return None

    # --- statements
    def ignorable(self, s):
        """a statement that cannot influence widths, markers or keep[i]: a store into (or update of) an element
        of an array that is neither `keep` nor a table column (the per-thread counters — C10's subject), `pass`,
        or an `if` made of such statements"""
        if isinstance(s, ast.Pass):
            return True
        if isinstance(s, (ast.Assign, ast.AugAssign)):
            t = s.targets[0] if isinstance(s, ast.Assign) and len(s.targets) == 1 else getattr(s, 'target', None)
            if isinstance(t, ast.Subscript) and isinstance(t.value, ast.Name):
                return t.value.id != 'keep' and self.cols.get(t.value.id) is None and not t.value.id.endswith('_marker')
            return False
        if isinstance(s, ast.If):
            return all(self.ignorable(x) for x in s.body) and all(self.ignorable(x) for x in s.orelse)
        return False

    def run(self, stmts):
        for s in stmts:
            if isinstance(s, ast.Expr) and isinstance(s.value, ast.Constant):
                continue     # docstring / stray string
            if self.ignorable(s):
                continue
            if self.chain is not None:
                # after the chain only `keep[i] = <tag>` may follow (besides counters)
                if (self.tagname and isinstance(s, ast.Assign) and len(s.targets) == 1
                        and isinstance(s.targets[0], ast.Subscript) and isinstance(s.targets[0].value, ast.Name)
                        and s.targets[0].value.id == 'keep' and isinstance(s.targets[0].slice, ast.Name)
                        and s.targets[0].slice.id == 'i' and isinstance(s.value, ast.Name) and s.value.id == self.tagname):
                    self.keep_from_tag = True
                    continue
                self.fail(s, 'statement after the keep[i] chain inside the first pass')
            if isinstance(s, ast.Assign):
                if len(s.targets) != 1 or not isinstance(s.targets[0], ast.Name):
                    self.fail(s, 'assignment target')
                name = s.targets[0].id
                if name.endswith('_marker'):
                    if isinstance(s.value, ast.Constant) and s.value.value == 0:
                        self.env[name] = ('marker', [])
                    elif isinstance(s.value, ast.Name) and self.env.get(s.value.id, ('x',))[0] == 'marker':
                        self.env[name] = ('marker', list(self.env[s.value.id][1]))
                    else:
                        self.fail(s, 'marker initialised by something other than 0 or another marker')
                else:
                    self.env[name] = self.ev(s.value)
                continue
            if isinstance(s, ast.AugAssign):
                if not (isinstance(s.target, ast.Name) and isinstance(s.op, ast.Add)):
                    self.fail(s, 'augmented assignment')
                name = s.target.id
                if not name.endswith('_marker') or self.env.get(name, ('x',))[0] != 'marker':
                    self.fail(s, '+= on something that is not a marker')
                v = self.ev(s.value)
                if v[0] != 'prod':
                    self.fail(s, 'width is not occupation(...) * factors')
                # which tracer's width is it?  decided by the occupation function's parameters, not by the marker name
                owners = {a[1] for arg in v[1][1] for t in (arg[1] if arg[0] == 'poly' else arg[1][1]) for a in t if a[0] == 'par'}
                owners |= {a[1] for f in v[2] for t in f[1] for a in t if a[0] == 'par'}
                if len(owners) != 1:
                    self.fail(s, 'width mixes parameters of tracers %s' % sorted(owners))
                owner = owners.pop()
                if owner in self.width:
                    self.fail(s, 'second width of tracer %s' % owner)
                self.width[owner] = v
                self.env[name] = ('marker', self.env[name][1] + [owner])
                continue
            if isinstance(s, ast.If):
                if self.is_chain(s):
                    self.chain = self.read_chain(s)
                    continue
                c = self.cond(s.test)
                if c is None:
                    self.fail(s.test, 'condition is not want_X / enable_ranks / keep_cent[i] == k')
                self.run(s.body if c else s.orelse)
                continue
            self.fail(s, 'statement form %s' % type(s).__name__)

    def finish(self):
        if self.chain is None:
            raise TieBroken('%s: keep[i] chain not found' % self.fn)
        if self.tagname and not self.keep_from_tag:
            raise TieBroken('%s: the chain sets `%s` but it is never stored to keep[i]' % (self.fn, self.tagname))

    def is_chain(self, s):
        return any(isinstance(n, ast.Subscript) and isinstance(n.value, ast.Name) and self.cols.get(n.value.id) == 'random'
                   for n in ast.walk(s.test))

    def read_chain(self, s):
        rows = []
        while True:
            t = s.test
            guard = None
            cmp_ = t
            if isinstance(t, ast.BoolOp) and isinstance(t.op, ast.And) and len(t.values) == 2 and \
                    isinstance(t.values[0], ast.Name) and t.values[0].id in WANT:
                guard = WANT[t.values[0].id]
                cmp_ = t.values[1]
            if not (isinstance(cmp_, ast.Compare) and len(cmp_.ops) == 1 and isinstance(cmp_.left, ast.Subscript)
                    and isinstance(cmp_.left.value, ast.Name) and self.cols.get(cmp_.left.value.id) == 'random'
                    and isinstance(cmp_.comparators[0], ast.Name) and cmp_.comparators[0].id.endswith('_marker')):
                self.fail(t, 'chain test is not [want_X and] randoms[i] <op> X_marker')
            op = {ast.LtE: 'le', ast.Lt: 'lt', ast.GtE: 'ge', ast.Gt: 'gt'}.get(type(cmp_.ops[0]))
            if op is None:
                self.fail(t, 'comparison operator')
            mk = {'LRG_marker': 'LRG', 'ELG_marker': 'ELG', 'QSO_marker': 'QSO'}.get(cmp_.comparators[0].id)
            if mk is None:
                self.fail(t, 'unknown marker')
            rows.append((guard, op, mk, self.keep_code(s.body)))
            if len(s.orelse) == 1 and isinstance(s.orelse[0], ast.If):
                s = s.orelse[0]
                continue
            return rows, self.keep_code(s.orelse)

    def keep_code(self, body):
        """the code a branch gives the row: `keep[i] = <const>` directly, or `<local> = <const>` with the same
        local in every branch (stored to keep[i] after the chain); other statements of the branch must be counters"""
        direct, tagged = [], []
        for st in body:
            if isinstance(st, ast.Assign) and len(st.targets) == 1 and isinstance(st.value, ast.Constant) \
                    and isinstance(st.value.value, int) and not isinstance(st.value.value, bool):
                t = st.targets[0]
                if isinstance(t, ast.Subscript) and isinstance(t.value, ast.Name) and t.value.id == 'keep' and \
                        isinstance(t.slice, ast.Name) and t.slice.id == 'i':
                    direct.append(int(st.value.value))
                    continue
                if isinstance(t, ast.Name):
                    tagged.append((t.id, int(st.value.value)))
                    continue
            if not self.ignorable(st):
                self.fail(st, 'statement in a chain branch that is neither the keep code nor a counter')
        if len(direct) == 1 and not tagged and self.tagname is None:
            return direct[0]
        if len(tagged) == 1 and not direct and self.tagname in (None, tagged[0][0]):
            self.tagname = tagged[0][0]
            return tagged[0][1]
        self.fail(body[0] if body else 'empty', 'branch does not give the row exactly one constant keep code')


# ----------------------------------------------------------------------------- reading the source

def _fdef(G, name):
    f = getattr(G, name)
    f = getattr(f, 'py_func', f)
    tree = ast.parse(textwrap.dedent(inspect.getsource(f)))
    fd = tree.body[0]
    if not isinstance(fd, ast.FunctionDef) or fd.name != name:
        raise TieBroken('source of %s is not a function definition' % name)
    return fd


def _table_key(e):
    """halos_array['k'] | subsample['k'] | X.get('k', ...) -> 'k'"""
    if isinstance(e, ast.Subscript) and isinstance(e.value, ast.Name) and isinstance(e.slice, ast.Constant):
        return e.slice.value
    if isinstance(e, ast.Call) and isinstance(e.func, ast.Attribute) and e.func.attr == 'get' and e.args and \
            isinstance(e.args[0], ast.Constant):
        return e.args[0].value
    return None


def call_site_columns(G, callee):
    """parameter name of `callee` -> column, from the call in gen_gals"""
    gg = _fdef(G, 'gen_gals')
    fd = _fdef(G, callee)
    params = [a.arg for a in fd.args.args]
    calls = [n for n in ast.walk(gg) if isinstance(n, ast.Call) and isinstance(n.func, ast.Name) and n.func.id == callee]
    if len(calls) != 1:
        raise TieBroken('gen_gals calls %s %d times' % (callee, len(calls)))
    c = calls[0]
    if c.keywords or len(c.args) != len(params):
        raise TieBroken('call of %s in gen_gals does not pass every parameter positionally' % callee)
    cols = {}
    for p, a in zip(params, c.args):
        k = _table_key(a)
        if k in KEY2COL:
            cols[p] = KEY2COL[k]
        elif isinstance(a, ast.Subscript) and isinstance(a.value, ast.Name) and a.value.id == 'keep_cent' and \
                _table_key(a.slice) == 'pinds':
            cols[p] = '@keep_cent'
        else:
            cols[p] = None
    return cols


def param_env(fd):
    """names bound at the top of the function from X_hod_dict['key'] (inside `if want_X:` blocks)"""
    env = {}

    def bind(target, value, guard):
        if isinstance(target, ast.Tuple) and isinstance(value, ast.Tuple) and len(target.elts) == len(value.elts):
            for t, v in zip(target.elts, value.elts):
                bind(t, v, guard)
            return
        if isinstance(target, ast.Name) and isinstance(value, ast.Subscript) and isinstance(value.value, ast.Name) \
                and value.value.id in TRACER_OF_DICT and isinstance(value.slice, ast.Constant):
            T = TRACER_OF_DICT[value.value.id]
            if guard != T:
                raise TieBroken('%s bound from %s outside `if want_%s`' % (target.id, value.value.id, T))
            if value.slice.value not in PARS:
                raise TieBroken('unknown HOD parameter key %r' % (value.slice.value,))
            env[target.id] = poly([[('par', T, value.slice.value)]])
            return
        raise TieBroken('unexpected parameter binding: %s' % ast.unparse(target)[:60])

    for s in fd.body:
        if isinstance(s, ast.If) and isinstance(s.test, ast.Name) and s.test.id in WANT:
            for a in s.body:
                if isinstance(a, ast.Assign) and len(a.targets) == 1:
                    bind(a.targets[0], a.value, WANT[s.test.id])
                else:
                    raise TieBroken('statement in the parameter block of %s' % s.test.id)
    return env


def first_pass_body(fd):
    """body of `for i in range(...)` inside the first `for tid in numba.prange(...)`"""
    for s in fd.body:
        if isinstance(s, ast.For) and isinstance(s.iter, ast.Call) and 'prange' in ast.unparse(s.iter.func):
            inner = [t for t in s.body if isinstance(t, ast.For)]
            if len(s.body) != 1 or len(inner) != 1 or not (isinstance(inner[0].target, ast.Name) and inner[0].target.id == 'i'):
                raise TieBroken('first prange loop is not a single `for i in range(...)`')
            return inner[0].body
    raise TieBroken('no prange loop found')


def extract(G):
    """-> dict(widths=[row...], markers=[...], chains=[...])"""
    widths, markers, chains = [], [], []
    for sat, fn in ((False, 'gen_cent'), (True, 'gen_sats')):
        fd = _fdef(G, fn)
        cols = call_site_columns(G, fn)
        penv = param_env(fd)
        body = first_pass_body(fd)
        chain_seen = None
        for mask in [7] + list(range(7)):
            en = {T: bool(mask >> k & 1) for k, T in enumerate(TR)}
            for ranks in ((False, True) if sat else (False,)):
                for kc in ((0, 1, 2) if sat else (0,)):
                    it = Interp(fn, cols, penv, dict(en=en, ranks=ranks, kc=kc))
                    it.run(body)
                    it.finish()
                    if chain_seen is None:
                        chain_seen = it.chain
                    elif chain_seen != it.chain:
                        raise TieBroken('%s: chain differs between configurations' % fn)
                    for T in TR:
                        m = it.env.get(T + '_marker')
                        if m is None or m[0] != 'marker':
                            raise TieBroken('%s: %s_marker undefined' % (fn, T))
                        if not ranks and kc == 0:
                            markers.append((sat, mask, T, list(m[1])))
                    if set(it.width) != {T for T in TR if en[T]}:
                        raise TieBroken('%s: widths %s for enabled %s' % (fn, sorted(it.width), en))
                    if mask == 7:
                        for T in TR:
                            w = it.width[T]
                            widths.append(dict(sat=sat, tracer=T, ranks=ranks, kc=kc, occ=w[1][0], args=w[1][1], factors=w[2]))
                    else:
                        # a width must not depend on which other tracers are enabled
                        full = {(r['tracer'], r['ranks'], r['kc']): r for r in widths if r['sat'] == sat}
                        for T, w in it.width.items():
                            r = full.get((T, ranks, kc))
                            if r is not None and (r['occ'], r['args'], r['factors']) != (w[1][0], w[1][1], w[2]):
                                raise TieBroken('%s: width of %s depends on the enable pattern' % (fn, T))
        chains.append((sat, chain_seen))
    return dict(widths=widths, markers=markers, chains=chains)


# ----------------------------------------------------------------------------- Lean output

def _atom(a):
    if a[0] == 'lit':
        return '.lit %d' % a[1]
    if a[0] == 'par':
        return '.par .%s .%s' % (a[1], a[2])
    return '.col .%s' % a[1]


def _poly(p):
    return '[' + ', '.join('[' + ', '.join(_atom(a) for a in t) + ']' for t in p[1]) + ']'


def _arg(a):
    return '.poly ' + _poly(a) if a[0] == 'poly' else '.pow10 ' + _poly(a[1])


def _b(x):
    return 'true' if x else 'false'


def render(tab):
    L = ['/-',
         '  GENERATED by harness/hodwidths09.py from abacusnbody/hod/GRAND_HOD.py (gen_cent, gen_sats, gen_gals) — do not edit.',
         '  Width expressions added to the markers, marker structure per enable pattern, keep[i] comparison chain.',
         '-/',
         'import AbacusVerif.Model.C09Widths',
         '',
         'namespace AbacusVerif.Hod.W',
         'open AbacusVerif.Hod',
         '',
         'def extractedWidths : List WidthRow := [']
    rows = []
    for r in tab['widths']:
        rows.append('  { sat := %s, tracer := .%s, ranks := %s, kc := %d, occ := .%s,\n    args := [%s],\n    factors := [%s] }' % (
            _b(r['sat']), r['tracer'], _b(r['ranks']), r['kc'], r['occ'],
            ', '.join('(%s)' % _arg(a) for a in r['args']), ', '.join(_poly(f) for f in r['factors'])))
    L.append(',\n'.join(rows) + ']')
    L += ['', '/-- (satellite pass?, enable mask bit0=LRG bit1=ELG bit2=QSO, marker, tracers whose widths it sums, in order) -/',
          'def extractedMarkers : List (Bool × Nat × Tracer × List Tracer) := [']
    L.append(',\n'.join('  (%s, %d, .%s, [%s])' % (_b(s), m, T, ', '.join('.' + x for x in c)) for s, m, T, c in tab['markers']) + ']')
    L += ['', 'def extractedChains : List (Bool × List ChainRow × Nat) := [']
    ch = []
    for sat, (rows_, els) in tab['chains']:
        ch.append('  (%s, [%s], %d)' % (_b(sat), ', '.join(
            '{ guard := %s, op := .%s, marker := .%s, code := %d }' % ('some .' + g if g else 'none', op, mk, code)
            for g, op, mk, code in rows_), els))
    L.append(',\n'.join(ch) + ']')
    L += ['', 'end AbacusVerif.Hod.W', '']
    return '\n'.join(L)


def generate(G, out=OUT):
    tab = extract(G)
    txt = render(tab)
    old = out.read_text() if out.exists() else None
    if old != txt:
        out.write_text(txt)
    return tab, old != txt
