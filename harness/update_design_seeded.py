"""Refresh the seeded-changes table in DESIGN.md §12.4 from seeded/*/meta.json."""
import subprocess
import sys
from pathlib import Path

V = Path(__file__).resolve().parent.parent
tab = subprocess.check_output([sys.executable, str(V / 'harness' / 'gen_seeded_table.py')], text=True)
p = V / 'DESIGN.md'
s = p.read_text()
a = s.index('<!-- SEEDED-TABLE-BEGIN -->') + len('<!-- SEEDED-TABLE-BEGIN -->')
b = s.index('<!-- SEEDED-TABLE-END -->')
p.write_text(s[:a] + '\n' + tab + s[b:])
print('updated, %d rows' % (tab.count('\n') - 2))
