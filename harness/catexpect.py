"""
Shared by harness/props/c01.py and c03.py: replayable case descriptions over `catgen` trees, running the real
`CompaSOHaloCatalog` on them, the truth-based oracle (what catgen wrote for each halo), the request line of
the Lean model (Model/C01.lean) and the comparison of its answer with the real load.

A *case* is a JSON-able dict
    {'cat': {...catalog recipe...}, 'opts': {...loader options...}, 'files': [slab positions in load order],
     'path': 'dir'|'halo_info'|'file'|'list'|'tuple', 'filt': {...filter recipe...}}
and is fully replayable: the catalog is regenerated from its own seed.
"""
from __future__ import annotations

import json
import os
import warnings
from pathlib import Path

import numpy as np

import catgen

# documented names of the PID-derived columns (compaso_halo_catalog.__init__ docstring + passthrough column)
PID_COLS = ('pid', 'lagr_pos', 'tagged', 'density', 'lagr_idx', 'packedpid')
INDEX_COLS = ['npstartA', 'npoutA', 'npstartB', 'npoutB']
CLEAN_INDEX_COLS = ['N_total', 'npstartA_merge', 'npoutA_merge', 'npstartB_merge', 'npoutB_merge']


# ------------------------------------------------------------------------------------------------ catalogs

def draw_cat_recipe(rng, shape=None, lc_frac=0.0):
    """a catalog recipe; shapes: random / with-empty / all-empty / single / lc"""
    if shape is None:
        shape = str(rng.choice(['random', 'random', 'random', 'with-empty', 'with-empty', 'single', 'all-empty']))
    seed = int(rng.integers(0, 2 ** 31))
    if shape == 'lc':
        return {'kind': 'lc', 'seed': seed, 'nhalo': int(rng.integers(0, 7))}
    nsl = 1 if shape == 'single' else int(rng.integers(1, 5))
    nh = [int(rng.integers(0, 7)) for _ in range(nsl)]
    if shape == 'with-empty':
        if nsl == 1:
            nsl, nh = 2, nh + [3]
        nh[int(rng.integers(0, nsl))] = 0
    if shape == 'all-empty':
        nh = [0] * nsl
    if rng.random() < 0.6:
        inds = list(range(nsl))
    else:
        inds = sorted(int(v) for v in rng.choice(np.arange(0, 40), nsl, replace=False))
    return {'kind': 'snap', 'seed': seed, 'nhalos': nh, 'inds': inds, 'cleaned': bool(rng.random() < 0.8),
            'away': float(rng.choice([0.25, 0.25, 0.6, 0.0]))}


def build_catalog(recipe, root):
    rng = np.random.default_rng([recipe['seed'], 77])
    if recipe['kind'] == 'lc':
        return catgen.make_lc_catalog(root, rng, nhalo=recipe['nhalo'])
    trunc = recipe.get('trunc')
    cat = catgen.make_catalog(root, rng, nslabs=len(recipe['nhalos']), nhalos=list(recipe['nhalos']),
                              cleaned=recipe['cleaned'], slab_indices=list(recipe['inds']),
                              cleaned_away_frac=recipe.get('away', 0.25), write=not trunc)
    if trunc:
        # NOT well-formed on purpose: cut the particle files of superslab 0 short, so that halo ranges run past
        # the end (the reader's slices are clipped there); only the model correspondence uses such trees
        sl = cat.slabs[0]
        for AB in 'AB':
            keep = max(0, len(sl.pid[AB]) - int(trunc))
            sl.rv[AB] = sl.rv[AB][:keep]
            sl.pid[AB] = sl.pid[AB][:keep]
        catgen.write_catalog(cat)
    return cat


class Truth:
    """what catgen wrote, addressed by global particle tokens (harness-side identity of a particle record)"""

    def __init__(self, cat):
        self.cat = cat
        self.lc = cat.halo_lc
        self.idmap = {}
        self.base = {}
        rv, pid = [], []
        n = 0
        if self.lc:
            self.rv = None
            self.pid = None
            return
        for s, sl in enumerate(cat.slabs):
            for j, i in enumerate(sl.raw['id']):
                self.idmap[int(i)] = (s, j)
            kinds = [('A', sl.rv['A'], sl.pid['A']), ('B', sl.rv['B'], sl.pid['B'])]
            if sl.clean:
                kinds += [('cA', sl.clean_rv['A'], sl.clean_pid['A']), ('cB', sl.clean_rv['B'], sl.clean_pid['B'])]
            for k, r, p in kinds:
                assert len(r) == len(p)
                self.base[(s, k)] = n
                rv.append(np.asarray(r).reshape(-1, 3))
                pid.append(np.asarray(p))
                n += len(p)
        self.rv = np.concatenate(rv) if rv else np.empty((0, 3), np.int32)
        self.pid = np.concatenate(pid) if pid else np.empty(0, np.uint64)
        self.ntok = n

    def well_formed(self, case):
        """do all kept halos' ranges lie inside their files?  (the oracle's precondition)"""
        ab, _ = resolve_subsamples(case['opts'])
        for (s, j) in expected_rows(self, case):
            sl = self.cat.slabs[s]
            away = case['opts']['cleaned'] and int(sl.clean['N_total'][j]) == 0
            for X in ab:
                if not away and int(sl.raw['npstart' + X][j]) + int(sl.raw['npout' + X][j]) > len(sl.pid[X]):
                    return False
        return True

    def has_clean(self):
        return (not self.lc) and all(bool(sl.clean) for sl in self.cat.slabs)

    def file_tokens(self, s, kind):
        sl = self.cat.slabs[s]
        src = {'A': sl.pid.get('A'), 'B': sl.pid.get('B'), 'cA': sl.clean_pid.get('A'), 'cB': sl.clean_pid.get('B')}[kind]
        if src is None:
            return []
        b = self.base[(s, kind)]
        return list(range(b, b + len(src)))

    def halo_tokens(self, s, j, X, cleaned):
        """THE PROPERTY, per halo: original particles (none if cleaned away) then merged-in particles"""
        sl = self.cat.slabs[s]
        out = []
        away = cleaned and int(sl.clean['N_total'][j]) == 0
        if not away:
            st, n = int(sl.raw['npstart' + X][j]), int(sl.raw['npout' + X][j])
            assert st + n <= len(sl.pid[X])
            out += range(self.base[(s, X)] + st, self.base[(s, X)] + st + n)
        if cleaned:
            st, n = int(sl.clean['npstart%s_merge' % X][j]), int(sl.clean['npout%s_merge' % X][j])
            assert st + n <= len(sl.clean_pid[X])
            out += range(self.base[(s, 'c' + X)] + st, self.base[(s, 'c' + X)] + st + n)
        return out

    def seen_N(self, s, j, cleaned, passthrough):
        """the count a filter function must see under the name N"""
        sl = self.cat.slabs[s]
        if cleaned and not passthrough:
            return int(sl.clean['N_total'][j])
        return int(sl.raw['N'][j])


# ------------------------------------------------------------------------------------------------ options

def _subset(rng, items, p=0.5, nonempty=True):
    while True:
        s = [x for x in items if rng.random() < p]
        if s or not nonempty:
            return s


def draw_opts(rng, truth, force=None):
    """loader options as a JSON-able dict (see kwargs_of)"""
    o = {}
    o['cleaned'] = bool(truth.has_clean() and rng.random() < 0.65)
    o['passthrough'] = bool(rng.random() < 0.25)
    form = str(rng.choice(['true', 'dict', 'dict', 'dict', 'dict', 'dict', 'ab']))
    sub = None
    if form == 'true':
        sub = True
    else:
        ab = [(1, 0), (0, 1), (1, 1), (1, 1), (0, 0)][int(rng.integers(0, 5))]
        sub = {}
        if ab[0] or rng.random() < 0.3:
            sub['A'] = bool(ab[0])
        if ab[1] or rng.random() < 0.3:
            sub['B'] = bool(ab[1])
        if form == 'dict' or not (ab[0] or ab[1]):
            if o['passthrough'] and rng.random() < 0.8:
                for k in _subset(rng, ['rvint', 'packedpid']):
                    sub[k] = True
            else:
                ks = _subset(rng, ['pos', 'vel', 'pid'])
                if 'pos' in ks and 'vel' in ks and rng.random() < 0.4:
                    ks = [k for k in ks if k not in ('pos', 'vel')] + ['rv']
                for k in ks:
                    sub[k] = True
                if rng.random() < 0.25:
                    for k in _subset(rng, ['rvint', 'packedpid']):
                        sub[k] = True
                if rng.random() < 0.15 and 'pos' not in sub and 'rv' not in sub:
                    sub['pos'] = False
        else:
            # only A/B given: pos and vel unless explicitly False
            if rng.random() < 0.3:
                sub[str(rng.choice(['pos', 'vel']))] = False
    o['subsamples'] = sub
    ub = False
    r = rng.random()
    if r < 0.15:
        ub = True
    elif r < 0.45:
        ub = _subset(rng, list(PID_COLS[:5]), 0.4)
    elif r < 0.5:
        ub = str(rng.choice(PID_COLS[:5]))
    o['unpack_bits'] = ub
    if o['passthrough']:
        if rng.random() < 0.5:
            o['fields'] = 'all'
        else:
            o['fields'] = ['id', 'N'] + INDEX_COLS + (CLEAN_INDEX_COLS if o['cleaned'] else [])
    else:
        o['fields'] = [['id', 'N'], ['id', 'N'], ['id', 'N'], ['id'], ['id', 'N'] + INDEX_COLS,
                       'DEFAULT_FIELDS'][int(rng.integers(0, 6))]
    if force:
        o.update(force)
    return o


def resolve_subsamples(o):
    """(load_AB, outputs) per the documented meaning of `subsamples`/`unpack_bits`/`passthrough`:
    outputs = set of subsample-table columns that must be present"""
    sub = o['subsamples']
    if sub is False:
        return [], set()
    if sub is True:
        sub = dict(A=True, B=True, rvint=True, packedpid=True) if o['passthrough'] else dict(A=True, B=True, rv=True, pid=True)
    ab = [k for k in 'AB' if sub.get(k)]
    which = [k for k in sub if k in ('pid', 'pos', 'vel', 'rv', 'rvint', 'packedpid') and sub.get(k)]
    if which and not ab:
        ab = ['A']
    elif ab and not which:
        if sub.get('pos') is not False:
            which.append('pos')
        if sub.get('vel') is not False:
            which.append('vel')
        if not which:
            which = ['rv']
    if 'rv' in which:
        which = [k for k in which if k != 'rv'] + ['pos', 'vel']
    cols = set(k for k in which if k in ('pos', 'vel', 'rvint'))
    if 'pid' in which or 'packedpid' in which:
        ub = o['unpack_bits']
        if ub is False:
            cols.add('packedpid' if 'packedpid' in which else 'pid')
        elif ub is True:
            cols.update(PID_COLS)
        elif isinstance(ub, str):
            cols.add(ub)
        else:
            cols.update(ub)
    return ab, cols


def draw_files(rng, truth, path=None):
    n = len(truth.cat.slabs)
    if path is None:
        path = str(rng.choice(['dir', 'dir', 'halo_info', 'file', 'list', 'list', 'list', 'tuple']))
    if path in ('dir', 'halo_info'):
        files = list(range(n))
    elif path == 'file':
        files = [int(rng.integers(0, n))]
    else:
        k = int(rng.integers(1, n + 1))
        files = [int(v) for v in rng.permutation(n)[:k]]
    return path, files


def draw_filter(rng, opts, kind=None):
    has_N = (opts['fields'] in ('all', 'DEFAULT_FIELDS') or 'N' in opts['fields']
             or (opts['cleaned'] and not opts['passthrough']))
    if kind is None:
        kind = str(rng.choice(['none', 'none', 'none', 'all', 'nothing', 'random', 'random', 'random', 'parity', 'Nthr', 'Nthr']))
    if kind == 'Nthr' and not has_N:
        kind = 'random'
    f = {'kind': kind}
    if kind == 'random':
        f['seed'] = int(rng.integers(0, 2 ** 31))
        f['p'] = float(rng.choice([0.2, 0.5, 0.8]))
    if kind == 'parity':
        f['p'] = int(rng.integers(0, 2))
    if kind == 'Nthr':
        f['thr'] = int(rng.choice([0, 1, 100, 250, 400, 10 ** 6]))
    return f


def draw_mixed_filter(rng, opts, nfiles):
    """a filter drawn independently per superslab (dispatched on the call count)"""
    return {'kind': 'mixed', 'subs': [draw_filter(rng, opts, kind=str(rng.choice(
        ['all', 'nothing', 'random', 'random', 'parity', 'Nthr', 'Nthr']))) for _ in range(nfiles)]}


def expected_mask(truth, opts, filt, s, pos=0):
    """mask the filter must produce on superslab position s, the pos-th file of the load (oracle side, from truth)"""
    sl = truth.cat.slabs[s]
    n = sl.nhalo
    if filt['kind'] == 'mixed':
        filt = filt['subs'][pos]
    k = filt['kind']
    if k in ('none', 'all'):
        return [True] * n
    if k == 'nothing':
        return [False] * n
    if k == 'parity':
        return [(j % 2) == filt['p'] for j in range(n)]
    if k == 'random':
        return [bool(np.random.default_rng([filt['seed'], int(i)]).random() < filt['p']) for i in sl.raw['id']]
    if k == 'Nthr':
        return [truth.seen_N(s, j, opts['cleaned'], opts['passthrough']) >= filt['thr'] for j in range(n)]
    raise ValueError(k)


def make_filter(filt, record):
    """the filter function handed to the real class; `record` collects (ids, mask, N seen or None)"""
    if filt['kind'] == 'none':
        return None
    top = filt

    def f(h):
        filt = top['subs'][len(record)] if top['kind'] == 'mixed' else top
        k = filt['kind']
        ids = [int(i) for i in h['id']]
        seenN = [int(v) for v in h['N']] if 'N' in h.colnames else None
        if k in ('all', 'none'):
            m = np.ones(len(h), dtype=bool)
        elif k == 'nothing':
            m = np.zeros(len(h), dtype=bool)
        elif k == 'parity':
            m = (np.arange(len(h)) % 2) == filt['p']
        elif k == 'random':
            m = np.array([np.random.default_rng([filt['seed'], i]).random() < filt['p'] for i in ids], dtype=bool)
        elif k == 'Nthr':
            m = h['N'] >= filt['thr']
        record.append({'ids': ids, 'mask': [bool(v) for v in np.asarray(m)], 'N': seenN,
                       'cols': list(h.colnames)})
        return m
    return f


def path_arg(truth, path, files):
    cat = truth.cat
    if truth.lc:
        return cat.groupdir
    if path == 'dir':
        return cat.groupdir
    if path == 'halo_info':
        return cat.groupdir / 'halo_info'
    fns = [cat.slabs[s].files['halo_info'] for s in files]
    if path == 'file':
        return str(fns[0]) if len(str(fns[0])) % 2 else fns[0]
    if path == 'tuple':
        return tuple(fns)
    return [str(f) for f in fns]


def kwargs_of(opts):
    kw = dict(cleaned=opts['cleaned'], passthrough=opts['passthrough'], fields=opts['fields'],
              unpack_bits=opts['unpack_bits'])
    sub = opts['subsamples']
    kw['subsamples'] = dict(sub) if isinstance(sub, dict) else sub
    if isinstance(kw['unpack_bits'], list):
        kw['unpack_bits'] = list(kw['unpack_bits'])
    if isinstance(kw['fields'], list):
        kw['fields'] = list(kw['fields'])
    return kw


# ------------------------------------------------------------------------------------------------ real load

def real_load(truth, case):
    """run the real class; returns ('ok', obs) or ('exc', repr)"""
    from abacusnbody.data.compaso_halo_catalog import CompaSOHaloCatalog
    record = []
    kw = kwargs_of(case['opts'])
    ff = make_filter(case['filt'], record)
    if ff is not None:
        kw['filter_func'] = ff
    p = path_arg(truth, case['path'], case['files'])
    try:
        with warnings.catch_warnings():
            warnings.simplefilter('ignore')
            c = CompaSOHaloCatalog(p, **kw)
    except Exception as e:      # noqa: BLE001 - any exception of the real code is an observation
        return 'exc', '%s: %s' % (type(e).__name__, str(e)[:200]), record
    obs = {'n': len(c.halos), 'nsub': len(c.subsamples), 'halo_cols': list(c.halos.colnames),
           'sub_cols': list(c.subsamples.colnames), 'load_AB': list(c.load_AB),
           'superslab_inds': [int(v) for v in c.superslab_inds]}
    obs['id'] = [int(v) for v in c.halos['id']] if 'id' in c.halos.colnames else None
    for k in INDEX_COLS + ['N', 'N_total']:
        obs[k] = [int(v) for v in c.halos[k]] if k in c.halos.colnames else None
    obs['sub'] = {k: np.array(c.subsamples[k]) for k in c.subsamples.colnames}
    obs['box'] = float(c.header['BoxSize'])
    obs['ppd'] = float(c.header['ppd'])
    return 'ok', obs, record


def decode_expected(truth, toks, col, box, ppd):
    """expected content of subsample column `col` for the particle tokens `toks`: the raw words for the
    passthrough columns, otherwise the package's own decoders (tied to Lean by C04) applied to the words"""
    from abacusnbody.data import bitpacked
    toks = np.asarray(toks, dtype=np.int64)
    rv = truth.rv[toks].reshape(-1, 3)
    pw = truth.pid[toks]
    if col == 'rvint':
        return rv
    if col == 'packedpid':
        return pw
    if col == 'pos':
        return bitpacked.unpack_rvint(np.ascontiguousarray(rv), box, velout=False)[0]
    if col == 'vel':
        return bitpacked.unpack_rvint(np.ascontiguousarray(rv), box, posout=False)[1]
    return bitpacked.unpack_pids(np.ascontiguousarray(pw), box=box, ppd=ppd, **{col: True})[col]


def expected_rows(truth, case, masks=None):
    """[(s, j)] rows the load must return, in order: file order, rows kept by the expected mask"""
    rows = []
    for pos, s in enumerate(case['files']):
        m = expected_mask(truth, case['opts'], case['filt'], s, pos) if masks is None else masks[s]
        rows += [(s, j) for j in range(truth.cat.slabs[s].nhalo) if m[j]]
    return rows


def oracle(ctx, truth, case, status, obs, record, pid='C01'):
    """the property restated on observable outputs, independent of the Lean model.
    Returns True when everything held."""
    opts = case['opts']
    cdesc = case
    ok = True

    def fail(what, observed, expected, key):
        nonlocal ok
        ok = False
        ctx.fail(what, cdesc, observed, expected, key=key)

    if status == 'exc':
        key = 'load-raises'
        if opts['passthrough'] and not opts['cleaned'] and obs.startswith(('TypeError', 'IndexError')):
            key = 'passthrough-uncleaned-TypeError'
        elif opts['passthrough'] and isinstance(opts['fields'], list) and obs.startswith('KeyError'):
            key = 'passthrough-fieldlist-drops-cleaned'
        fail('the real loader raised on a well-formed catalog', obs, 'a loaded catalog', key)
        return False
    ab, cols = resolve_subsamples(opts)
    # rows and their order
    exp_rows = expected_rows(truth, case)
    exp_ids = [int(truth.cat.slabs[s].raw['id'][j]) for s, j in exp_rows]
    if obs['id'] != exp_ids:
        fail('halo rows differ from file-order concatenation of the kept rows', obs['id'], exp_ids, 'rows')
        return False
    # the masks the filter produced / the N it saw
    if case['filt']['kind'] != 'none':
        if len(record) != len(case['files']):
            fail('filter_func not called once per superslab', len(record), len(case['files']), 'filter-calls')
        for pos, (s, rec) in enumerate(zip(case['files'], record)):
            em = expected_mask(truth, opts, case['filt'], s, pos)
            if rec['N'] is not None:
                eN = [truth.seen_N(s, j, opts['cleaned'], opts['passthrough']) for j in range(len(em))]
                if rec['N'] != eN:
                    fail('filter_func saw the wrong count under the name N', rec['N'], eN, 'filter-sees-N')
            if rec['mask'] != em:
                fail('filter mask differs', rec['mask'], em, 'filter-mask')
    if obs['load_AB'] != ab:
        fail('load_AB', obs['load_AB'], ab, 'load_AB')
        return False
    if not ab:
        if obs['nsub'] != 0:
            fail('subsample table not empty although nothing was requested', obs['nsub'], 0, 'tiling')
        return ok
    if not cols <= set(obs['sub_cols']):
        fail('requested subsample columns missing', obs['sub_cols'], sorted(cols), 'sub-cols')
        return False
    # tiling
    total = 0
    for X in ab:
        st, no = obs['npstart' + X], obs['npout' + X]
        if st is None or no is None:
            fail('index columns missing', obs['halo_cols'], 'npstart%s/npout%s' % (X, X), 'index-cols')
            return False
        exp_start = total
        for r in range(len(st)):
            if st[r] != exp_start:
                fail('slices not contiguous / A-before-B (row %d, %s)' % (r, X), st, exp_start, 'tiling')
                return False
            exp_start += no[r]
        total = exp_start
    if total != obs['nsub']:
        fail('sum of npout != len(subsamples)', total, obs['nsub'], 'tiling')
        return False
    # each row's slice holds exactly its own particles
    for X in ab:
        st, no = obs['npstart' + X], obs['npout' + X]
        for r, (s, j) in enumerate(exp_rows):
            toks = truth.halo_tokens(s, j, X, opts['cleaned'])
            if no[r] != len(toks):
                fail('npout%s of row %d' % (X, r), no[r], len(toks), 'slice')
                return False
            for col in sorted(set(obs['sub_cols']) & (set(PID_COLS) | {'pos', 'vel', 'rvint'})):
                got = obs['sub'][col][st[r]:st[r] + no[r]]
                exp = decode_expected(truth, toks, col, obs['box'], obs['ppd'])
                if got.shape != exp.shape or not np.array_equal(got, exp):
                    fail('subsample %s column %s of row %d (superslab pos %d, halo %d) is not its own particles'
                         % (X, col, r, s, j), got.tolist(), exp.tolist(), 'slice')
                    return False
    return ok


# ------------------------------------------------------------------------------------------------ model side

def _flat(rows):
    return ','.join(str(int(v)) for r in rows for v in r) if len(rows) else '-'


def _lst(v):
    return ','.join(str(int(x)) for x in v) if len(v) else '-'


def model_line(truth, case, masks):
    """request for Model/C01.lean `load`; `masks[s]` = the mask the real filter returned on slab position s
    (None: no filter)"""
    opts = case['opts']
    ab, cols = resolve_subsamples(opts)
    raw = int(bool(cols & {'rvint', 'packedpid'}))
    parts = ['load', str(int(opts['cleaned'])), str(int('A' in ab)), str(int('B' in ab)), str(raw),
             str(len(case['files']))]
    for s in case['files']:
        sl = truth.cat.slabs[s]
        H = [(sl.raw['npstartA'][j], sl.raw['npoutA'][j], sl.raw['npstartB'][j], sl.raw['npoutB'][j], sl.raw['N'][j])
             for j in range(sl.nhalo)]
        if opts['cleaned']:
            C = [(sl.clean['npstartA_merge'][j], sl.clean['npoutA_merge'][j], sl.clean['npstartB_merge'][j],
                  sl.clean['npoutB_merge'][j], sl.clean['N_total'][j]) for j in range(sl.nhalo)]
            ca, cb = truth.file_tokens(s, 'cA'), truth.file_tokens(s, 'cB')
        else:
            C, ca, cb = [], [], []
        m = masks.get(s) if masks is not None else None
        mtxt = 'x' if m is None else (''.join('1' if b else '0' for b in m) or '-')
        parts += [_flat(H), _flat(C), _lst(truth.file_tokens(s, 'A')), _lst(truth.file_tokens(s, 'B')),
                  _lst(ca), _lst(cb), mtxt]
    return ' '.join(parts)


def parse_model(s):
    if s.startswith('err '):
        return {'err': s[4:]}
    if not s.startswith('ok '):
        return {'err': 'bad-response:' + s[:80]}
    d = dict(p.split('=', 1) for p in s.split(' ')[1:])

    def L(t):
        return [] if t == '-' else [int(x) if x != '_' else None for x in t.split(',')]
    out = {'nper': L(d['nper']), 'rows': L(d['rows']), 'sub': L(d['sub']), 'widx': L(d['widx'])}
    for X, k in (('A', 'a'), ('B', 'b')):
        if d[k] == 'x':
            out[X] = None
        else:
            st, no = d[k].split('/')
            out[X] = (L(st), L(no))
    return out


def compare_model(ctx, truth, case, obs, m, what='', check_widx=True):
    """model answer vs real load, observable behaviour only"""
    opts = case['opts']
    if 'err' in m:
        ctx.disagree(what + 'model faults, real load succeeds', case, m, 'ok')
        return False
    ab, cols = resolve_subsamples(opts)
    w = 10 if opts['cleaned'] else 5
    mrows = [m['rows'][i:i + w] for i in range(0, len(m['rows']), w)]
    # rows: identify the real rows through their id and compare the raw index columns catgen wrote
    real_rows = []
    for i in obs['id']:
        s, j = truth.idmap[i]
        sl = truth.cat.slabs[s]
        r = [sl.raw['npstartA'][j], sl.raw['npoutA'][j], sl.raw['npstartB'][j], sl.raw['npoutB'][j], sl.raw['N'][j]]
        if opts['cleaned']:
            r += [sl.clean['npstartA_merge'][j], sl.clean['npoutA_merge'][j], sl.clean['npstartB_merge'][j],
                  sl.clean['npoutB_merge'][j], sl.clean['N_total'][j]]
        real_rows.append([int(v) for v in r])
    good = True
    if mrows != real_rows:
        ctx.disagree(what + 'kept rows', case, mrows, real_rows)
        good = False
    for X in 'AB':
        mi = m[X]
        ri = (obs['npstart' + X], obs['npout' + X]) if X in ab else None
        if (mi is None) != (ri is None) or (mi is not None and (list(mi[0]) != ri[0] or list(mi[1]) != ri[1])):
            ctx.disagree(what + 'index columns of subsample ' + X, case, mi, ri)
            good = False
    if ab:
        if len(m['sub']) != obs['nsub']:
            ctx.disagree(what + 'subsample table length', case, len(m['sub']), obs['nsub'])
            return False
        wfd = truth.well_formed(case)
        if None in m['sub'] and wfd:
            ctx.disagree('model leaves table cells unwritten', case, m['sub'], 'n/a')
            return False
        if check_widx and wfd and m['widx'] != list(range(obs['nsub'])):
            ctx.disagree('model write indices are not 0..N-1 in order', case, m['widx'], obs['nsub'])
            good = False
        # cells the model leaves unwritten (ill-formed input only) hold np.empty garbage in the real table
        written = np.array([t is not None for t in m['sub']], dtype=bool)
        toks = [t for t in m['sub'] if t is not None]
        for col in sorted(set(obs['sub_cols']) & (set(PID_COLS) | {'pos', 'vel', 'rvint'})):
            exp = decode_expected(truth, toks, col, obs['box'], obs['ppd'])
            got = obs['sub'][col][written]
            if got.shape != exp.shape or not np.array_equal(got, exp):
                bad = [int(k) for k in range(min(len(got), len(exp))) if not np.array_equal(got[k], exp[k])][:5]
                ctx.disagree(what + 'subsample table column %s differs word for word (first cells %s)' % (col, bad),
                             case, exp.tolist()[:20], got.tolist()[:20])
                good = False
    return good


# ------------------------------------------------------------------------------------------------ light cone

def lc_oracle_and_model(ctx, truth, case, status, obs, record, driver_answer):
    """light-cone layout: stored indices returned unchanged, table = the single particle file"""
    cat = truth.cat
    sl = cat.slabs[0]
    n = len(sl.raw['N'])
    if status == 'exc':
        key = 'lc-filter-N_total' if (case['filt']['kind'] != 'none' and 'N_total' in obs) else 'lc-load-raises'
        ctx.fail('the real loader raised on a well-formed light-cone catalog', case, obs, 'a loaded catalog', key=key)
        return False
    filt = case['filt']
    k = filt['kind']
    if k in ('none', 'all'):
        em = [True] * n
    elif k == 'nothing':
        em = [False] * n
    elif k == 'parity':
        em = [(j % 2) == filt['p'] for j in range(n)]
    elif k == 'Nthr':
        em = [int(sl.raw['N'][j]) >= filt['thr'] for j in range(n)]
    else:
        raise ValueError(k)
    good = True
    if k != 'none':
        if len(record) != 1 or record[0]['mask'] != em:
            ctx.fail('light-cone filter mask differs', case, record[:1], em, key='lc-filter-mask')
            good = False
        if record and record[0]['N'] is not None and record[0]['N'] != [int(v) for v in sl.raw['N']]:
            ctx.fail('light-cone filter saw a wrong N', case, record[0]['N'], [int(v) for v in sl.raw['N']], key='lc-filter-sees-N')
            good = False
    kept = [j for j in range(n) if em[j]]
    est = [int(sl.raw['npstartA'][j]) for j in kept]
    eno = [int(sl.raw['npoutA'][j]) for j in kept]
    sub = case['opts']['subsamples']
    if sub:
        if obs['npstartA'] is None or obs['npoutA'] is None:
            ctx.fail('light-cone index columns missing', case, obs['halo_cols'], 'npstartA/npoutA', key='lc-index')
            return False
        if obs['npstartA'] != est or obs['npoutA'] != eno:
            ctx.fail('light-cone index columns are not the stored ones', case, (obs['npstartA'], obs['npoutA']), (est, eno), key='lc-index')
            good = False
        exp = {'pos': cat.lc_pos, 'vel': cat.lc_vel, 'pid': cat.lc_pid}
        for col in obs['sub_cols']:
            if col in exp and not np.array_equal(obs['sub'][col], exp[col]):
                ctx.fail('light-cone subsample column %s is not the particle file' % col, case, obs['sub'][col].tolist()[:10], exp[col].tolist()[:10], key='lc-table')
                good = False
            # every row's slice = the file's slice
        for col in ('pos', 'vel', 'pid'):
            if col in obs['sub']:
                for r, j in enumerate(kept):
                    a, b = est[r], est[r] + eno[r]
                    if not np.array_equal(obs['sub'][col][obs['npstartA'][r]:obs['npstartA'][r] + obs['npoutA'][r]], exp[col][a:b]):
                        ctx.fail('light-cone slice', case, r, j, key='lc-slice')
                        good = False
    else:
        if obs['n'] != len(kept):
            ctx.fail('light-cone row count', case, obs['n'], len(kept), key='lc-rows')
            good = False
    # model
    if driver_answer is not None:
        m = driver_answer
        if m.startswith('ok '):
            d = dict(p.split('=', 1) for p in m.split(' ')[1:])
            mr = [] if d['rows'] == '-' else [int(x) for x in d['rows'].split(',')]
            ms = [] if d['sub'] == '-' else [int(x) for x in d['sub'].split(',')]
            if sub:
                rr = [v for pair in zip(obs['npstartA'], obs['npoutA']) for v in pair]
                if mr != rr:
                    ctx.disagree('lc rows', case, mr, rr)
                    good = False
                if len(ms) != obs['nsub']:
                    ctx.disagree('lc table length', case, len(ms), obs['nsub'])
                    good = False
                elif 'pid' in obs['sub'] and not np.array_equal(cat.lc_pid[np.asarray(ms, dtype=np.int64)], obs['sub']['pid']):
                    ctx.disagree('lc table', case, ms[:10], obs['sub']['pid'].tolist()[:10])
                    good = False
            elif len(mr) // 2 != obs['n']:
                ctx.disagree('lc row count', case, len(mr) // 2, obs['n'])
                good = False
        else:
            ctx.disagree('lc model faults', case, m, 'ok')
            good = False
    return good


def lc_model_line(truth, record, case):
    sl = truth.cat.slabs[0]
    H = [(sl.raw['npstartA'][j], sl.raw['npoutA'][j]) for j in range(len(sl.raw['N']))]
    n = len(truth.cat.lc_pid)
    if case['filt']['kind'] == 'none' or not record:
        m = 'x'
    else:
        m = ''.join('1' if b else '0' for b in record[0]['mask']) or '-'
    return 'lc %s %s %s' % (_flat(H), _lst(range(n)), m)


def draw_lc_case(rng, recipe):
    sub = [True, True, False, dict(A=True, pos=True), dict(pid=True), dict(A=True, B=True, rv=True, pid=True)][int(rng.integers(0, 6))]
    kind = str(rng.choice(['none', 'none', 'all', 'nothing', 'parity', 'Nthr']))
    filt = {'kind': kind}
    if kind == 'parity':
        filt['p'] = int(rng.integers(0, 2))
    if kind == 'Nthr':
        filt['thr'] = int(rng.choice([0, 50, 10 ** 6]))
    fields = ['DEFAULT_FIELDS', ['N', 'index_halo'], ['N']][int(rng.integers(0, 3))]
    opts = {'cleaned': bool(rng.random() < 0.8), 'passthrough': False, 'subsamples': sub, 'unpack_bits': False,
            'fields': fields}
    return {'cat': recipe, 'opts': opts, 'files': [0], 'path': 'dir', 'filt': filt}


def lc_real_load(truth, case):
    """like real_load but the light-cone tables have no `id` column"""
    from abacusnbody.data.compaso_halo_catalog import CompaSOHaloCatalog
    record = []
    kw = kwargs_of(case['opts'])
    k = case['filt']['kind']
    filt = case['filt']
    if k != 'none':
        def ff(h):
            seenN = [int(v) for v in h['N']] if 'N' in h.colnames else None
            if k == 'all':
                m = np.ones(len(h), dtype=bool)
            elif k == 'nothing':
                m = np.zeros(len(h), dtype=bool)
            elif k == 'parity':
                m = (np.arange(len(h)) % 2) == filt['p']
            else:
                m = h['N'] >= filt['thr']
            record.append({'mask': [bool(v) for v in np.asarray(m)], 'N': seenN, 'cols': list(h.colnames)})
            return m
        kw['filter_func'] = ff
    try:
        with warnings.catch_warnings():
            warnings.simplefilter('ignore')
            c = CompaSOHaloCatalog(truth.cat.groupdir, **kw)
    except Exception as e:      # noqa: BLE001
        return 'exc', '%s: %s' % (type(e).__name__, str(e)[:200]), record
    obs = {'n': len(c.halos), 'nsub': len(c.subsamples), 'halo_cols': list(c.halos.colnames),
           'sub_cols': list(c.subsamples.colnames), 'load_AB': list(c.load_AB)}
    for kk in ('npstartA', 'npoutA', 'N'):
        obs[kk] = [int(v) for v in c.halos[kk]] if kk in c.halos.colnames else None
    obs['sub'] = {kk: np.array(c.subsamples[kk]) for kk in c.subsamples.colnames}
    return 'ok', obs, record


# ------------------------------------------------------------------------------------------------ running cases

class Pool:
    """catalog trees of a run, built lazily under ctx.tmpdir()"""

    def __init__(self, ctx):
        self.ctx = ctx
        self.cache = {}

    def get(self, recipe):
        key = json.dumps(recipe, sort_keys=True)
        if key not in self.cache:
            root = Path(self.ctx.tmpdir()) / ('cat%03d' % len(self.cache))
            cat = build_catalog(recipe, root)
            self.cache[key] = Truth(cat)
        return self.cache[key]


def masks_from_record(case, record):
    if case['filt']['kind'] == 'none':
        return None
    return {s: rec['mask'] for s, rec in zip(case['files'], record)}


def case_label(case):
    o = case['opts']
    ab, cols = resolve_subsamples(o)
    return {'cleaned': o['cleaned'], 'passthrough': o['passthrough'], 'AB': ''.join(ab), 'cols': sorted(cols),
            'path': case['path'], 'nfiles': len(case['files']), 'filter': case['filt']['kind'],
            'fields': o['fields'] if isinstance(o['fields'], str) else 'list'}


def nontrivial(truth, case):
    """a case exercises the property when at least one kept halo has particles in a loaded subsample"""
    ab, _ = resolve_subsamples(case['opts'])
    for (s, j) in expected_rows(truth, case):
        for X in ab:
            if truth.halo_tokens(s, j, X, case['opts']['cleaned']):
                return True
    return False
