"""Validate MANIFEST.json and every evidence file against the schemas in /root/.vp (run with python3-vt)."""
import json
import sys
from pathlib import Path

import jsonschema

V = Path(__file__).resolve().parent.parent
man = json.loads((V / 'MANIFEST.json').read_text())
jsonschema.validate(man, json.loads(Path('/root/.vp/MANIFEST.schema.json').read_text()))
es = json.loads(Path('/root/.vp/EVIDENCE.schema.json').read_text())
bad = 0
for c in man['checks']:
    p = V / c['evidence_file']
    if not p.exists():
        print('MISSING', p)
        bad += 1
        continue
    ev = json.loads(p.read_text())
    try:
        jsonschema.validate(ev, es)
        cov = ev['coverage']
        ok = cov['obligations'] == cov['discharged'] and cov['obligations'] >= 1 and ev.get('violations', 0) == 0
        print(c['property_id'], 'ok' if ok else 'NOT-CLEAN', ev['tier'], 'obl=%d/%d' % (cov['discharged'], cov['obligations']),
              'eval=%d distinct=%d wall=%.0fs' % (cov['evaluations'], cov['distinct_nontrivial'], ev['wall_s']))
        bad += 0 if ok else 1
    except jsonschema.ValidationError as e:
        print(c['property_id'], 'INVALID', e.message[:200])
        bad += 1
props = [json.loads(l)['id'] for l in (V / 'properties.jsonl').read_text().splitlines() if l.strip()]
claimed = {c['property_id'] for c in man['checks']}
na = {n['property_id'] for n in man.get('not_applicable', [])}
assert claimed | na == set(props) and not (claimed & na), (claimed, na)
sys.exit(1 if bad else 0)
