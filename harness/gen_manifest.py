"""Regenerate /verif/MANIFEST.json from the table below (run by hand after adding a check)."""
import json
from pathlib import Path

VERIF = Path(__file__).resolve().parent.parent

CHECKS = {
    'C19': dict(
        technique='Lean 4 proof (induction over the loop; write list = selected partial sums) + exhaustive small-scope correspondence of the compiled model driver with util.cumsum (bounds-checked kernel and py_func access traces)',
        text='Theorems cumsum_spec / cumsum_output / cumsum_bad_length / cumsum_matches_numpy / cumsum_inbounds hold for every input list, '
             'every output length, both flags, every offset and every element type with +, on a line-by-line Lean model of util.cumsum whose '
             'every array access goes through the Python index rule. The model is tied to /repo on every run by running model and real code '
             '(compiled with NUMBA_BOUNDSCHECK=1 and as py_func on index-recording arrays) on all N<=8 (16 thorough) x flags x output lengths x '
             'dtype pairings and diffing outputs, totals, errors and access traces; an independent numpy.cumsum oracle decides violations.',
        note='Trusted: Lean kernel (+propext, Classical.choice, Quot.sound), the correspondence harness, numba bounds checking; float sums exact only on dyadic inputs.',
        design='§7 C19'),
    'C11': dict(
        technique='Lean 4 proofs that every array index of the modelled kernels stays in range under the documented preconditions (models route each access through the Python index rule) + bounds-checked compiled runs and py_func index recording on boundary-directed inputs',
        text='Index-arithmetic theorems (interp_inbounds for every value the float quotient can round to, rowLoop_inbounds for the element-wise decoders, '
             'cumsum_inbounds; the in-bounds corollaries of the other kernels are proved with their own property models: zipper C01, pack9 C15, TSC/CIC C06, '
             'partition C17, _tsc_parallel C07, mode binning C08, HOD passes/concatenate C10). The tie to the code: every anchored kernel is run compiled under '
             'NUMBA_BOUNDSCHECK=1 and, for serial kernels, as py_func on index-recording arrays, on inputs generated from the preconditions at their boundaries '
             '(empty arrays, zero-particle halos, one-cell-thick and 2-cell grids, x == BoxSize with float overshoot, odd npartition, ranges below the largest mode, '
             'interpolation one ulp inside the end points); an index fault is the failing input.',
        note='Partial: this is index arithmetic, not the machine — numba code generation, np.empty sizes and LLVM are trusted; kernels outside the anchored files are only observed, not modelled.',
        design='§7 C11'),
    'C18': dict(
        technique='Lean 4 proofs over an executable model of _unpack_euler16 (integer split over Nat; real layer polymorphic, R for theorems, Float in the driver) with constants regenerated from the source + exhaustive differential run over all 65 340 codes',
        text='split_bijective, triad_orthonormal (for every cap and ALL real xx, yy, az, hence every code: unit norms, mutual orthogonality, middle = minor x major), '
             'major_injective_in_cap, caps_disjoint, minor_injective, decode_injective (distinct valid codes decode to distinct triads), norm_cap_edge, and the coverage clause: '
             'coverage (for EVERY unit vector v there is a valid code whose decoded major axis m satisfies 1 - (v.m)^2 <= 0.00665) and coverage_degrees (arccos|v.m| <= 4.7 degrees), proved by an explicit inverse of the '
             'parameter map on each cap region, bin-centre nets checked by norm_num on the regenerated EULER_NORM/EULER_TBIN, and a row-by-row bound of the own-cell angle. The constants '
             'EULER_ABIN/TBIN/NORM are regenerated from the imported module on every run and the theorems are stated over them. The model is tied to the code by an '
             'exhaustive run of the real _unpack_euler16 (bit-identical to the Float instance of the model on all 65 340 codes) and of the six eigenvector halo columns through the real loader for every requested subset; '
             'an oracle checks orthonormality, handedness, pairwise distinctness and that each column holds its own axis on the implementation output.',
        note='The proved covering bound (4.678 degrees) is the own-cell bound; the measured covering radius of the implementation (3.14 degrees) is reported as a test. Theorems are over exact reals; float rounding is covered only by the exhaustive differential run. np.floor(np.sqrt(uint16)) is modelled by Nat.sqrt (checked on every code).',
        design='§7 C18'),
    'C15': dict(
        technique='Lean 4 proof (nibble shuffle as arithmetic, bijection with six 12-bit fields; induction over the record stream with header state and write counter; rational round-trip bounds) + correspondence of the compiled model driver with pack9.unpack_pack9 (bounds-checked), _unpack_pack9.py_func and _expand_to_short',
        text='Theorems pack_expand/expand_pack (bijection on all 2^72 byte patterns), unpack_count, unpack_write_index, unpack_short_output_faults, unpack_alloc_slice, '
             'unpack_opts_independent, header_decode, pos_roundtrip/vel_roundtrip (within half a quantum), stream_roundtrip hold for every record stream, option pair, box and velocity '
             'scale on a statement-by-statement exact-rational Lean model of pack9.py. Tied to /repo on every run: random/raw/malformed streams, every value of each of the 11 field positions, '
             'all option pairs, float32/float64; integers, shapes, errors exact, floats within 6 ulp of the summed-term magnitude; an independent Fraction oracle of the format decides violations.',
        note='Trusted: Lean kernel (+3 std axioms), harness and its stated float bound, NUMBA_BOUNDSCHECK; float rounding inside the kernel bounded, not modelled; rows assumed (N,9).',
        design='§7 C15'),
    'C16': dict(
        technique='Lean 4 proof (case analysis over the key-presence patterns, the whole load/flag option space, column assembly) + exhaustive correspondence of the compiled model driver with read_abacus.read_asdf on synthetic ASDF files',
        text='Theorems detect_spec/detect_error_iff, resolve_spec/resolve_flags/resolve_table, columns_general/columns_exact/columns_default, rows_spec, read_spec hold for every file '
             'description, every load list and all deprecated flag values on a Lean model of read_asdf/_resolve_columns as coded. Tied to /repo on every run by an exhaustive run over file type x '
             'all subsets of loadable columns x load_pos/load_vel in {None,True,False}^2 x dtype x header style plus all 16 key-presence patterns x explicit colnames; an oracle checks exact '
             'column set, one row per particle, meta == header and bit-identity with direct calls of the C04/C15-verified decoders (which is what shows values do not depend on co-requests). Extended: column VALUES are now in the Lean model — read_asdf calls the C04/C15 model decoders as the real code calls the real ones — with values_are_direct_decoding, values_independent_of_selection, read_values_independent, aux_passthrough, subsample_rule, values_shape; the correspondence compares those values with the real table on every single-column-file call.',
        note='Trusted: Lean kernel, harness, partfiles.py, asdf (validate_on_read off), astropy Table; values go through the C04/C15 model decoders (floats compared under their bounds).',
        design='§7 C16'),
    'C12': dict(
        technique='Lean 4 proof over named parallel arrays (stable argsort is a permutation; gathering every column by one index list equals a record-wise permutation; searchsorted spec) + a dynamic extractor that observes, on every run and for every flag subset, which returned array carries which dataset expression in which row order by running the real AbacusHOD.staging on injectively tagged probe files (Generated/StagingCols.lean), backed by an optional ast reader of the source + differential run and id-decoding oracle of the real AbacusHOD on synthetic subsample file sets',
        text='staging_rows_aligned / sort_rows_aligned / ids_sorted / pinds_points_to_host / already_sorted_noop / argsort_is_perm hold for every flag set, slab count, slab content and id order '
             'on a Lean model whose sort block permutes exactly the arrays listed in tables regenerated from /repo on every run (observed from the running code per flag subset; observed_complete, ast_agrees_with_observed); returned_cols_permuted (decide over those tables) fails when a '
             'returned array is not delivered in id order under some flag subset. The model is tied to /repo by running it and the real constructor/staging on exhaustive small id arrangements plus seeded random '
             'file sets (1-4 slabs, chunking, all flags, MT naming, secondary/lightcone, 1-D deviates), compared exactly; an oracle decoding every attribute of every row back to its halo id decides violations. Extended: the per-slab fill loop is modelled as coded (preallocated arrays, slice writes at a ticker) with fill_is_concat(_cols); the field-to-array source expressions are regenerated from the source and proved single and as documented (returned_cols_single_source, part_cols_single_source, sources_as_documented, eval_rowwise); stable-argsort statements for duplicate ids (argsort_stable, pinds_first_occurrence).',
        note='Trusted: Lean kernel (+propext, Classical.choice, Quot.sound); harness/stagegen.py encodings and the documented field-to-array mapping; the dynamic extractor (finite expression grammar: column, a/b, a*param, 1/a/b, column-or-zeros, ones; anything else is reported as a tie) and the optional ast reader (unavailable = recorded, no verdict); h5py/asdf; numpy argsort/searchsorted/fancy indexing modelled by specification; duplicate-free ids only.',
        design='§7 C12'),
    'C04': dict(
        technique='Lean 4 proofs (BitVec/Nat div-mod lemmas, omega; rhe_close for the round trip) over a model whose constants are regenerated from the imported module + differential run of the compiled model driver against unpack_rvint/unpack_pids/_unpack_rvint/_unpack_pids (compiled and py_func) + integer-layout oracle; thorough: all 2^32 RVint words',
        text='26 theorems (rvPos/rvVel_layout, rv_fields_independent, rv_roundtrip_pos/vel, aux_lagrCoord/lagrIdx/lagrPos/tagged/density/pid_layout, pid_has_only_id_bits, aux_fields_independent, '
             'aux_fields_ignore_other_bits, kernel_spec/oob, unpackRvint_spec, unpackPids_spec, outputs_independent_of_selection, emptyArrays_all, consts_documented) hold for all 2^32 / 2^64 words, all rational '
             'Box/positions/velocities, all input lengths and all output selections, on a model of bitpacked.py stated over Generated/BitConsts.lean, which is re-extracted from /repo on every run '
             '(module constants plus kernel literals solved from py_func on basis words), so a changed constant breaks a proof. The model is tied to the real code by sweeps over every value of every bit field x random other bits, '
             'all posout/velout modes, all 32 pid-output subsets, float32/float64, dyadic and non-dyadic Box/ppd: integers, velocities, densities exact; positions within 2 ulp; Lagrangian positions within 3 ulp of max(j*Box/ppd, Box/2). '
             'Thorough decodes all 2^32 words with the compiled kernel, compares with the model tables T_pos/T_vel and checks field independence of the implementation bitwise. Through the reader: the pos/vel/pid/lagr_pos/lagr_idx/tagged/density columns CompaSOHaloCatalog delivers (cleaned on/off, A/B, unpack_bits variants, header ppd spelled exactly or as NP**(1/3) a hair off the integer) are compared with the documented decoding of the raw words the same load returns in passthrough mode.',
        note='Trusted: Lean kernel (+propext, Classical.choice, Quot.sound), translator and harness, numba int32->int64 promotion as modelled; float rounding of the final scale multiply bounded, not modelled. '
             'Unclaimed observation (not reachable through the public constructor, which forces unpack_bits=False for light cones): _load_halo_lc_subsamples(unpack_bits=True) raises TypeError.',
        design='§7 C04'),
    'C06': dict(
        technique='Lean 4 proof (exact-rational model of _tsc_scatter/cic_serial/_wrap_inplace; deposited weight = periodic image sum of the documented kernel, independent of tie rounding; superposition) + differential correspondence of the compiled model driver with the compiled and py_func kernels, tsc_parallel(nthread=1) and get_field, exact on dyadic lattices in f32/f64 and toleranced on generic floats, plus an independent Fractions kernel oracle',
        text='22 theorems: axis weights sum to 1 and are non-negative; axis_indices_inbounds_any_ix (for any g >= 1 and ANY integer ix >= 0 — whatever the float product rounded to — the three wrapped subscripts are (ix+d) mod g); '
             'tsc/cic_axis_is_kernel and deposit_is_kernel(_2d) (the weight sent to each cell equals the periodic image sum of the documented TSC/CIC kernel, anisotropic grids, third axis 1); total_conserved, deposit_nonneg, '
             'deposit_superposition, additive(_seq), perm_invariant, axis_roll_equivariant / roll_equivariant (whole-cell shifts with periodic wrap roll the grid, ties included), wrap_inplace_spec, scatter_no_fault. '
             'They hold for every particle list, every g >= 1 per axis and any offset. The model is tied to /repo on every run by running _tsc_scatter (compiled and py_func), tsc_parallel(nthread=1), cic_serial and get_field '
             'on dyadic lattices (all cell centres, half-cell edges, 0, Box, one box outside with wrap, offsets 0 and half a cell, weights, supplied grids, f32/f64, cubic/anisotropic/(g,g,1) shapes 2..9) where float arithmetic is exact and '
             'model and implementation must agree bit for bit, plus a tolerance stream and a directed float-overshoot stream; an independent Fractions evaluation of the documented kernel and the conservation/additivity/permutation/roll relations decide violations. Extended: roll_equivariant_list/_grid/_zero (whole particle lists, supplied grids), a model of power_spectrum.get_field end to end with get_field_spec / _total_unit / _additive / _roll, and forward-error theorems over Q (coord_forward_error, axis_weights_forward_error, cic_axis_weights_forward_error, term_forward_error, sum_forward_error) from which the tolerance of the generic-float stream is now computed instead of chosen by hand.',
        note='Trusted: Lean kernel (+3 std axioms), the harness; float rounding on non-dyadic inputs is bounded (64 eps of the deposited mass), not modelled; int16/int32 index widths out of scope; numba codegen.',
        design='§7 C06'),
    'C07': dict(
        technique='Lean 4 proofs (rounding-separation arithmetic for stripe row sets; generic load/store interleaving model with a lost-update witness) + exhaustive decision-table correspondence of choosePartition with tsc_parallel + recorded row / starts-index footprints of the Python-level kernels + exact whole-run comparison + model-free row-set oracle on every accepted configuration',
        text='rows_disjoint (for all g, np even with 3*np <= g, offsets in [0,1] cell, any two rational positions in distinct equal-parity stripes: their 3-row clouds are disjoint, also across the periodic wrap), two_stripes_safe, '
             'accepted_is_safe (whatever the default choice/validation of tsc_parallel returns satisfies np = 1 or nthread <= 1 or np = 2 or (2 | np and 3 np <= g)), starts_index_inbounds (both loops of _tsc_parallel, odd np too), '
             'Conc.disjoint_footprints_interleave / rmw_interleave (threads as load/store step lists: pairwise disjoint footprints imply EVERY schedule leaves the sequential result) with lost_update_witness, parallel_eq_serial(_stripe_order), narrow_stripe_races. '
             'Tie to /repo on every run: all (n1d <= 64, nthread <= 24, npartition in {None,0,-1} u 1..n1d+1) decisions of the real tsc_parallel vs the model (exhaustive), rows written by _tsc_scatter.py_func on a recording grid vs rowsOf, '
             'starts indices read by _tsc_parallel.py_func, 260 whole tsc_parallel runs (nthread 2..16, coord, sort, offsets, odd np with one thread) bit-identical to the single-thread grid on dyadic inputs, and a model-free oracle that computes the row set of every stripe of every accepted configuration from the real partition + kernel: two equal-parity stripes sharing a row is the failing input. The source-level premise of the schedule theorems — every store inside a numba.prange loop of the anchored kernels goes to memory owned by the executing iteration/thread — is re-extracted from /repo with ast on every run (harness/extract/prange.py -> Generated/PrangeC07.lean) and decided by prange_writes_private, so an edit that makes two iterations write the same cell breaks a proof deterministically instead of waiting for a lost update to show up. Extended: Props/C07Link.lean proves tsc_parallel_eq_serial about the real pipeline: the C17 partition model feeds the two loops, each job runs the C06 kernel model (bridge lemma writes_rows_subset), and for every schedule of both loops the final grid equals the C06 serial scatter of the ORIGINAL particle list; plus a deterministic recorder oracle demanding that the iterations of one prange loop of _tsc_parallel write pairwise disjoint rows, and the stripe-count decision on anisotropic grids along coord 1, 2.',
        note='PARTIAL: the interleaving model is sequentially consistent per array cell and quantifies over arbitrary schedules (over-approximating numba prange); the CPU memory model, the scheduler and one-ulp float stripe keys are trusted. parallel_eq_serial takes stripe contents as a function, linked to C17 by statement.',
        design='§7 C07'),
    'C09': dict(
        technique='Lean 4 proofs (case analysis over the 8 enable patterns x chain position with linear arithmetic over Q; filter/partition induction for the catalogue; ring identities for the light-cone displacement) + differential run of the compiled model driver against the real gen_gal_cat / gen_cent / gen_sats on synthetic tables + independent Python oracle',
        text='marker_eq_cumsum, threshold_rule (+_slices, _catalogue), at_most_one, nested_in_ic (+_scale), later_tracer_irrelevant (+_catalogue), disabled_tracer_captures_nothing, inherits_host (+_catalogue), rsd_only_los_box / _lightcone, rsd_off_identity, '
             'order_and_ncent hold for all tables, tracer subsets, widths, randoms and RSD settings on a statement-level exact-rational model of the marker chain, fill pass, wrap and assembly. Tied to /repo each run by ~600 (quick) cases over all 7 tracer subsets x RSD modes x ranks x '
             '{saturated-exact, generic} parameter sets, with randoms at 0, 1, on and beside markers and rows on the wrap edges; integers exact, floats exact on dyadic inputs and otherwise within 1e-12; an independent Python restatement of the rule decides violations. Detects the repaired r = 0 defect on 5f669f3. Extended: catalogue-level theorems through genGalCat (later_tracer_irrelevant_genGalCat incl. the conformity switch, nested_in_ic_catalogue, and a witness that nesting does not extend to satellites through conformity); the NFW satellite branch (nfw_inherits_host, nfw_rsd: the repaired wrap lands in [-L/2, L/2) for all inputs, nfw_order_and_ncent; the selection rule does not apply there — Poisson counts from numba RNG); and a translator: the width expressions, marker structure and keep[i] chain of gen_cent/gen_sats are re-extracted by symbolic execution over ast into Generated/HodWidths.lean and decided against a specification table (widths_match_spec, markers_match_spec, chain_matches_model), so a dropped ic or a wrong conformity alpha breaks a proof deterministically; if the extractor cannot interpret a refactored source it drops its obligations for that run instead of raising the alarm.',
        note='Occupation widths (erfc/log10/pow) and 1/sqrt are inputs computed with the package own functions; generic rows within 1e-13 of a marker are undecided (fastmath); thread structure is C10. The half-open box range needs -L/2 <= z < L/2 and |v_z/velz2kms| <= L (or |z| <= L/2 and strict <), shown sharp by an example.',
        design='§7 C09'),
    'C10': dict(
        technique='Lean 4 proofs (structural induction over the thread-block boundary list; fill-pass write list = enumeration of the filter; permutation lemma for writes to distinct cells) + differential and independent-oracle runs of gen_gal_cat across 1..16 threads, exhaustive fast_concatenate, rint(linspace) block sweep',
        text='twoPass_run, fill_is_filter (for every T >= 1, EVERY monotone block sequence incl. T > H and H = 0, and each class: write indices are exactly 0..N_c-1 each once and the array is the row-ordered filter), thread_count_independent, count_fill_agree, blocks_partition, '
             'applyWrites_perm / schedule_independent (distinct cells: every order of the writes gives the same arrays), fastConcat_spec / _branches / _schedule_independent, searchsorted_pointwise, rint_linspace_blocks. Tied to /repo each run: gen_gal_cat(Nthread = 1..16) on host tables 0..40 and particle tables 0..200, '
             'all 7 tracer subsets: every column, row order and Ncent bitwise identical to one thread, an independent row-by-row oracle, the model-predicted row placement; fast_concatenate exhaustive over N1, N2 <= 12, T <= 16; the real rint(linspace) boundaries for all H <= 300, T <= 64 checked to be a monotone 0..H block sequence (the premise of the theorems). The source-level premise of the schedule theorems — every store inside a numba.prange loop of the anchored kernels goes to memory owned by the executing iteration/thread — is re-extracted from /repo with ast on every run (harness/extract/prange.py -> Generated/PrangeC10.lean) and decided by prange_writes_private, so an edit that makes two iterations write the same cell breaks a proof deterministically instead of waiting for a lost update to show up. Extended: searchsorted_spec (binary search = left insertion point on sorted tables; the found element equals the key when present), schedule_independent_all (cells of the whole fill pass, tagged by tracer, pairwise distinct), and interleaving-level theorems on atomic load/store steps (fill_interleave, count_interleave with its non-atomic +=, fastConcat_interleave): every complete schedule leaves the sequential arrays.',
        note='PARTIAL: memory model and numba scheduler trusted (over-approximated by any order of writes to distinct cells); keep codes are inputs (C09); sizes below 2^40 for the float floor in the thread split; the real code runs in a child process because a broken fill pass corrupts the heap.',
        design='§7 C10'),
    'C14': dict(
        technique='Lean 4 proof (invariant relating parser state, unread input and payloads still owed, by induction over the loop fuel and over the chunks) + correspondence of the compiled model driver with BloscCompressor.decompress/.compress on all chunkings of short streams, random large streams, compress round trips and asdf end-to-end reads',
        text='feed_invariant, decompress_chunking_independent (every well-formed stream, EVERY chunking incl. empty and 1-byte chunks: the frames handed to the codec are exactly the payloads in order and the parser ends idle), decompress_same_for_all_chunkings, bytesOut_sum, '
             'compress_decompress_id (any data, itemsize >= 1, block size >= itemsize, any codec with dec.enc = id and non-empty frames, every chunking), compress_zero_step, truncated_stream_detected, on a branch-by-branch model of the while-loop. Tied to /repo every run by diffing frames, lengths, per-chunk progress, write addresses and output '
             'for all 2^(n-1) chunkings of 9 short stream profiles (~49 000 stream/chunking pairs quick), random streams of 1-40 frames with cuts forced inside every prefix byte, 491 compress cases, and asdf.open(...)[...][:] on blsc files. Extended: pos_dead (the left-over _pos never influences behaviour), malformed input (zero_payload_handed_over/_skipped, truncated_inside_frame, trailing_garbage_ignored), a linear-time model proved equal to the simple one (decompressF_eq) so long payloads are compared at 1-byte chunks, and the compress keyword handling (compressK_spec, compressK_shuffle_error).',
        note='Trusted: the codec (a parameter; the blosc stand-in or a toy codec patched into it), the harness; _pos is dead state (final state is stated up to it).',
        design='§7 C14'),
    'C17': dict(
        technique='Lean 4 proof (parallel counting sort = stable partition for every monotone thread-block sequence and every permutation of the write list) + seeded structured correspondence of the compiled model driver with partition_parallel (compiled and py_func) + independent permutation/stripe/starts oracle',
        text='partition_stable (output = concatenation over stripes of the input filtered by key in input order, for every npartition, thread count, monotone block list and EVERY permutation of the scatter write list), scatter_indices_perm, starts_spec, partition_nthread_independent, '
             'more_threads_than_particles, empty_input, linspaceBlocks_ok, weights_move_with_positions, key_spec, sorted_stripes. Tied to /repo each run on ~2700 cases: N in 0..200, nthread 1..16 (incl. > N), npartition 1..40, coord, f4/f8, weights, sort, duplicates, values on stripe boundaries and at Box (dyadic boxes so the float key is exact); '
             'rows compared as (x,y,z,w) tuples, input vs a pre-call copy, starts; the oracle checks permutation, weights moving with positions, exact stripe membership, starts, sortedness without the model. The source-level premise of the schedule theorems — every store inside a numba.prange loop of the anchored kernels goes to memory owned by the executing iteration/thread — is re-extracted from /repo with ast on every run (harness/extract/prange.py -> Generated/PrangeC17.lean) and decided by prange_writes_private, so an edit that makes two iterations write the same cell breaks a proof deterministically instead of waiting for a lost update to show up.',
        note='Trusted: Lean kernel, harness, float key exact only on dyadic boxes, numba argsort by specification.',
        design='§7 C17'),
    'C20': dict(
        technique='Lean 4 proof (validation precedes output; the client parse inverts emit, by induction over fields and files) + byte-for-byte correspondence of unpack_to_pipe and the pipe_asdf CLI with the model on synthetic uncompressed and blsc ASDF files',
        text='emit_error_writes_nothing, emit_validation_complete (whenever tty / missing file / missing field is reported, zero bytes were written), parse_emit (for every valid request the client recovers, per field in request order, count, width and the per-file raw bytes concatenated in file order, payload length = count x width), '
             'parse_unambiguous. Tied to /repo each run by ~130 cases (1-4 files, 1-4 fields incl. repeated, 1-D and (N,3)/(N,5) columns, widths 1-8, empty columns, blsc and uncompressed, missing file/field in the k-th position, tty pipe) compared byte for byte, plus the CLI in a subprocess; oracle = struct.pack + tobytes. Extended: the CLI main is modelled (parseArgv, cli_run, cli_error_writes_nothing, parseArgv_canonical) and 6 CLI subprocess cases run per quick check; 0-d columns and the empty file list (outside the quantifier) are modelled faithfully (emit_zero_dim, emit_no_files) and compared model-vs-code.',
        note='Trusted: asdf, the blosc stand-in, a little-endian host; one item width per field assumed; 0-d columns and an empty file list are outside the quantifier (modelled, not generated).',
        design='§7 C20'),
    'C01': dict(
        technique='Lean 4 proof (closed form of the staged reader model by induction over superslabs and rows, C19 cumsum model reused) + correspondence of the compiled model driver with CompaSOHaloCatalog on synthetic catalog trees, word for word, + truth oracle',
        text='Under the decidable well-formedness wf (ranges of kept, not-cleaned-away halos inside their particle file, merge ranges inside the cleaning file; shown satisfiable): load_spec, slices_correct (for every row and loaded subsample the slice npstart:npstart+npout is exactly '
             'that halo original particles — none if cleaned away — followed by its merged particles), tiling (contiguous, A before B, lengths sum to the table, every cell written exactly once), decode_commutes, lc_slices, zipper_inbounds, on a model that mirrors the reader stage by stage '
             '(per-file compaction, N_halo_per_file, zeroing of cleaned-away counts, cumsum offsets carried from A into B, per-halo zipper with numba clipped-slice semantics, replacement of the index columns). Tied to /repo on every run by ~107 real loads over catgen trees '
             '(1-4 superslabs, 0-6 halos incl. empty slabs, cleaned on/off, A/B/both, pos/vel/pid/rvint/packedpid subsets, unpack_bits, passthrough, dir / halo_info / file / list paths, filters, light cones, truncated files), table compared word for word; an oracle slices the returned table by the returned npstart/npout and compares with the particles catgen wrote. Extended: wfE is an explicit predicate on the input (wf_iff), every offset read goes through the index rule (zipper_index_rule), the preallocated halo table and its compaction are modelled as write lists (table_compaction), and the uint32 wrap of npout + npout_merge is an explicit hypothesis shown necessary (uint32_sum_wraps).',
        note='Trusted: catgen arrays as the raw records, asdf/astropy, bitpacked decoders (C04) for unpacked columns, numba slice semantics as modelled; NUMBA_BOUNDSCHECK=1. uint32 overflow of npout + merge out of scope.',
        design='§7 C01'),
    'C03': dict(
        technique='Lean 4 proofs over the C01 model (load_append, load_filter via closed forms; decision model of _setup_file_paths) + metamorphic real-vs-real glue/mask oracle + model correspondence + path-decision correspondence',
        text='load_append (loading s1 ++ s2 = gluing the two loads: rows concatenated, particle slices re-based by the A and B totals), load_filter (a filtered load = applying the mask to the unfiltered load and re-indexing contiguously), load_filter_none, load_filter_nothing '
             '(all-false masks: empty tables — the cumsum N = 0 path), filter_sees_N (cleaned, non-passthrough: the filter sees the cleaned count as N), paths_spec / paths_mixed_first (duplicates and foreign files rejected, superslab index from the file name). '
             'Tied to /repo each run by ~99 real loads (subsets and orders of files vs per-file loads glued by the harness; masks all/nothing/random/parity/N-threshold drawn per superslab, recording which N the filter saw; light cones with filters) and 150 _setup_file_paths calls; every combined load also goes through the C01 truth oracle and model. Extended: the Lean glue and applyMask are driven from the harness on every run and compared with the real combined / filtered loads (closed forms specRes_append, specRes_masked).',
        note='Trusted as C01; the Lean glue/applyMask definitions are tied to the code only through the theorems and the shared load (the harness has its own Python glue/mask as oracle); int() modelled for decimal tokens.',
        design='§7 C03'),
    'C08': dict(
        technique='Lean 4 proofs (two-pointer loop invariant, Hermitian re-indexing, conjugation-symmetric sum re-indexing, fiberwise thread sums, decide +kernel Legendre table) over an executable contribution-list model of bin_kmu / bin_kppi / P_n; differential correspondence with the compiled kernels (plain, NUMBA_BOUNDSCHECK=1 sub-process, py_func) and calc_pk_from_deltak; independent full-mesh fftfreq brute-force oracle',
        text='fold_is_fftfreq, hermitian_reindex, lead_is_least, kmu/kppi_search_inbounds, thread_independent, kmu_counts_exact / kppi_counts_exact (counts[b][m] = number of modes of the FULL n^3 fftfreq mesh classified to the bin, every n >= 1 odd or even, every edge list), kmu_means / kppi_means / kmu_pole_means '
             '(reported power, k_avg and (2l+1)-weighted poles are means over exactly those modes for conjugation-symmetric meshes), monopole_is_mu_average, legendre_table, Pn_zero/two/four. Tied to /repo on every run on all n <= 12 (24 thorough) x float32/float64 x 10 k-edge families '
             '(below/at/above Nyquist and the diagonal, log, ties on attained |k|^2) x mu / pi / pole / thread variants: counts exactly, means within stated bounds; a brute-force oracle over the full mesh decides violations; every case first runs in a bounds-checked sub-process. Detects the four repaired defects on 5f669f3. The source-level premise of the schedule theorems — every store inside a numba.prange loop of the anchored kernels goes to memory owned by the executing iteration/thread — is re-extracted from /repo with ast on every run (harness/extract/prange.py -> Generated/PrangeC08.lean) and decided by prange_writes_private, so an edit that makes two iterations write the same cell breaks a proof deterministically instead of waiting for a lost update to show up. Extended: the pole theorem is unconditional for every even order the code supports (Pn_even_orders, kmu_pole_means_supported, Pn_rejects_above_ten; odd orders as mu x polynomial in PnMu_all_orders), configuration-space mode fourier=False (shape_irrelevant, kmu_means_config_space), get_k_mu_edges modelled (get_k_mu_edges_wellformed, calc_power_binnings_inbounds: calc_power own binnings satisfy the preconditions of the in-bounds theorem), and the sibling loops with the old fold are observed (sibling_fold_differs_only_odd_middle).',
        note='Trusted: Lean kernel, harness and oracle, numba bounds checking; float rounding of mu^2 and edge squares and fastmath summation order (stated tolerances, tie nudging counted in the evidence); odd multipoles not modelled; prange as an arbitrary row-to-thread assignment.',
        design='§7 C08'),
    'C13': dict(
        technique='Lean 4 proofs over C on (ZMod n)^3 (Mathlib ZMod.stdAddChar: DFT shift theorem by re-indexing the finite sum, character orthogonality, fibrewise sums; window positivity) + stage-wise correspondence of the compiled Float model driver with normalize_field / _normalize / get_field_fft / get_W_compensated / get_raw_power and scipy rfftn on meshes <= 6^3 + metamorphic oracle on the real calc_power',
        text='dft_shift, dft_const, fourierField_translate, power_ / cross_power_ / table_translation_invariant, power_perm_invariant, cross_eq_auto, nmode_particle_free, thread_independent, codedPhase_unit, codedW_pos and calc_power_symmetries hold for every mesh, '
             'particle list, whole-cell shift, phase, real window, binning and thread assignment; the deposit hypotheses (additive, roll-equivariant) are discharged from the C06 theorems in Props/C13Link.lean (calc_power_symmetries_c06: TSC and CIC, offsets 0 and half a cell). '
             'Tied to /repo on every run: normalisations exactly, rfftn vs a naive DFT (1e-12), get_field_fft for meshes 2..6 x TSC/CIC x interlaced x compensated x weights x threads (5e-5 of max|F|, observed 1e-6), get_W_compensated, get_raw_power; and the metamorphic relations on the real calc_power '
             '(permutation, whole-cell translation with wrap on dyadic lattices, nthread in {1,2,5,16}, pos2 = pos, particle-independence of N_mode / k / mu columns and table shape) over nmesh 4..16 incl. odd x TSC/CIC x compensated x interlaced x binnings x poles x weights. The source-level premise of the schedule theorems — every store inside a numba.prange loop of the anchored kernels goes to memory owned by the executing iteration/thread — is re-extracted from /repo with ast on every run (harness/extract/prange.py -> Generated/PrangeC13.lean) and decided by prange_writes_private, so an edit that makes two iterations write the same cell breaks a proof deterministically instead of waiting for a lost update to show up. Extended: Props/C13LinkC08.lean instantiates the abstract binning with the C08 model (c08Binning, binKmuR_eq_binning): nmode_particle_free_c08, table_translation_invariant_c08, calc_power_symmetries_c08, thread_independent_c08, dft3_conj_symm (DFT of a real grid is Hermitian), c08_wsum_full_mesh; Props/C13LinkAll.lean combines the C06 deposit and the C08 binning with no hypothesis left (calc_power_symmetries_c06_c08).',
        note='PARTIAL: exact-arithmetic model over the complex numbers; IEEE rounding, numba fastmath and scipy rfftn are assumed and compared under stated bounds (5e-5 of the column scale for calc_power outputs, observed <= 1e-6). The binning is an abstract weighted mean (the interface C08 instantiates); thread independence of the deposit is C07.',
        design='§7 C13'),
    'C02': dict(
        technique='Lean 4 proofs on a statement-level model of _setup_fields, _read_halo_info, _get_halo_fields_dependencies and _load_halo_field, generic over loader/dtype tables regenerated from /repo (dependency order, loading-loop invariant, request-free denotation) + bit-exact differential loads of the real class with model-predicted dependency info and value terms',
        text='deps_order, deps_ok, column_independent (for any request, order, cleaned flag, subsample selection, light cone or not, every returned column value is Denotes c — the loader applied to its dependencies direct evaluations, each cast to its own declared dtype — which mentions no request), '
             'column_independent_pair, setupFields_index_cols, generated_wf/generated_wf2 (the regenerated tables pass the decidable well-formedness the theorems need), and no_request_dependent_failure_partial: once allocation has succeeded, dependency capture, temporary creation and the whole loading loop cannot fail for any combination of columns. '
             'Tied to /repo each run by ~300 real loads: every valid column alone vs random co-requests in random order vs all vs defaults, with and without subsamples, cleaned on/off, light cone: '
             'dtype, shape and bytes must be identical, no exception for any valid request; the model must predict fields, cleaned_fields, fields_with_deps, extra_fields, raw dependencies, final columns and a value term per column evaluated with the real closures. Extended: no_request_dependent_failure is now proved IN FULL (the whole construct path setupFields -> allocate -> reshapeMainprog -> deps -> loadAll -> finish returns ok for every request satisfying the decidable guard validRequest — names declared for the catalog kind, cleaning columns and N listed at most once on cleaned catalogs, something left to load — with the data-model files providing the raw columns; the four request classes the guard excludes are exactly those the real class rejects, checked on every run by an accept/reject agreement stream).',
        note='Non-passthrough path only (passthrough and filter_func are C01/C03); astropy in-place column assignment trusted; the translator (symbolic execution of the loader closures) is validated numerically on every run.',
        design='§7 C02'),
    'C05': dict(
        technique='Lean 4 proofs over a loader table regenerated from /repo by symbolic execution of the real loader closures (degree-checker soundness, kernel-decided unit and ratio tables, Real.sqrt dispersion identity) + translator validated numerically each run + end-to-end correspondence and an independent oracle on synthetic catalogs',
        text='homog_sound (a column whose expression has degree (a,b) equals box^a vel^b times its box = vel = 1 value, for all raw values and all BoxSize, VelZSpace_to_kms > 0), units_table (decide +kernel over the regenerated table: every length-like column has degree (1,0), every velocity-like (0,1), everything else (0,0), against a spec table written from the statement), '
             'units_loaded, ratio_columns (each of the 30 ratio columns = int16/32000 x the column it is relative to), sigman_columns, dispersion_identity (sigmavMin^2 + sigmavMid^2 + sigmavMaj^2 = sigmav3d^2 as loaded, any BoxSize and VelZSpace_to_kms). The 105 column expressions are re-extracted from the working tree on every run, so a loader scaled by the wrong factor breaks units_table. '
             'Tied end to end: real loads of catgen trees (cleaned/uncleaned/light cone, BoxSize != VelZSpace_to_kms always) under convert_units on and off: converted/unconverted = exactly the factor on dyadic inputs (1e-6 otherwise), formulas per kind recomputed from the raw arrays, the dispersion identity to 1e-5.',
        note='Trusted: Lean kernel (+3 axioms), the translator, catgen, float32 products within 1e-6 (exact on dyadic inputs), _unpack_euler16 as given (C18).',
        design='§7 C05'),
}

NOT_YET = {}


def main():
    props = [json.loads(l) for l in (VERIF / 'properties.jsonl').read_text().splitlines() if l.strip()]
    checks = []
    na = []
    for p in props:
        pid = p['id']
        if pid in CHECKS:
            c = CHECKS[pid]
            checks.append({
                'property_id': pid,
                'quick_cmd': './check %s --tier quick' % pid,
                'thorough_cmd': './check %s --tier thorough' % pid,
                'evidence_file': 'evidence/%s.json' % pid,
                'replay_cmd_template': './check %s --replay {path}' % pid,
                'engine': 'lean4-proof+correspondence',
                'level_claimed': {'category': 'proof', 'text': c['text'], 'design_ref': c['design']},
                'level_note': c['note'],
                'technique': c['technique'],
            })
        else:
            na.append({'property_id': pid, 'reason': NOT_YET.get(pid, 'check not built yet (work in progress; see DESIGN.md §7 for the plan)')})
    man = {
        'version': 1,
        'setup_cmd': './setup.sh',
        'hooks': {
            'guard': 'ABACUSUTILS_VERIF',
            'enable': 'no source hooks: the checks import /repo\'s working tree in-process (PYTHONPATH) and observe public functions, '
                      'Dispatcher.py_func, NUMBA_BOUNDSCHECK=1 and harness-side wrappers; ABACUSUTILS_VERIF=1 is set by the harness but read by nothing in /repo',
            'baseline_off_cmd': 'cd /repo && /venv/bin/python -m pytest -ra -q -p no:cacheprovider --timeout=900 --continue-on-collection-errors',
            'source_commits': [],
            'add_only': True,
        },
        'engines': [{
            'name': 'lean4-proof+correspondence',
            'path': 'lean/ (models, theorems, drivers), harness/ (vcommon.py, props/*.py)',
            'serves_properties': sorted(CHECKS),
            'kind_free_text': 'Lean 4 theorems about executable models of the anchored code; the models are tied to /repo on every run by '
                              'differential runs of compiled model drivers against the real code and by translators that regenerate model constants/tables from the imported modules',
        }],
        'checks': checks,
        'not_applicable': na,
        'notes': 'exit 0 held / 1 VIOLATION / 2 infrastructure. Repairs of genuine defects are fix: commits in /repo, recorded in known_findings.json.',
    }
    (VERIF / 'MANIFEST.json').write_text(json.dumps(man, indent=1) + '\n')
    import jsonschema  # noqa
    jsonschema.validate(man, json.loads(Path('/root/.vp/MANIFEST.schema.json').read_text()))
    print('MANIFEST ok:', len(checks), 'checks,', len(na), 'not claimed')


if __name__ == '__main__':
    main()
