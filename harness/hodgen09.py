"""
Synthetic inputs for the HOD galaxy generator (C09): halo_data / particle_data / tracers / params
dictionaries that the real `GRAND_HOD.gen_gal_cat`, `gen_cent`, `gen_sats` accept, the per-row slice
widths (computed with the package's own occupation functions, the expressions re-derived from
`gen_cent` / `gen_sats`), and a plain restatement of the selection rule.

A *case* is a JSON-able dict (lists of Python floats/ints round-trip exactly):

    {'label', 'flavor', 'subset': 'LE', 'rsd': bool, 'ranks': bool,
     'halo': {col: list}, 'part': {col: list}, 'tracers': {T: {k: float}}, 'params': {...}}
"""
import math
from fractions import Fraction

import numpy as np
from numba import njit

from abacusnbody.hod import GRAND_HOD as G

TR = ['LRG', 'ELG', 'QSO']
LETTER = {'L': 'LRG', 'E': 'ELG', 'Q': 'QSO'}
SUBSETS = ['L', 'E', 'Q', 'LE', 'LQ', 'EQ', 'LEQ']
NTHREAD = 2

HCOLS3 = ['hpos', 'hvel', 'hveldev']
HCOLS1 = ['hmass', 'hmultis', 'hrandoms', 'hdeltac', 'hfenv', 'hshear']
PCOLS3 = ['ppos', 'pvel', 'phvel']
PCOLS1 = ['phmass', 'pweights', 'prandoms', 'pdeltac', 'pfenv', 'pshear', 'pranks', 'pranksv', 'pranksp',
          'pranksr', 'pranksc']

# occupation functions of the package, referenced from the compiled helpers below
_n_cen_LRG = G.n_cen_LRG
_N_cen_ELG_v1 = G.N_cen_ELG_v1
_N_cen_QSO = G.N_cen_QSO
_n_sat_LRG_modified = G.n_sat_LRG_modified
_N_sat_elg = G.N_sat_elg
_N_sat_generic = G.N_sat_generic


# ----------------------------------------------------------------------------- widths
# compiled with the same flags as gen_cent / gen_sats so that `10 ** x`, erfc, log10 are lowered
# the same way; the expressions are those of the first pass of gen_cent / gen_sats

@njit(fastmath=True)
def _cent_widths(mass, multis, deltac, fenv, shear, en, pL, pE, pQ):
    H = len(mass)
    out = np.zeros((H, 3))
    for i in range(H):
        if en[0]:
            lmc = pL[0] + pL[3] * deltac[i] + pL[4] * fenv[i]
            out[i, 0] = _n_cen_LRG(mass[i], lmc, pL[1]) * pL[2] * multis[i]
        if en[1]:
            lmc = pE[2] + pE[6] * deltac[i] + pE[7] * fenv[i] + pE[8] * shear[i]
            out[i, 1] = _N_cen_ELG_v1(mass[i], pE[0], pE[1], lmc, pE[3], pE[4]) * pE[5] * multis[i]
        if en[2]:
            lmc = pQ[0] + pQ[3] * deltac[i] + pQ[4] * fenv[i]
            out[i, 2] = _N_cen_QSO(mass[i], lmc, pQ[1]) * pQ[2] * multis[i]
    return out


@njit(fastmath=True)
def _sat_widths(hmass, weights, dc, fe, sh, ranks, ranksv, ranksp, ranksr, enable_ranks, en, pL, pE, pQ):
    """columns: LRG, ELG (host central code not 1/2), ELG (code 1), ELG (code 2), QSO"""
    P = len(hmass)
    out = np.zeros((P, 5))
    for i in range(P):
        if en[0]:
            # pL = logM_cut, logM1, sigma, alpha, kappa, s, s_v, s_p, s_r, Acent, Asat, Bcent, Bsat, ic
            M1 = 10 ** (pL[1] + pL[10] * dc[i] + pL[12] * fe[i])
            lmc = pL[0] + pL[9] * dc[i] + pL[11] * fe[i]
            base = _n_sat_LRG_modified(hmass[i], lmc, 10 ** lmc, M1, pL[2], pL[3], pL[4]) * weights[i] * pL[13]
            if enable_ranks:
                deco = 1 + pL[5] * ranks[i] + pL[6] * ranksv[i] + pL[7] * ranksp[i] + pL[8] * ranksr[i]
                out[i, 0] = base * deco
            else:
                out[i, 0] = base
        if en[1]:
            # pE = logM_cut, kappa, logM1, alpha, A_s, s, s_v, s_p, s_r, Acent, Asat, Bcent, Bsat, Ccent, Csat, ic,
            #      logM1_EE, alpha_EE, logM1_EL, alpha_EL
            lmc = pE[0] + pE[9] * dc[i] + pE[11] * fe[i] + pE[13] * sh[i]
            M1 = 10 ** (pE[2] + pE[10] * dc[i] + pE[12] * fe[i] + pE[14] * sh[i])
            b0 = _N_sat_elg(hmass[i], 10 ** lmc, pE[1], M1, pE[3], pE[4]) * weights[i] * pE[15]
            M1 = 10 ** (pE[18] + pE[10] * dc[i] + pE[12] * fe[i])
            b1 = _N_sat_elg(hmass[i], 10 ** lmc, pE[1], M1, pE[19], pE[4]) * weights[i] * pE[15]
            M1 = 10 ** (pE[16] + pE[10] * dc[i] + pE[12] * fe[i])
            b2 = _N_sat_elg(hmass[i], 10 ** lmc, pE[1], M1, pE[17], pE[4]) * weights[i] * pE[15]
            if enable_ranks:
                deco = 1 + pE[5] * ranks[i] + pE[6] * ranksv[i] + pE[7] * ranksp[i] + pE[8] * ranksr[i]
                b0 = b0 * deco
                b1 = b1 * deco
                b2 = b2 * deco
            out[i, 1] = b0
            out[i, 2] = b1
            out[i, 3] = b2
        if en[2]:
            # pQ = logM_cut, kappa, logM1, alpha, s, s_v, s_p, s_r, Acent, Asat, Bcent, Bsat, ic
            M1 = 10 ** (pQ[2] + pQ[9] * dc[i] + pQ[11] * fe[i])
            lmc = pQ[0] + pQ[8] * dc[i] + pQ[10] * fe[i]
            base = _N_sat_generic(hmass[i], 10 ** lmc, pQ[1], M1, pQ[3]) * weights[i] * pQ[12]
            if enable_ranks:
                deco = 1 + pQ[4] * ranks[i] + pQ[5] * ranksv[i] + pQ[6] * ranksp[i] + pQ[7] * ranksr[i]
                out[i, 4] = base * deco
            else:
                out[i, 4] = base
    return out


def effective(tracers, params):
    """what gen_gals puts into the typed dicts: z-evolved logM_cut / logM1 and the defaults"""
    eff = {}
    for T, hod in tracers.items():
        d = dict(hod)
        Delta_a = 1.0 / (1 + params['z']) - 1.0 / (1 + hod.get('z_pivot', params['z']))
        d['logM_cut'] = hod['logM_cut'] + hod.get('logM_cut_pr', 0.0) * Delta_a
        d['logM1'] = hod['logM1'] + hod.get('logM1_pr', 0.0) * Delta_a
        for k in ('Acent', 'Asat', 'Bcent', 'Bsat'):
            d[k] = hod.get(k, 0.0)
        d['ic'] = hod.get('ic', 1.0)
        if T == 'ELG':
            d['Ccent'] = hod.get('Ccent', 0.0)
            d['Csat'] = hod.get('Csat', 0.0)
            d['logM1_EE'] = hod.get('logM1_EE', d['logM1'])
            d['alpha_EE'] = hod.get('alpha_EE', d['alpha'])
            d['logM1_EL'] = hod.get('logM1_EL', d['logM1'])
            d['alpha_EL'] = hod.get('alpha_EL', d['alpha'])
        eff[T] = d
    return eff


def enabled(case):
    return [T in case['tracers'] for T in TR]


def _vec(d, keys):
    return np.array([float(d[k]) for k in keys], dtype=np.float64)


def cent_widths(case, arr):
    eff = effective(case['tracers'], case['params'])
    en = np.array(enabled(case))
    z = np.zeros(9)
    pL = _vec(eff['LRG'], ['logM_cut', 'sigma', 'ic', 'Acent', 'Bcent']) if en[0] else z
    pE = _vec(eff['ELG'], ['p_max', 'Q', 'logM_cut', 'sigma', 'gamma', 'ic', 'Acent', 'Bcent', 'Ccent']) if en[1] else z
    pQ = _vec(eff['QSO'], ['logM_cut', 'sigma', 'ic', 'Acent', 'Bcent']) if en[2] else z
    h = arr['halo']
    return _cent_widths(h['hmass'], h['hmultis'], h['hdeltac'], h['hfenv'], h['hshear'], en, pL, pE, pQ)


def sat_widths(case, arr):
    eff = effective(case['tracers'], case['params'])
    en = np.array(enabled(case))
    z = np.zeros(20)
    pL = _vec(eff['LRG'], ['logM_cut', 'logM1', 'sigma', 'alpha', 'kappa', 's', 's_v', 's_p', 's_r',
                           'Acent', 'Asat', 'Bcent', 'Bsat', 'ic']) if en[0] else z
    pE = _vec(eff['ELG'], ['logM_cut', 'kappa', 'logM1', 'alpha', 'A_s', 's', 's_v', 's_p', 's_r',
                           'Acent', 'Asat', 'Bcent', 'Bsat', 'Ccent', 'Csat', 'ic',
                           'logM1_EE', 'alpha_EE', 'logM1_EL', 'alpha_EL']) if en[1] else z
    pQ = _vec(eff['QSO'], ['logM_cut', 'kappa', 'logM1', 'alpha', 's', 's_v', 's_p', 's_r',
                           'Acent', 'Asat', 'Bcent', 'Bsat', 'ic']) if en[2] else z
    p = arr['part']
    return _sat_widths(p['phmass'], p['pweights'], p['pdeltac'], p['pfenv'], p['pshear'],
                       p['pranks'], p['pranksv'], p['pranksp'], p['pranksr'], bool(case['ranks']), en, pL, pE, pQ)


def sat_triples(w5, kc):
    """(P,3) widths of gen_sats given keep_cent per particle (the conformity switch)"""
    kc = np.asarray(kc)
    wE = np.where(kc == 1, w5[:, 2], np.where(kc == 2, w5[:, 3], w5[:, 1]))
    return np.stack([w5[:, 0], wE, w5[:, 4]], axis=1) if len(kc) else np.zeros((0, 3))


# ----------------------------------------------------------------------------- the rule, restated

def rule(en, w, r):
    """the reading R of the property: markers are the cumulative widths of the enabled tracers in the
    order LRG, ELG, QSO; the host belongs to the first enabled tracer whose marker is >= r"""
    m = 0.0
    for t in range(3):
        if en[t]:
            m = m + float(w[t])
            if r <= m:
                return t + 1
    return 0


def markers(en, w):
    out = []
    m = 0.0
    for t in range(3):
        if en[t]:
            m = m + float(w[t])
            out.append(m)
    return out


def exact_row(en, w):
    """every partial sum of the enabled widths, in any association, is exactly representable:
    the float markers are then the exact rational markers whatever fastmath does"""
    ws = [Fraction(float(w[t])) for t in range(3) if en[t]]
    n = len(ws)
    for mask in range(1, 1 << n):
        s = sum((ws[k] for k in range(n) if mask >> k & 1), Fraction(0))
        try:
            if Fraction(float(s)) != s:
                return False
        except OverflowError:
            return False
    return True


AMBIG = 1e-13


# ----------------------------------------------------------------------------- generators

def _dy(rng, lo, hi, q, size=None):
    """multiples of 1/q in [lo, hi]"""
    return rng.integers(int(lo * q), int(hi * q) + 1, size=size) / float(q)


def gen_tracers(rng, subset, flavor):
    tr = {}
    exact = flavor == 'exact'
    for c in subset:
        T = LETTER[c]
        if exact:
            d = dict(logM_cut=float(rng.choice([12.0, 14.0])), logM1=13.0, sigma=0.0078125,
                     alpha=0.0, kappa=float(rng.choice([0.0, 0.0, 1e6])),
                     alpha_c=float(_dy(rng, 0, 2, 8)), alpha_s=float(_dy(rng, 0, 2, 8)),
                     s=float(rng.choice([0.0, 0.5, -0.5, 1.0])), s_v=float(rng.choice([0.0, 0.25])),
                     s_p=float(rng.choice([0.0, -0.25])), s_r=float(rng.choice([0.0, 0.5])),
                     ic=float(rng.choice([1.0, 0.5, 0.25, 0.125, 0.0])),
                     Acent=float(rng.choice([0.0, 0.125])), Bcent=float(rng.choice([0.0, -0.125])),
                     Asat=float(rng.choice([0.0, 0.125])), Bsat=float(rng.choice([0.0, 0.25])))
            if T == 'LRG':
                d['kappa'] = 0.0      # n_sat_LRG_modified: width in {0, weight*ic*deco} by the erfc alone
            if T == 'ELG':
                # centrals: x == mean at mass 1e13 (width c/2 * ic * multi), 0 elsewhere; no AB on the cut
                # sigma = 2^-7, p_max - 1/Q = 2^-8: N_cen_ELG_v1 = 2 * 2^-8 * (c * 2^7) * 0.5 = c/2, c = 0.3989422804014327
                d.update(p_max=0.50390625, Q=2.0, logM_cut=13.0, sigma=0.0078125,
                         gamma=float(rng.choice([1.0, 4.0])), A_s=float(rng.choice([1.0, 0.5, 2.0])),
                         Acent=0.0, Bcent=0.0, Ccent=0.0, Csat=float(rng.choice([0.0, 0.125])))
                if rng.random() < 0.5:
                    d.update(logM1_EE=12.0, alpha_EE=0.0, logM1_EL=14.0, alpha_EL=0.0)
        else:
            d = dict(logM_cut=float(rng.uniform(11.8, 13.6)), logM1=float(rng.uniform(13.0, 14.6)),
                     sigma=float(rng.uniform(0.05, 1.0)), alpha=float(rng.uniform(0.4, 1.6)),
                     kappa=float(rng.uniform(0.0, 1.5)), alpha_c=float(rng.uniform(0, 0.6)),
                     alpha_s=float(rng.uniform(0.4, 1.6)),
                     s=float(rng.uniform(-0.8, 0.8)), s_v=float(rng.uniform(-0.5, 0.5)),
                     s_p=float(rng.uniform(-0.5, 0.5)), s_r=float(rng.uniform(-0.5, 0.5)))
            if rng.random() < 0.75:
                d['ic'] = float(rng.uniform(0.2, 1.0))
            if rng.random() < 0.7:
                d.update(Acent=float(rng.normal(0, 0.3)), Bcent=float(rng.normal(0, 0.3)),
                         Asat=float(rng.normal(0, 0.3)), Bsat=float(rng.normal(0, 0.3)))
            if rng.random() < 0.3:
                d.update(z_pivot=float(rng.uniform(0.2, 1.2)), logM_cut_pr=float(rng.normal(0, 0.5)),
                         logM1_pr=float(rng.normal(0, 0.5)))
            if T == 'ELG':
                d.update(p_max=float(rng.uniform(0.1, 1.0)), Q=float(rng.uniform(20, 200)),
                         gamma=float(rng.uniform(0.5, 8)), A_s=float(rng.uniform(0.3, 2.0)),
                         logM_cut=float(rng.uniform(11.3, 12.8)))
                if rng.random() < 0.7:
                    d.update(Ccent=float(rng.normal(0, 0.3)), Csat=float(rng.normal(0, 0.3)))
                if rng.random() < 0.7:
                    d.update(logM1_EE=float(rng.uniform(12.5, 14.5)), alpha_EE=float(rng.uniform(0.3, 1.8)),
                             logM1_EL=float(rng.uniform(12.5, 14.5)), alpha_EL=float(rng.uniform(0.3, 1.8)))
        tr[T] = d
    # dict order of `tracers` is the caller's business: shuffle it
    keys = list(tr)
    rng.shuffle(keys)
    return {k: tr[k] for k in keys}


def gen_case(rng, H, P, subset, flavor, rsdmode, ranks, label=''):
    """rsdmode: 'off' | 'box' | 'lc' | 'off+origin' (rsd False, origin given)"""
    exact = flavor == 'exact'
    if exact:
        L = float(rng.choice([128.0, 64.0, 1024.0]))
        velz2kms = float(rng.choice([64.0, 16.0, 128.0]))
        z = 0.5
    else:
        L = float(rng.uniform(50, 2000))
        velz2kms = float(rng.uniform(50, 200))
        z = float(rng.uniform(0.1, 1.5))
    if rsdmode in ('lc', 'off+origin'):
        if rng.random() < 0.7:
            origin = [float(-L * rng.integers(1, 3)), float(-L * rng.integers(0, 3)), float(L * rng.integers(-1, 2))]
        else:
            origin = [float(v) for v in rng.uniform(-L / 2, L / 2, 3)]
    else:
        origin = None
    params = dict(z=z, velz2kms=velz2kms, Lbox=L, origin=origin, Mpart=2.0e9, chunk=-1)
    tracers = gen_tracers(rng, subset, flavor)
    if exact:
        q = 8
        hpos = _dy(rng, -L / 2, L / 2 - 1.0 / q, q, (H, 3))
        hvel = _dy(rng, -1024, 1024, 8, (H, 3))
        hveldev = _dy(rng, -256, 256, 8, (H, 3))
        hmass = rng.choice([1e11, 1e13, 1e15], H)
        hmultis = rng.choice([1.0, 1.0, 2.0, 0.5], H)
        hdeltac = _dy(rng, -2, 2, 4, H)
        hfenv = _dy(rng, -2, 2, 4, H)
        hshear = _dy(rng, -2, 2, 4, H)
        ppos = _dy(rng, -L / 2, L / 2 - 1.0 / q, q, (P, 3))
        pvel = _dy(rng, -1024, 1024, 8, (P, 3))
        pweights = 2.0 ** -rng.integers(0, 6, P)
        pr = [rng.choice([-0.5, -0.25, 0.0, 0.25, 0.5], P) for _ in range(5)]
    else:
        hpos = rng.uniform(-L / 2, L / 2, (H, 3))
        hvel = rng.normal(0, 400, (H, 3))
        hveldev = rng.normal(0, 150, (H, 3))
        hmass = 10 ** rng.uniform(11.3, 15.0, H)
        hmultis = rng.choice([1.0, 1.0, 1.0, 2.0, 3.0, 0.7], H)
        hdeltac = rng.normal(0, 1, H)
        hfenv = rng.normal(0, 1, H)
        hshear = rng.normal(0, 1, H)
        ppos = rng.uniform(-L / 2, L / 2, (P, 3))
        pvel = rng.normal(0, 500, (P, 3))
        pweights = 1.0 / rng.integers(1, 40, P) / rng.choice([0.03, 0.1, 0.5, 1.0], P)
        pr = [rng.uniform(-0.5, 0.5, P) for _ in range(5)]
    if not ranks and rng.random() < 0.5:
        pr = [np.ones(P) for _ in range(5)]           # what staging() provides without want_ranks
    hid = np.cumsum(rng.integers(1, 50, H)).astype(np.int64) + int(rng.integers(0, 10 ** 9))
    if H > 0 and P > 0:
        pinds = rng.integers(0, H, P).astype(np.int64)
        if rng.random() < 0.7:
            pinds = np.sort(pinds)
    else:
        pinds = np.zeros(0, dtype=np.int64)
        P = 0
        ppos, pvel, pweights = ppos[:0], pvel[:0], pweights[:0]
        pr = [a[:0] for a in pr]
    halo = dict(hpos=hpos, hvel=hvel, hmass=hmass, hid=hid, hmultis=hmultis,
                hrandoms=rng.uniform(0, 1, H), hveldev=hveldev, hdeltac=hdeltac, hfenv=hfenv, hshear=hshear)
    part = dict(ppos=ppos, pvel=pvel, phvel=hvel[pinds], phmass=hmass[pinds], phid=hid[pinds],
                pweights=pweights, prandoms=rng.uniform(0, 1, P), pinds=pinds,
                pdeltac=hdeltac[pinds], pfenv=hfenv[pinds], pshear=hshear[pinds],
                pranks=pr[0], pranksv=pr[1], pranksp=pr[2], pranksr=pr[3], pranksc=pr[4])
    case = dict(label=label, flavor=flavor, subset=subset, rsd=rsdmode in ('box', 'lc'), ranks=bool(ranks),
                rsdmode=rsdmode, tracers=tracers, params=params,
                halo={k: np.asarray(v).tolist() for k, v in halo.items()},
                part={k: np.asarray(v).tolist() for k, v in part.items()})
    place_randoms(rng, case)
    if rsdmode == 'box':
        place_wrap_boundaries(rng, case)
    return case


def to_arrays(case):
    h, p = case['halo'], case['part']
    H, P = len(h['hmass']), len(p['phmass'])
    halo = {k: np.array(h[k], dtype=np.float64).reshape(H, 3) for k in HCOLS3}
    halo.update({k: np.array(h[k], dtype=np.float64) for k in HCOLS1})
    halo['hid'] = np.array(h['hid'], dtype=np.int64)
    for k in ('hsigma3d', 'hc', 'hrvir'):
        if k in h:
            halo[k] = np.array(h[k], dtype=np.float64)
    part = {k: np.array(p[k], dtype=np.float64).reshape(P, 3) for k in PCOLS3}
    part.update({k: np.array(p[k], dtype=np.float64) for k in PCOLS1})
    part['phid'] = np.array(p['phid'], dtype=np.int64)
    part['pinds'] = np.array(p['pinds'], dtype=np.int64)
    params = dict(case['params'])
    params['origin'] = None if params['origin'] is None else np.array(params['origin'], dtype=np.float64)
    return dict(halo=halo, part=part, params=params, tracers={T: dict(d) for T, d in case['tracers'].items()})


def _pick_r(rng, en, w, exact, bands):
    """a random number for a row with widths w: uniform, 0, 1, on / next to a marker.  `exact`: the
    row's markers are exactly representable (values exactly on a marker are placed only then);
    `bands`: per marker, half-width of the zone in which a generic row decides nothing"""
    ms = markers(en, w)
    u = rng.random()
    if u < 0.40 or not ms:
        return float(_dy(rng, 0, 1, 1024)) if exact and rng.random() < 0.5 else float(rng.uniform(0, 1))
    if u < 0.50:
        return 0.0
    if u < 0.56:
        return 1.0
    k = int(rng.integers(0, len(ms)))
    m = float(ms[k])
    if not math.isfinite(m):
        return float(rng.uniform(0, 1))
    v = rng.random()
    if v < 0.5 and (exact or bands[k] == 0.0):
        return m                                   # exactly on the marker
    off = max(abs(m) * 2.0 ** -36, 64 * max(bands), 1e-300)
    return m + off if v < 0.75 else m - off        # just above / just below


def row_exact(case, en, w):
    return case['flavor'] == 'exact' and exact_row(en, w)


def row_bands(case, en, w, sl):
    """per marker (enabled tracers in order): 0 for an exact row, and 0 for a marker all of whose
    contributing widths are exactly 0 and insensitive (the `return 0` branches / underflow: nothing to
    round); otherwise AMBIG relative to the sum of |widths| so far plus their conditioning slack"""
    n = sum(1 for t in range(3) if en[t])
    if row_exact(case, en, w):
        return [0.0] * n
    out = []
    acc = 0.0
    for t in range(3):
        if en[t]:
            acc += AMBIG * abs(float(w[t])) + float(sl[t])
            out.append(acc)
    return out


def is_ambiguous(en, w, r, bands):
    return any(b > 0.0 and abs(r - m) <= b for m, b in zip(markers(en, w), bands))


def place_randoms(rng, case):
    """overwrite hrandoms / prandoms with the boundary-directed mixture (needs the widths)"""
    arr = to_arrays(case)
    en = enabled(case)
    wc = cent_widths(case, arr)
    w5 = sat_widths(case, arr)
    slc, sl5 = width_slack(case, arr, wc, w5)
    H = len(wc)
    hr = [_pick_r(rng, en, wc[i], row_exact(case, en, wc[i]), row_bands(case, en, wc[i], slc[i])) for i in range(H)]
    case['halo']['hrandoms'] = hr
    keep = [rule(en, wc[i], hr[i]) for i in range(H)]
    P = len(w5)
    kc = np.array([keep[j] for j in case['part']['pinds']], dtype=np.int64)
    ws = sat_triples(w5, kc)
    sls = sat_triples(sl5, kc)
    case['part']['prandoms'] = [_pick_r(rng, en, ws[i], row_exact(case, en, ws[i]),
                                        row_bands(case, en, ws[i], sls[i])) for i in range(P)]


def width_slack(case, arr, wc, w5):
    """conditioning of the widths: how much each moves when the host mass moves by 2^-46 relative
    (a few ulps inside pow/log10/erfc or an fma contraction move them by less); same shapes as wc, w5"""
    slc = np.zeros(wc.shape)
    sl5 = np.zeros(w5.shape)
    for f in (1 + 2.0 ** -46, 1 - 2.0 ** -46):
        a2 = dict(arr)
        a2['halo'] = dict(arr['halo'], hmass=arr['halo']['hmass'] * f)
        a2['part'] = dict(arr['part'], phmass=arr['part']['phmass'] * f)
        with np.errstate(all='ignore'):
            if len(wc):
                slc = np.maximum(slc, np.abs(cent_widths(case, a2) - wc))
            if len(w5):
                sl5 = np.maximum(sl5, np.abs(sat_widths(case, a2) - w5))
    return slc, sl5


def place_wrap_boundaries(rng, case):
    """box RSD: put some rows exactly on / next to the wrap boundaries z + vz*inv = +-L/2 (dyadic cases)"""
    if case['flavor'] != 'exact':
        return
    L = case['params']['Lbox']
    inv = 1 / case['params']['velz2kms']
    h = case['halo']
    H = len(h['hmass'])
    for i in range(H):
        if rng.random() < 0.3:
            # alpha_c * vdev_z = 0 for this row so that vz = hvel_z for every tracer
            h['hveldev'][i][2] = 0.0
            vz = float(_dy(rng, -512, 512, 8))
            target = float(rng.choice([L / 2, -L / 2, L / 2 - 0.125, -L / 2 - 0.125, -L / 2 + 0.125, L / 2 + 0.125]))
            zz = target - vz * inv
            if -L / 2 <= zz < L / 2:
                h['hvel'][i][2] = vz
                h['hpos'][i][2] = zz
    p = case['part']
    for i in range(len(p['phmass'])):
        if rng.random() < 0.2:
            # particle velocity = host velocity: vz = hvel_z whatever alpha_s
            j = p['pinds'][i]
            vz = h['hvel'][j][2]
            p['pvel'][i][2] = vz
            target = float(rng.choice([L / 2, -L / 2, L / 2 - 0.125, -L / 2 - 0.125]))
            zz = target - vz * inv
            if -L / 2 <= zz < L / 2:
                p['ppos'][i][2] = zz
    # phvel must stay the host's velocity
    p['phvel'] = [list(h['hvel'][j]) for j in p['pinds']]


# ----------------------------------------------------------------------------- running the real code

class Recorder:
    """wraps GRAND_HOD.gen_cent / gen_sats (module attributes looked up by gen_gals at call time) to
    observe their arguments and return values inside a real gen_gal_cat call"""

    def __enter__(self):
        self.oc, self.os, self.on = G.gen_cent, G.gen_sats, G.gen_sats_nfw
        self.cent_args = self.cent_out = self.sats_args = self.sats_out = None
        self.nfw_args = self.nfw_kwargs = self.nfw_out = None

        def c(*a):
            self.cent_args = a
            self.cent_out = self.oc(*a)
            return self.cent_out

        def s(*a):
            self.sats_args = a
            self.sats_out = self.os(*a)
            return self.sats_out

        def n(*a, **kw):
            self.nfw_args, self.nfw_kwargs = a, kw
            self.nfw_out = self.on(*a, **kw)
            return self.nfw_out

        G.gen_cent, G.gen_sats, G.gen_sats_nfw = c, s, n
        return self

    def __exit__(self, *exc):
        G.gen_cent, G.gen_sats, G.gen_sats_nfw = self.oc, self.os, self.on
        return False


def run_real(case, arr=None):
    arr = arr or to_arrays(case)
    with Recorder() as rec:
        out = G.gen_gal_cat(arr['halo'], arr['part'], arr['tracers'], arr['params'], Nthread=NTHREAD,
                            enable_ranks=bool(case['ranks']), rsd=bool(case['rsd']))
    return out, rec


def tracer_table(d, ids):
    """numba typed dict of columns + id array -> plain dict of numpy arrays"""
    t = {k: np.array(d[k]) for k in ('x', 'y', 'z', 'vx', 'vy', 'vz', 'mass')}
    t['id'] = np.array(ids)
    return t


# ----------------------------------------------------------------------------- NFW satellites (nfw=True)

NFW_DRAW_LEN = 200000


@njit
def _seed_numba(s):
    np.random.seed(s)


@njit
def _poisson_seq(means):
    out = np.zeros(len(means), dtype=np.int64)
    for i in range(len(means)):
        out[i] = np.random.poisson(means[i])
    return out


def nfw_extend(rng, case):
    """turn a case into an nfw=True case: the extra halo columns gen_sats_nfw reads, the optional NFW / velocity
    parameters, moderate host masses (the number of satellites must stay below len(NFW_draw): compute_fast_NFW
    starts reading NFW_draw at the satellite's own index)"""
    H = len(case['halo']['hmass'])
    if case['flavor'] != 'exact':
        case['halo']['hmass'] = (10 ** rng.uniform(12.0, 14.0, H)).tolist()
    else:
        case['halo']['hmass'] = rng.choice([1e13, 1e15, 1e15], H).tolist()
    case['halo']['hsigma3d'] = rng.uniform(100, 600, H).tolist()
    case['halo']['hc'] = rng.uniform(3, 12, H).tolist()
    case['halo']['hrvir'] = rng.uniform(0.2, 2.5, H).tolist()
    for T, d in case['tracers'].items():
        # enough satellites per tracer: getPointsOnSphere is only memory safe with >= Nthread points per tracer
        if case['flavor'] == 'exact':
            d['kappa'] = 0.0
            d['ic'] = float(rng.choice([1.0, 0.5]))
            if T == 'LRG':
                d['logM_cut'] = 12.0
        else:
            d['logM1'] = float(rng.uniform(12.3, 13.2))
            d['kappa'] = float(rng.uniform(0.0, 0.5))
            d['logM_cut'] = float(rng.uniform(11.5, 12.5))
        if rng.random() < 0.6:
            d['f_sigv'] = float(rng.choice([0.0, 0.5, 1.0]))
        if T == 'ELG' and rng.random() < 0.5:
            d['nfw_rescale'] = float(rng.choice([1.0, 0.5, 2.0]))
    case['nfw'] = True
    case['nfw_seed'] = int(rng.integers(0, 2 ** 31 - 1))
    case['label'] = case.get('label', '') + ':nfw'
    place_randoms(rng, case)      # host masses changed
    return case


def nfw_draw_array(case):
    r = np.random.default_rng(case['nfw_seed'])
    return r.uniform(0.01, 2.0, NFW_DRAW_LEN)    # <= every concentration hc >= 3: no re-draw loop


def nfw_means(case, arr, keep_cent):
    """Poisson means of gen_sats_nfw, in the order the kernel draws them: host by host, LRG, ELG, QSO
    (enabled ones): occupation x ic, ELG variant chosen by the host's own central code; no weights, no ranks"""
    H = len(arr['halo']['hmass'])
    h = arr['halo']
    fake = dict(arr, part=dict(phmass=h['hmass'], pweights=np.ones(H), pdeltac=h['hdeltac'], pfenv=h['hfenv'],
                               pshear=h['hshear'], pranks=np.ones(H), pranksv=np.ones(H), pranksp=np.ones(H),
                               pranksr=np.ones(H)))
    w5 = sat_widths(dict(case, ranks=False), fake)
    w3 = sat_triples(w5, np.asarray(keep_cent))
    en = enabled(case)
    means, owner = [], []
    for i in range(H):
        for t in range(3):
            if en[t]:
                means.append(w3[i, t])
                owner.append((i, t))
    return np.array(means, dtype=np.float64), owner


def run_real_nfw(case, arr):
    import warnings
    draw = nfw_draw_array(case)
    _seed_numba(case['nfw_seed'])
    with warnings.catch_warnings():
        warnings.simplefilter('ignore')
        with Recorder() as rec:
            out = G.gen_gal_cat(arr['halo'], arr['part'], arr['tracers'], arr['params'], Nthread=NTHREAD,
                                enable_ranks=bool(case['ranks']), rsd=bool(case['rsd']), nfw=True, NFW_draw=draw)
    return out, rec


def expected_nfw_counts(case, arr, keep_cent):
    """replay the kernel's Poisson draws: same seed, same generator, same order, the harness' own means"""
    means, owner = nfw_means(case, arr, keep_cent)
    _seed_numba(case['nfw_seed'])
    draws = _poisson_seq(means)
    H = len(arr['halo']['hmass'])
    cnt = np.zeros((H, 3), dtype=np.int64)
    for (i, t), n in zip(owner, draws):
        cnt[i, t] = n
    return cnt, means


_POINTS_SAFE = None


def nfw_points_safe():
    """does getPointsOnSphere loop over exactly as many blocks as it built boundaries for?  (Before its repair it
    built min(Nthread, nPoints) + 1 boundaries and looped over Nthread blocks: out-of-bounds reads and writes —
    observed as a segmentation fault — whenever a tracer has fewer than Nthread satellites.)  Read from the
    source, so that a run against an older tree does not execute undefined behaviour in this process."""
    global _POINTS_SAFE
    if _POINTS_SAFE is None:
        import ast
        import inspect
        import textwrap
        try:
            f = getattr(G.getPointsOnSphere, 'py_func', G.getPointsOnSphere)
            fd = ast.parse(textwrap.dedent(inspect.getsource(f))).body[0]
            nb = None      # number of boundaries: third argument of linspace
            nl = None      # prange argument
            for n in ast.walk(fd):
                if isinstance(n, ast.Call) and ast.unparse(n.func).endswith('linspace') and len(n.args) == 3:
                    nb = ast.unparse(n.args[2]).replace(' ', '')
                if isinstance(n, ast.For) and isinstance(n.iter, ast.Call) and 'prange' in ast.unparse(n.iter.func):
                    nl = ast.unparse(n.iter.args[0]).replace(' ', '')
            _POINTS_SAFE = nb is not None and nl is not None and nb in (nl + '+1', '1+' + nl)
        except Exception:   # noqa: BLE001
            _POINTS_SAFE = False
    return _POINTS_SAFE
