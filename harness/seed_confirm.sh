#!/bin/sh
# usage: harness/seed_confirm.sh <mutant worktree> <seeded id e.g. C11-a> "<checks that must catch it, e.g. C11 C07>"
# Confirms a seeded change independently (demo fails with it / passes without it, existing tests still pass),
# runs the named checks against the mutated tree, stores everything under /verif/seeded/<id>/ and removes the worktree.
MUT="$1"; ID="$2"; CHECKS="$3"
OUT=/verif/seeded/$ID
mkdir -p "$OUT"
cd "$MUT" || exit 2
export PYTHONPATH="$MUT:/verif/.pydeps:/verif/harness/shims:/verif/harness" NUMBA_BOUNDSCHECK=1 PYTHONDONTWRITEBYTECODE=1
# the agent's patch.diff is the deliverable: start from a pristine tree and apply exactly that
# (never `git stash`: the stash is shared by all worktrees of the repository)
cp patch.diff "$OUT/patch.diff"
cp demo.py "$OUT/demo.py"
git checkout -q -- abacusnbody
/venv/bin/python demo.py > "$OUT/demo_without_change.log" 2>&1; RC_WITHOUT=$?
if ! git apply "$OUT/patch.diff"; then echo "patch.diff does not apply to a pristine tree"; exit 3; fi
/venv/bin/python demo.py > "$OUT/demo_with_change.log" 2>&1; RC_WITH=$?
unset NUMBA_BOUNDSCHECK
TESTS=$(/venv/bin/python -m pytest -q -p no:cacheprovider --timeout=900 tests/test_util.py tests/test_tsc.py 2>&1 | tail -1)
RESULTS=""
cd /verif
for c in $CHECKS; do
  LINE=$(ABACUSUTILS_REPO="$MUT" ./check "$c" 2>/dev/null | grep -E "^(VIOLATION|OK)" | head -1)
  RESULTS="$RESULTS$c: $LINE; "
  R=$(echo "$LINE" | sed -n 's/.*replay=\([^ ]*\).*/\1/p')
  [ -n "$R" ] && [ -f "$R" ] && cp "$R" "$OUT/replay_$c.json"
done
/venv/bin/python - "$MUT" "$OUT" "$RC_WITH" "$RC_WITHOUT" "$TESTS" "$RESULTS" <<'PY'
import json, sys
mut, out, rcw, rcwo, tests, results = sys.argv[1:7]
try:
    meta = json.load(open(mut + '/meta.json'))
except Exception as e:
    meta = {'note': 'seeding agent meta.json unreadable: %s' % e}
meta['confirmed_by_me'] = {
    'demo_exit_with_change': int(rcw), 'demo_exit_without_change': int(rcwo),
    'existing_tests_with_change': tests,
    'checks_run_against_mutated_tree': results,
    'how': 'harness/seed_confirm.sh in the scratch worktree (ABACUSUTILS_REPO=<worktree> ./check Cxx); worktree removed afterwards',
}
json.dump(meta, open(out + '/meta.json', 'w'), indent=1)
print(json.dumps(meta['confirmed_by_me'], indent=1))
PY
git -C /repo worktree remove --force "$MUT"
