#!/bin/sh
# Regression over the stored seeded changes: every seeded/<id>/patch.diff is applied to a scratch worktree of /repo's
# HEAD and the check(s) recorded in its meta.json must still report a VIOLATION.
#
# usage: harness/seeded_regress.sh <lane-name> "<property ids this lane may run>" [seeded ids...]
#   results appended to seeded/regress-<lane>.log ; two lanes may run concurrently if their property sets are disjoint.
set -u
LANE="$1"; PROPS="$2"; shift 2
V=/verif
W=${TMPDIR:-/tmp}/abverif_seedreg_$LANE
LOG=$V/seeded/regress-$LANE.log
cd $V || exit 2
git -C /repo worktree remove --force "$W" 2>/dev/null
harness/mkworktree.sh "$W" HEAD >/dev/null 2>&1 || { echo "cannot create worktree $W"; exit 2; }
IDS="$*"
[ -z "$IDS" ] && IDS=$(ls seeded | grep -E '^C[0-9][0-9]-[a-z]$')
HEADREV=$(git -C /repo rev-parse --short HEAD)
for id in $IDS; do
  D=$V/seeded/$id/patch.diff
  [ -f "$D" ] || continue
  CHECKS=$(python3 -c "
import json,re,sys
m=json.load(open('$V/seeded/$id/meta.json'))
s=m.get('confirmed_by_me',{}).get('checks_run_against_mutated_tree','')
print(' '.join(sorted(set(re.findall(r'(C\d\d): VIOLATION', s)))))")
  RUN=""
  for c in $CHECKS; do case " $PROPS " in *" $c "*) RUN="$RUN $c";; esac; done
  [ -z "$RUN" ] && continue
  ( cd "$W" && git checkout -q -- . && git apply "$D" ) || { echo "$id @$HEADREV: patch does not apply" >> "$LOG"; continue; }
  for c in $RUN; do
    LINE=$(ABACUSUTILS_REPO="$W" ./check "$c" 2>/dev/null | grep -E "^(VIOLATION|OK)" | head -1)
    [ -z "$LINE" ] && LINE="NO-VERDICT (infrastructure)"
    echo "$id @$HEADREV $c: $LINE" >> "$LOG"
  done
  ( cd "$W" && git checkout -q -- . )
done
git -C /repo worktree remove --force "$W" 2>/dev/null
echo "lane $LANE done" >> "$LOG"
