#!/bin/sh
# usage: harness/mkworktree.sh <dir> [<commit>]   — scratch worktree of /repo that the harness can import:
# copies the git-ignored files the package needs at import time (version.py, the egg-info that registers
# the asdf 'blsc' entry point).  Remove with: git -C /repo worktree remove --force <dir>
set -e
DIR="$1"; COMMIT="${2:-HEAD}"
git -C /repo worktree add -q --detach "$DIR" "$COMMIT"
cp /repo/abacusnbody/version.py "$DIR/abacusnbody/"
cp -r /repo/abacusutils.egg-info "$DIR/"
echo "$DIR at $(git -C "$DIR" rev-parse --short HEAD)"
