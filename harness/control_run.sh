#!/bin/sh
# Control group: behaviour-preserving rewrites of /repo (control/<name>/benign.diff, written by independent
# sub-agents who saw only the source).  Every check whose anchored files the diff touches must stay quiet.
#
# usage: harness/control_run.sh <lane-name> "<property ids this lane may run>" [control names...]
#   creates ONE scratch worktree of /repo's HEAD outside /repo and /verif, and for each control diff applies it,
#   runs the lane's checks that are relevant to the touched files (ABACUSUTILS_REPO=<worktree>), reverts it.
#   Results are appended to control/results-<lane>.log; the worktree is removed at the end.
#   Two lanes may run concurrently only if their property sets are disjoint (Generated/*.lean files are per property).
set -u
LANE="$1"; PROPS="$2"; shift 2
V=/verif
W=${TMPDIR:-/tmp}/abverif_control_$LANE
LOG=$V/control/results-$LANE.log
cd $V || exit 2
[ -d "$W" ] && git -C /repo worktree remove --force "$W" 2>/dev/null
harness/mkworktree.sh "$W" HEAD >/dev/null 2>&1 || { echo "cannot create worktree $W"; exit 2; }
NAMES="$*"
[ -z "$NAMES" ] && NAMES=$(ls control | grep -v '^results' | grep -v '\.md$')
relevant() {  # file -> property ids
  case "$1" in
    abacusnbody/data/bitpacked.py) echo "C04 C16 C01 C11";;
    abacusnbody/data/pack9.py) echo "C15 C16 C11";;
    abacusnbody/util.py) echo "C19 C01 C03 C11";;
    abacusnbody/hod/GRAND_HOD.py) echo "C09 C10 C11";;
    abacusnbody/data/asdf.py) echo "C14";;
    abacusnbody/data/pipe_asdf.py) echo "C20";;
    abacusnbody/data/read_abacus.py) echo "C16 C15";;
    abacusnbody/data/compaso_halo_catalog.py) echo "C01 C02 C03 C05 C18 C04 C11";;
    abacusnbody/analysis/power_spectrum.py) echo "C08 C13 C06 C11";;
    abacusnbody/hod/abacus_hod.py) echo "C12 C11";;
    abacusnbody/analysis/tsc.py) echo "C06 C07 C17 C13 C11";;
    abacusnbody/analysis/cic.py) echo "C06 C13 C11";;
  esac
}
HEADREV=$(git -C /repo rev-parse --short HEAD)
for n in $NAMES; do
  D=$V/control/$n/benign.diff
  [ -f "$D" ] || continue
  ( cd "$W" && git checkout -q -- . && git apply "$D" ) || { echo "$n: diff does not apply to $HEADREV" >> "$LOG"; continue; }
  REL=""
  for f in $(grep '^+++ b/' "$D" | sed 's/^+++ b\///'); do REL="$REL $(relevant $f)"; done
  for c in $PROPS; do
    case " $REL " in *" $c "*) ;; *) continue;; esac
    LINE=$(ABACUSUTILS_REPO="$W" ./check "$c" 2>/dev/null | grep -E "^(VIOLATION|OK)" | head -1)
    [ -z "$LINE" ] && LINE="NO-VERDICT (infrastructure)"
    echo "$n @$HEADREV $c: $LINE" >> "$LOG"
    R=$(echo "$LINE" | sed -n 's/.*replay=\([^ ]*\).*/\1/p')
    [ -n "$R" ] && [ -f "$R" ] && cp "$R" "$V/control/$n/alarm_$c.json"
  done
  ( cd "$W" && git checkout -q -- . )
done
git -C /repo worktree remove --force "$W" 2>/dev/null
echo "lane $LANE done" >> "$LOG"
