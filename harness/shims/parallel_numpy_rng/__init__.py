"""Stand-in for parallel_numpy_rng (absent offline): enough for abacus_hod to import and run.
MTGenerator(PCG64(seed)).random/standard_normal delegate to numpy's Generator (single stream)."""
import numpy as np


class MTGenerator:
    def __init__(self, bitgen):
        self._g = np.random.Generator(bitgen)

    def random(self, size=None, nthread=None, dtype=np.float64, **kw):
        return self._g.random(size=size, dtype=dtype)

    def standard_normal(self, size=None, nthread=None, dtype=np.float64, **kw):
        return self._g.standard_normal(size=size, dtype=dtype)
