"""
Pure-Python stand-in for the `blosc` package (absent from the offline sandbox), used only by the
/verif harness.  The codec is outside every property (C14 is about the framing state machine in
abacusnbody/data/asdf.py); this stand-in provides the API that module uses.

Frame layout: 16-byte header  b'VBLS' + u32le(typesize) + u64le(uncompressed length)  + zlib payload,
so a frame is never empty (as with real blosc, whose header is 16 bytes).

`CALLS` records every frame handed to decompress_ptr (bytes) so the harness can compare the exact
byte strings the framing code passed to the codec.
"""
import ctypes
import struct
import zlib

SHUFFLE = 1
NOSHUFFLE = 0
BITSHUFFLE = 2
__version__ = '0.0-verif-standin'

CALLS = []
_state = {'nthreads': 1, 'blocksize': 0}


def set_nthreads(n):
    old = _state['nthreads']
    _state['nthreads'] = n
    return old


def set_blocksize(n):
    _state['blocksize'] = n


def compress(data, typesize=8, clevel=1, shuffle=SHUFFLE, cname='zstd', **kwargs):
    raw = bytes(memoryview(data).cast('B')) if not isinstance(data, (bytes, bytearray)) else bytes(data)
    return b'VBLS' + struct.pack('<IQ', int(typesize), len(raw)) + zlib.compress(raw, 1)


def _decode(frame):
    frame = bytes(frame)
    if frame[:4] != b'VBLS':
        raise ValueError('stand-in blosc: bad frame header %r' % frame[:4])
    _ts, n = struct.unpack('<IQ', frame[4:16])
    raw = zlib.decompress(frame[16:])
    if len(raw) != n:
        raise ValueError('stand-in blosc: length mismatch')
    return raw


def decompress(frame, as_bytearray=False):
    raw = _decode(frame)
    return bytearray(raw) if as_bytearray else raw


def decompress_ptr(frame, address, **kwargs):
    CALLS.append(bytes(frame))
    raw = _decode(frame)
    ctypes.memmove(address, raw, len(raw))
    return len(raw)
