"""Stand-in for Corrfunc (absent offline): importable, raises if used."""
