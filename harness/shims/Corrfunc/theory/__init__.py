def _absent(*a, **k):
    raise RuntimeError('Corrfunc is not available in the verification sandbox')


DDrppi = DDsmu = DDsmu_mocks = DDrppi_mocks = wp = xi = DD = _absent
