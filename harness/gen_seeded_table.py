"""Print the Markdown table of confirmed seeded changes (seeded/*/meta.json) for DESIGN.md §12."""
import json
from pathlib import Path

V = Path(__file__).resolve().parent.parent
rows = []
for d in sorted((V / 'seeded').iterdir()):
    mp = d / 'meta.json'
    if not mp.exists():
        continue
    m = json.loads(mp.read_text())
    c = m.get('confirmed_by_me', {})
    what = str(m.get('what', '')).replace('|', '/').replace('\n', ' ')
    needs = str(m.get('needs', '')).replace('|', '/').replace('\n', ' ')
    if len(what) > 230:
        what = what[:227] + '...'
    if len(needs) > 200:
        needs = needs[:197] + '...'
    caught = []
    for part in c.get('checks_run_against_mutated_tree', '').split(';'):
        part = part.strip()
        if not part:
            continue
        chk, _, line = part.partition(':')
        verdict = 'VIOLATION (no failing input)' if 'no-failing-input-found' in line else \
            'VIOLATION + failing input' if 'VIOLATION' in line else 'missed' if 'OK' in line else '?'
        caught.append('%s: %s' % (chk.strip(), verdict))
    rows.append('| %s | %s | %s | %s | demo %s/%s, tests: %s |' % (
        d.name, what, needs, '; '.join(caught), c.get('demo_exit_with_change'), c.get('demo_exit_without_change'),
        c.get('existing_tests_with_change', '').split(' in ')[0]))
print('| seeded id | change | needs, to manifest | check verdict on the mutated tree | confirmation (demo exit with/without, tests) |')
print('|---|---|---|---|---|')
print('\n'.join(rows))
