#!/bin/sh
# MANIFEST.setup_cmd: build everything the checks need from files on disk only (offline).
# Each check also (re)builds its own Lean modules and driver on every run, so a module of a property
# that is not claimed (or is work in progress) failing to build here must not fail the setup.
HERE="$(cd "$(dirname "$0")" && pwd)"
cd "$HERE" || exit 2
if [ ! -d .pydeps/scipy ]; then
  /venv/bin/python -m pip install --no-index --no-deps --quiet \
      --find-links /opt/veriftools/wheels --target "$HERE/.pydeps" scipy || exit 2
fi
cd lean || exit 2
IDS=$(/venv/bin/python -c "
import json
m = json.load(open('$HERE/MANIFEST.json'))
print(' '.join(c['property_id'] for c in m['checks']))")
rc=0
for id in $IDS; do
  low=$(echo "$id" | tr 'A-Z' 'a-z')
  # the modules the check will ask for (its LEAN_MODULES: the property file plus link / width / table files)
  MODS=$(/venv/bin/python -c "
import re, sys
src = open('$HERE/harness/props/$low.py').read()
m = re.search(r'^LEAN_MODULES\s*=\s*\[([^\]]*)\]', src, re.M)
mods = re.findall(r\"'([A-Za-z0-9_.]+)'\", m.group(1)) if m else []
print(' '.join(mods or ['AbacusVerif.Props.$id']))" 2>/dev/null)
  [ -z "$MODS" ] && MODS="AbacusVerif.Props.$id"
  echo "[setup] lake build $MODS drv_$low"
  if ! lake build $MODS "drv_$low" > "/tmp/abverif_setup_$id.log" 2>&1; then
    echo "[setup] WARNING: build of $id failed (the check will report it):"
    tail -n 20 "/tmp/abverif_setup_$id.log"
  fi
  rm -f "/tmp/abverif_setup_$id.log"
done
exit $rc
