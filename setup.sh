#!/bin/sh
# MANIFEST.setup_cmd: build everything the checks need from files on disk only (offline).
set -e
HERE="$(cd "$(dirname "$0")" && pwd)"
cd "$HERE"
if [ ! -d .pydeps/scipy ]; then
  /venv/bin/python -m pip install --no-index --no-deps --quiet \
      --find-links /opt/veriftools/wheels --target "$HERE/.pydeps" scipy
fi
cd lean
lake build
